"""Static analysis engine for the Eliot properties (see /verif/DESIGN.md)."""
