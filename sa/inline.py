"""Inlining of helper functions the rules do not know.

The rules are anchored in the functions of the pinned tree (sa/known_functions.json lists their qualified
names).  A *private* function or method that is not in that list is a helper somebody extracted later; its
callers no longer contain the statements the rules reason about.  Before anything is indexed, every call of
such a helper that sits at a place where it can be expanded without changing the evaluation order is replaced
by the helper's body (parameters bound to the arguments, locals renamed, tail `return E` turned into an
assignment of the result).  What cannot be expanded (generators, early returns out of loops, *args/**kwargs,
recursion, calls in the middle of an expression after another call) is left as an ordinary call, and the
analyses then treat it like any other repo function.

The expansion is semantics preserving for what the analyses look at: the same statements run in the same
order on the same objects; only stack frames disappear."""

import ast
import copy
import json
import os

_KNOWN = None


def known_functions():
    global _KNOWN
    if _KNOWN is None:
        p = os.path.join(os.path.dirname(os.path.abspath(__file__)), "known_functions.json")
        try:
            _KNOWN = {k: set(v) for k, v in json.load(open(p)).items()}
        except Exception:
            _KNOWN = {}
    return _KNOWN


def _is_generator(fn):
    for x in ast.walk(fn):
        if isinstance(x, (ast.Yield, ast.YieldFrom)):
            return True
    return False


def _own_walk(fn):
    """nodes of fn's own body, not entering nested function/class definitions"""
    todo = list(fn.body)
    while todo:
        n = todo.pop()
        yield n
        if isinstance(n, (ast.FunctionDef, ast.AsyncFunctionDef, ast.ClassDef, ast.Lambda)):
            continue
        todo.extend(ast.iter_child_nodes(n))


def _tail_returns(stmts):
    """number of Return statements in tail position of the statement list, or None when the list's last statement is
    a construct the expansion does not handle"""
    if not stmts:
        return 0
    last = stmts[-1]
    if isinstance(last, ast.Return):
        return 1
    if isinstance(last, ast.If):
        a, b = _tail_returns(last.body), _tail_returns(last.orelse)
        return None if a is None or b is None else a + b
    if isinstance(last, (ast.With,)):
        return _tail_returns(last.body)
    if isinstance(last, ast.Try):
        if any(isinstance(x, ast.Return) for st in last.finalbody for x in ast.walk(st)):
            return None
        tot = 0
        for part in [last.body if not last.orelse else last.orelse] + [h.body for h in last.handlers]:
            r = _tail_returns(part)
            if r is None:
                return None
            tot += r
        if last.orelse and any(isinstance(x, ast.Return) for st in last.body for x in ast.walk(st)):
            return None
        return tot
    return 0


def _ends_in_return(stmts):
    """every path through the statement list ends in a return / raise (it never falls off its end)"""
    if not stmts:
        return False
    last = stmts[-1]
    if isinstance(last, (ast.Return, ast.Raise)):
        return True
    if isinstance(last, ast.If):
        return _ends_in_return(last.body) and _ends_in_return(last.orelse)
    if isinstance(last, ast.With):
        return _ends_in_return(last.body)
    if isinstance(last, ast.Try) and not last.finalbody:
        main = last.orelse if last.orelse else last.body
        return _ends_in_return(main) and all(_ends_in_return(h.body) for h in last.handlers)
    return False


def _sink(stmts):
    """`if c: ...return` followed by more statements  ==  `if c: ...return  else: <the rest>`;
    `try: A except E: ...return` followed by more  ==  `try: A except E: ...return  else: <the rest>` (A contains no return).
    Brings early returns into tail position.  Works on a copy."""
    out = []
    i = 0
    while i < len(stmts):
        st = stmts[i]
        rest = stmts[i + 1:]
        if isinstance(st, ast.If):
            st.body = _sink(st.body)
            st.orelse = _sink(st.orelse)
            if rest and not st.orelse and _ends_in_return(st.body):
                st.orelse = _sink(rest)
                out.append(st)
                return out
            if rest and st.orelse and _ends_in_return(st.orelse) and not _ends_in_return(st.body):
                st.body = st.body + _sink(rest)
                out.append(st)
                return out
        elif isinstance(st, ast.Try) and not st.finalbody:
            st.body = _sink(st.body)
            for h in st.handlers:
                h.body = _sink(h.body)
            st.orelse = _sink(st.orelse)
            body_has_return = any(isinstance(x, ast.Return) for s_ in st.body for x in ast.walk(s_))
            if rest and st.handlers and all(_ends_in_return(h.body) for h in st.handlers) and not body_has_return and not _ends_in_return(st.orelse or [ast.Pass()]):
                st.orelse = st.orelse + _sink(rest)
                out.append(st)
                return out
        elif isinstance(st, ast.With):
            st.body = _sink(st.body)
        out.append(st)
        i += 1
    return out


def _loop_returns(stmts, counter):
    """A search loop that returns from inside:

        for x in it:                      for x in it:
            ...return A          ==           ...<r> = A; break
        <rest ending in return B>         else:
                                              <rest with its tail return turned into <r> = B>
                                          return <r>

    Only for a top-level `for` without else whose body contains no break and no nested loop with a return, followed by
    statements whose returns are in tail position."""
    for i, st in enumerate(stmts):
        if not isinstance(st, ast.For) or st.orelse:
            continue
        inner_returns = [x for b in st.body for x in ast.walk(b) if isinstance(x, ast.Return)]
        if not inner_returns:
            continue
        if any(isinstance(x, (ast.Break, ast.For, ast.While, ast.AsyncFor, ast.Try, ast.With, ast.FunctionDef, ast.Lambda)) for b in st.body for x in ast.walk(b)):
            return None
        rest = _sink(stmts[i + 1:])
        t = _tail_returns(rest)
        n_rest = sum(1 for b in rest for x in ast.walk(b) if isinstance(x, ast.Return))
        if t is None or t != n_rest:
            return None
        counter[0] += 1
        r = "_found%d" % counter[0]

        def make(v, at):
            a_ = ast.Assign(targets=[ast.Name(id=r, ctx=ast.Store())], value=v if v is not None else ast.copy_location(ast.Constant(value=None), at))
            ast.copy_location(a_.targets[0], at)
            return ast.copy_location(a_, at)

        class R(ast.NodeTransformer):
            def visit_Return(self, node):
                return [make(node.value, node), ast.copy_location(ast.Break(), node)]
        st.body = [y for b in st.body for y in (lambda z: z if isinstance(z, list) else [z])(R().visit(b))]
        st.orelse = _convert_tail(rest, make, st)
        final = ast.copy_location(ast.Return(value=ast.copy_location(ast.Name(id=r, ctx=ast.Load()), st)), st)
        return stmts[:i] + [st, final]
    return stmts


def _prepared_body(fn):
    body = [copy.deepcopy(s) for s in fn.body]
    if body and isinstance(body[0], ast.Expr) and isinstance(body[0].value, ast.Constant) and isinstance(body[0].value.value, str):
        body = body[1:]
    lr = _loop_returns(body, [0])
    if lr is not None:
        body = lr
    return _sink(body) or [ast.copy_location(ast.Pass(), fn)]


def _eligible(fn, decorators_ok=("staticmethod",), private=True):
    if not isinstance(fn, ast.FunctionDef):
        return False
    if (private and not fn.name.startswith("_")) or fn.name.startswith("__"):
        return False
    for d in fn.decorator_list:
        if not (isinstance(d, ast.Name) and d.id in decorators_ok):
            return False
    a = fn.args
    if a.vararg or a.kwarg or a.posonlyargs and False:
        return False
    for d in list(a.defaults) + [k for k in a.kw_defaults if k is not None]:
        if not isinstance(d, ast.Constant):
            return False
    if _is_generator(fn):
        return False
    own = list(_own_walk(fn))
    if any(isinstance(x, (ast.Global, ast.Nonlocal)) for x in own):
        return False
    if any(isinstance(x, (ast.FunctionDef, ast.AsyncFunctionDef, ast.ClassDef)) for x in own):
        return False  # helpers defining closures are left alone
    prepared = _prepared_body(fn)
    n_ret = sum(1 for b in prepared for x in ast.walk(b) if isinstance(x, ast.Return))
    t = _tail_returns(prepared)
    if t is None or t != n_ret:
        return False
    # not (directly) recursive
    for x in own:
        if isinstance(x, ast.Call):
            f = x.func
            if (isinstance(f, ast.Name) and f.id == fn.name) or (isinstance(f, ast.Attribute) and f.attr == fn.name):
                return False
    return True


class _Rename(ast.NodeTransformer):
    def __init__(self, mapping):
        self.m = mapping

    def visit_Name(self, node):
        if node.id in self.m:
            r = self.m[node.id]
            if isinstance(r, str):
                node.id = r
            else:
                if isinstance(node.ctx, ast.Load):
                    return ast.copy_location(copy.deepcopy(r), node)
        return node

    def visit_ExceptHandler(self, node):
        if node.name and isinstance(self.m.get(node.name), str):
            node.name = self.m[node.name]
        self.generic_visit(node)
        return node

    def visit_Lambda(self, node):
        # lambda parameters shadow; keep it simple: do not rename inside a lambda that rebinds one of our names
        params = {a.arg for a in node.args.args + node.args.kwonlyargs + node.args.posonlyargs}
        if params & set(self.m):
            return node
        self.generic_visit(node)
        return node


def _convert_tail(stmts, make, loc):
    """turn every tail `return E` into make(E, at); add make(None, at) where the list can fall off its end"""
    if not stmts:
        return [make(None, loc)]
    last = stmts[-1]
    if isinstance(last, ast.Return):
        return stmts[:-1] + [make(last.value, last)]
    if isinstance(last, ast.Raise):
        return stmts
    if isinstance(last, ast.If):
        last.body = _convert_tail(last.body, make, last)
        last.orelse = _convert_tail(last.orelse, make, last)
        return stmts
    if isinstance(last, ast.With):
        if _tail_returns(last.body):
            last.body = _convert_tail(last.body, make, last)
            return stmts
        return stmts + [make(None, last)]
    if isinstance(last, ast.Try):
        if _tail_returns([last]):
            if last.orelse:
                last.orelse = _convert_tail(last.orelse, make, last)
            else:
                last.body = _convert_tail(last.body, make, last)
            for h in last.handlers:
                h.body = _convert_tail(h.body, make, last)
            return stmts
        return stmts + [make(None, last)]
    return stmts + [make(None, last)]


class Inliner:
    def __init__(self, tree, module_short):
        self.tree = tree
        self.known = known_functions().get(module_short)
        self.counter = 0
        self.funcs = {}     # name -> FunctionDef (module level)
        self.methods = {}   # (class name, method name) -> FunctionDef
        self.expanded = 0
        self.records = {}   # name of a new private record class -> (ClassDef, __init__, [field names])
        self.local_types = {}  # within the function being processed: local name -> record class name
        self.unique_new = {}
        self.ctx_helpers = {}

    def _record_class(self, node):
        """(init, fields) when the class is a plain record the rules do not know: no bases but object, no decorators, a body of
        methods (+ docstring / __slots__), an __init__ that only stores `self.<field> = <expr>` in a straight line."""
        if node.decorator_list or node.keywords or any(not (isinstance(b, ast.Name) and b.id == "object") for b in node.bases):
            return None
        if not node.name.startswith("_") or any(k.startswith(node.name + ".") for k in self.known):
            return None
        init = None
        for m in node.body:
            if isinstance(m, ast.Expr) and isinstance(m.value, ast.Constant):
                continue
            if isinstance(m, ast.Assign) and len(m.targets) == 1 and isinstance(m.targets[0], ast.Name) and m.targets[0].id == "__slots__":
                continue
            if isinstance(m, ast.FunctionDef) and not m.decorator_list and (m.name == "__init__" or not (m.name.startswith("__") and m.name.endswith("__"))):
                if m.name == "__init__":
                    init = m
                continue
            return None
        if init is None or init.args.vararg or init.args.kwarg or init.args.kwonlyargs or not init.args.args:
            return None
        me = init.args.args[0].arg
        fields = []
        for st in init.body:
            if isinstance(st, ast.Pass) or (isinstance(st, ast.Expr) and isinstance(st.value, ast.Constant)):
                continue
            if isinstance(st, ast.Assign) and len(st.targets) == 1 and isinstance(st.targets[0], ast.Attribute) and isinstance(st.targets[0].value, ast.Name) \
                    and st.targets[0].value.id == me:
                # the value may read parameters and fields stored earlier, nothing else of self
                okv = all(not (isinstance(x, ast.Name) and x.id == me) or any(isinstance(a_, ast.Attribute) and a_.value is x and a_.attr in fields for a_ in ast.walk(st.value))
                          for x in ast.walk(st.value))
                if not okv:
                    return None
                if st.targets[0].attr not in fields:
                    fields.append(st.targets[0].attr)
                continue
            return None
        return init, fields

    def collect(self):
        if self.known is None:
            return
        for node in self.tree.body:
            if isinstance(node, ast.ClassDef):
                r = self._record_class(node)
                if r is not None:
                    self.records[node.name] = (node, r[0], r[1])
                    for m in node.body:
                        # the methods of a private record class are private whatever their names
                        if isinstance(m, ast.FunctionDef) and m is not r[0] and _eligible(m, private=False):
                            self.methods[(node.name, m.name)] = m
        for node in self.tree.body:
            if isinstance(node, ast.FunctionDef) and node.name not in self.known and _eligible(node):
                self.funcs[node.name] = node
            elif isinstance(node, ast.ClassDef):
                for m in node.body:
                    if isinstance(m, ast.FunctionDef) and ("%s.%s" % (node.name, m.name)) not in self.known and _eligible(m):
                        self.methods[(node.name, m.name)] = m

    # -- finding an expandable call in a statement header
    def _unique_new_methods(self):
        """name -> (class name, FunctionDef) for methods that are not functions of the pinned tree, whose name no other function or
        method of the module (old or new) carries: a call `<name>.<that method>(...)` can only mean this one"""
        if self.known is None:
            return {}
        seen = {}
        for node in self.tree.body:
            if isinstance(node, ast.ClassDef):
                for m in node.body:
                    if isinstance(m, ast.FunctionDef):
                        seen.setdefault(m.name, []).append((node.name, m))
            elif isinstance(node, ast.FunctionDef):
                seen.setdefault(node.name, []).append((None, node))
        out = {}
        for name, lst in seen.items():
            if len(lst) != 1 or lst[0][0] is None or name.startswith("__"):
                continue
            cn, m = lst[0]
            if ("%s.%s" % (cn, name)) in self.known or any(k.split(".")[-1] == name for k in self.known):
                continue
            if cn in self.records:
                continue
            if _eligible(m, private=False) and m.args.args:
                out[name] = (cn, m)
        return out

    def _ctx_helpers(self):
        """new private @contextmanager generators of the shape  PRE...; try: yield [V] finally: POST   (or PRE...; yield [V]; POST-free):
        (class name or None, name) -> (FunctionDef, pre statements, yielded value or None, post statements)"""
        out = {}
        if self.known is None:
            return out

        def shape(fn):
            if not (len(fn.decorator_list) == 1 and isinstance(fn.decorator_list[0], (ast.Name, ast.Attribute))
                    and (fn.decorator_list[0].id if isinstance(fn.decorator_list[0], ast.Name) else fn.decorator_list[0].attr) == "contextmanager"):
                return None
            a = fn.args
            if a.vararg or a.kwarg or a.kwonlyargs or a.defaults:
                return None
            body = list(fn.body)
            if body and isinstance(body[0], ast.Expr) and isinstance(body[0].value, ast.Constant) and isinstance(body[0].value.value, str):
                body = body[1:]
            if not body:
                return None
            pre, last = body[:-1], body[-1]
            if any(isinstance(x, (ast.Yield, ast.YieldFrom, ast.Return)) for st in pre for x in ast.walk(st)):
                return None
            if isinstance(last, ast.Try) and not last.handlers and not last.orelse and len(last.body) == 1 and isinstance(last.body[0], ast.Expr) \
                    and isinstance(last.body[0].value, ast.Yield) and not any(isinstance(x, (ast.Yield, ast.YieldFrom, ast.Return)) for st in last.finalbody for x in ast.walk(st)):
                return fn, pre, last.body[0].value.value, last.finalbody
            if isinstance(last, ast.Expr) and isinstance(last.value, ast.Yield):
                return fn, pre, last.value.value, []
            return None
        for node in self.tree.body:
            if isinstance(node, ast.FunctionDef) and node.name.startswith("_") and node.name not in self.known:
                r = shape(node)
                if r:
                    out[(None, node.name)] = r
            elif isinstance(node, ast.ClassDef):
                for m in node.body:
                    if isinstance(m, ast.FunctionDef) and m.name.startswith("_") and not m.name.startswith("__") and ("%s.%s" % (node.name, m.name)) not in self.known:
                        r = shape(m)
                        if r:
                            out[(node.name, m.name)] = r
        return out

    def _expand_with(self, st, cls_name, self_name):
        """`with <helper>(args) [as v]: BODY`  ->  parameters bound; PRE; [v = yielded value]; try: BODY finally: POST"""
        if not (isinstance(st, ast.With) and len(st.items) == 1 and isinstance(st.items[0].context_expr, ast.Call)):
            return None
        call = st.items[0].context_expr
        f = call.func
        key, recv = None, None
        if isinstance(f, ast.Name) and (None, f.id) in self.ctx_helpers:
            key = (None, f.id)
        elif isinstance(f, ast.Attribute) and isinstance(f.value, ast.Name) and cls_name is not None and f.value.id == self_name and (cls_name, f.attr) in self.ctx_helpers:
            key, recv = (cls_name, f.attr), f.value
        if key is None or call.keywords or any(isinstance(a, ast.Starred) for a in call.args):
            return None
        fn, pre, yielded, post = self.ctx_helpers[key]
        params = [x.arg for x in fn.args.posonlyargs + fn.args.args]
        mapping = {}
        if recv is not None:
            mapping[params[0]] = recv.id
            params = params[1:]
        if len(params) != len(call.args):
            return None
        self.counter += 1
        suf = "__%s_%d" % (fn.name.strip("_"), self.counter)
        prologue = []
        for p_, a_ in zip(params, call.args):
            if isinstance(a_, (ast.Name, ast.Constant)):
                mapping[p_] = a_.id if isinstance(a_, ast.Name) else a_
                continue
            new = p_ + suf
            mapping[p_] = new
            asg = ast.Assign(targets=[ast.Name(id=new, ctx=ast.Store())], value=a_)
            for y in ast.walk(asg):
                ast.copy_location(y, call)
            prologue.append(asg)
        locals_ = {x.id for b_ in pre + post for x in ast.walk(b_) if isinstance(x, ast.Name) and isinstance(x.ctx, (ast.Store, ast.Del))}
        for l in locals_:
            mapping.setdefault(l, l + suf)
        ren = _Rename(mapping)
        pre2 = [ren.visit(copy.deepcopy(s_)) for s_ in pre]
        post2 = [ren.visit(copy.deepcopy(s_)) for s_ in post]
        body = list(st.body)
        if st.items[0].optional_vars is not None:
            yv = ren.visit(copy.deepcopy(yielded)) if yielded is not None else ast.Constant(value=None)
            asg = ast.Assign(targets=[st.items[0].optional_vars], value=yv)
            for y in ast.walk(asg):
                if not hasattr(y, "lineno"):
                    ast.copy_location(y, st)
            body = [asg] + body
        if post2:
            new_st = ast.Try(body=body, handlers=[], orelse=[], finalbody=post2)
            ast.copy_location(new_st, st)
            tail = [new_st]
        else:
            tail = body
        return prologue + pre2 + tail

    def _header_fields(self, st):
        if isinstance(st, (ast.Expr, ast.Return)) and st.value is not None:
            return ["value"]
        if isinstance(st, (ast.Assign, ast.AugAssign, ast.AnnAssign)) and st.value is not None:
            return ["value"]
        if isinstance(st, ast.If):
            return ["test"]
        if isinstance(st, (ast.For,)):
            return ["iter"]
        if isinstance(st, ast.Raise) and st.exc is not None:
            return ["exc"]
        return []

    def _resolve(self, call, cls_name, self_name):
        f = call.func
        if isinstance(f, ast.Name) and f.id in self.funcs:
            return self.funcs[f.id], None
        if isinstance(f, ast.Attribute) and isinstance(f.value, ast.Name) and cls_name is not None and f.value.id == self_name and (cls_name, f.attr) in self.methods:
            h = self.methods[(cls_name, f.attr)]
            static = any(isinstance(d, ast.Name) and d.id == "staticmethod" for d in h.decorator_list)
            return h, (None if static else f.value)
        if isinstance(f, ast.Attribute) and isinstance(f.value, ast.Name) and f.value.id in self.local_types and (self.local_types[f.value.id], f.attr) in self.methods:
            return self.methods[(self.local_types[f.value.id], f.attr)], f.value
        if isinstance(f, ast.Attribute) and isinstance(f.value, ast.Name) and f.attr in self.unique_new:
            cn, h = self.unique_new[f.attr]
            if not any(isinstance(d, ast.Name) and d.id in ("staticmethod", "classmethod") for d in h.decorator_list) and not h.decorator_list:
                return h, f.value
        return None, None

    def _find(self, st, cls_name, self_name):
        for field in self._header_fields(st):
            h_expr = getattr(st, field)
            calls = [c for c in ast.walk(h_expr) if isinstance(c, ast.Call)]
            for c in calls:
                helper, recv = self._resolve(c, cls_name, self_name)
                if helper is None:
                    continue
                # evaluation order: no other call, not an ancestor of c and not inside c, may come before c
                inside_c = {id(x) for x in ast.walk(c)}
                ancestors = {id(a) for a in calls if a is not c and any(x is c for x in ast.walk(a))}
                blocked = False
                from .normalize import evaluation_order
                order = evaluation_order(h_expr)
                cpos = next((i_ for i_, z in enumerate(order) if z is c), None)
                if cpos is None:
                    blocked = True
                else:
                    for k in order[:cpos]:
                        if isinstance(k, (ast.Call, ast.NamedExpr, ast.Await, ast.Yield, ast.YieldFrom)) and id(k) not in inside_c:
                            blocked = True
                for y in ast.walk(h_expr):
                    if isinstance(y, (ast.Lambda, ast.ListComp, ast.SetComp, ast.DictComp, ast.GeneratorExp, ast.IfExp, ast.NamedExpr)) and any(x is c for x in ast.walk(y)):
                        blocked = True
                    if isinstance(y, ast.BoolOp) and any(x is c for x in ast.walk(y)) and not any(x is c for x in ast.walk(y.values[0])):
                        blocked = True
                # argument binding must be simple
                if any(isinstance(a, ast.Starred) for a in c.args) or any(k.arg is None for k in c.keywords):
                    blocked = True
                if not blocked:
                    return field, c, helper, recv
        return None

    def _expand(self, st, field, call, helper, recv):
        self.counter += 1
        suf = "__%s_%d" % (helper.name.strip("_"), self.counter)
        a = helper.args
        params = [x.arg for x in a.posonlyargs + a.args]
        kwonly = [x.arg for x in a.kwonlyargs]
        mapping = {}
        prologue = []
        pos_args = list(call.args)
        if recv is not None:
            if not params:
                return None
            mapping[params[0]] = recv.id   # self -> the receiver's own name
            params = params[1:]
        if len(pos_args) > len(params):
            return None
        bound = {}
        for p, v in zip(params, pos_args):
            bound[p] = v
        for k in call.keywords:
            if k.arg in bound or k.arg not in params + kwonly:
                return None
            bound[k.arg] = k.value
        defaults = dict(zip(reversed([x.arg for x in a.posonlyargs + a.args]), reversed(a.defaults)))
        defaults.update({x.arg: d for x, d in zip(a.kwonlyargs, a.kw_defaults) if d is not None})
        for p in params + kwonly:
            if p not in bound:
                if p not in defaults:
                    return None
                bound[p] = defaults[p]
        body = _prepared_body(helper)
        locals_ = set()
        for b_ in body:
            for x in ast.walk(b_):
                if isinstance(x, ast.Name) and isinstance(x.ctx, (ast.Store, ast.Del)):
                    locals_.add(x.id)
                elif isinstance(x, ast.ExceptHandler) and x.name:
                    locals_.add(x.name)
        rebound_in_helper = {x.id for x in _own_walk(helper) if isinstance(x, ast.Name) and isinstance(x.ctx, (ast.Store, ast.Del))}
        for p in params + kwonly:
            if isinstance(bound[p], (ast.Name, ast.Constant)) and p not in rebound_in_helper:
                # the helper only reads this parameter: it simply stands for the caller's name / the literal
                mapping[p] = bound[p] if isinstance(bound[p], ast.Constant) else bound[p].id
                continue
            new = p + suf
            mapping[p] = new
            asg = ast.Assign(targets=[ast.Name(id=new, ctx=ast.Store())], value=bound[p])
            ast.copy_location(asg, call)
            ast.copy_location(asg.targets[0], call)
            prologue.append(asg)
        for l in locals_:
            if l not in mapping:
                mapping[l] = l + suf
        ren = _Rename(mapping)
        body = [ren.visit(s) for s in body]
        ret = "_ret" + suf

        def none_at(at):
            return ast.copy_location(ast.Constant(value=None), at)
        plain = isinstance(st, ast.Expr) and st.value is call
        whole_assign = isinstance(st, ast.Assign) and st.value is call
        whole_return = isinstance(st, ast.Return) and st.value is call
        if plain:
            def make(v, at):
                if v is None or isinstance(v, (ast.Constant, ast.Name)):
                    return ast.copy_location(ast.Pass(), at)
                return ast.copy_location(ast.Expr(value=v), at)
            return prologue + _convert_tail(body, make, call)
        if whole_assign:
            def make(v, at):
                a_ = ast.Assign(targets=[copy.deepcopy(t) for t in st.targets], value=v if v is not None else none_at(at))
                return ast.copy_location(a_, at)
            return prologue + _convert_tail(body, make, call)
        if whole_return:
            def make(v, at):
                return ast.copy_location(ast.Return(value=v if v is not None else none_at(at)), at)
            return prologue + _convert_tail(body, make, call)

        def make(v, at):
            a_ = ast.Assign(targets=[ast.Name(id=ret, ctx=ast.Store())], value=v if v is not None else none_at(at))
            ast.copy_location(a_.targets[0], at)
            return ast.copy_location(a_, at)
        out = prologue + _convert_tail(body, make, call)

        class Rep(ast.NodeTransformer):
            def visit_Call(self, node):
                if node is call:
                    return ast.copy_location(ast.Name(id=ret, ctx=ast.Load()), node)
                self.generic_visit(node)
                return node
        setattr(st, field, Rep().visit(getattr(st, field)))
        return out + [st]

    def _closure_for_run(self, st):
        """`<x>.run(helper, a, b, ...)` with a helper unknown to the pinned tree and plain names as arguments is
        `<x>.run(go)` with `def go(): <helper body over a, b, ...>` defined just before: Context.run(f, *args) calls f(*args)
        at once, so reading the arguments inside the closure instead of binding them at the call changes nothing."""
        for field in self._header_fields(st):
            h_expr = getattr(st, field)
            for c in [x for x in ast.walk(h_expr) if isinstance(x, ast.Call)]:
                if not (isinstance(c.func, ast.Attribute) and c.func.attr == "run" and c.args and isinstance(c.args[0], ast.Name) and c.args[0].id in self.funcs
                        and not c.keywords and all(isinstance(a, ast.Name) for a in c.args[1:])):
                    continue
                helper = self.funcs[c.args[0].id]
                params = [x.arg for x in helper.args.posonlyargs + helper.args.args]
                if len(params) != len(c.args) - 1 or helper.args.kwonlyargs:
                    continue
                stored = {x.id for x in _own_walk(helper) if isinstance(x, ast.Name) and isinstance(x.ctx, (ast.Store, ast.Del))}
                if any(p in stored for p in params):
                    continue
                self.counter += 1
                name = "_run_%s_%d" % (helper.name.strip("_"), self.counter)
                mapping = {p: a.id for p, a in zip(params, c.args[1:])}
                body = [copy.deepcopy(s_) for s_ in helper.body]
                if body and isinstance(body[0], ast.Expr) and isinstance(body[0].value, ast.Constant) and isinstance(body[0].value.value, str):
                    body = body[1:]
                suf = "__%s_%d" % (helper.name.strip("_"), self.counter)
                for l in stored:
                    mapping[l] = l + suf
                body = [_Rename(mapping).visit(b) for b in body] or [ast.copy_location(ast.Pass(), c)]
                fn = ast.FunctionDef(name=name, args=ast.arguments(posonlyargs=[], args=[], vararg=None, kwonlyargs=[], kw_defaults=[], kwarg=None, defaults=[]),
                                     body=body, decorator_list=[], returns=None, type_comment=None)
                if hasattr(ast, "TypeVar"):
                    fn.type_params = []
                ast.copy_location(fn, c)
                c.args = [ast.copy_location(ast.Name(id=name, ctx=ast.Load()), c)]
                self.expanded += 1
                return [fn, st]
        return None

    def _process_block(self, stmts, cls_name, self_name):
        i = 0
        changed = False
        while i < len(stmts):
            st = stmts[i]
            cl = self._closure_for_run(st)
            if cl is not None:
                stmts[i:i + 1] = cl
                changed = True
                i += 1   # skip the new def; the statement itself is re-examined below on the next round
                continue
            if self.ctx_helpers:
                exp = self._expand_with(st, cls_name, self_name)
                if exp is not None:
                    stmts[i:i + 1] = exp
                    self.expanded += 1
                    changed = True
                    continue
            hit = self._find(st, cls_name, self_name)
            if hit is not None:
                new = self._expand(st, *hit)
                if new is not None:
                    stmts[i:i + 1] = new
                    self.expanded += 1
                    changed = True
                    if self.expanded > 400:
                        return changed
                    continue  # re-examine from the same index (helpers calling helpers)
            # recurse into nested blocks
            for field in ("body", "orelse", "finalbody"):
                v = getattr(st, field, None)
                if isinstance(v, list) and v and isinstance(v[0], ast.stmt) and not isinstance(st, (ast.FunctionDef, ast.AsyncFunctionDef, ast.ClassDef)):
                    changed |= self._process_block(v, cls_name, self_name)
            if isinstance(st, ast.Try):
                for h in st.handlers:
                    changed |= self._process_block(h.body, cls_name, self_name)
            i += 1
        return changed

    def _record_locals(self, fn):
        """local name -> record class, for locals of fn bound exactly once, by `v = <record class>(...)`, and never stored to elsewhere
        (nested functions included)"""
        if not self.records:
            return {}
        params = {a.arg for a in fn.args.posonlyargs + fn.args.args + fn.args.kwonlyargs} | {a.arg for a in (fn.args.vararg, fn.args.kwarg) if a is not None}
        stores = {}
        for x in ast.walk(fn):
            if isinstance(x, ast.Name) and isinstance(x.ctx, (ast.Store, ast.Del)):
                stores[x.id] = stores.get(x.id, 0) + 1
            elif isinstance(x, (ast.Global, ast.Nonlocal)):
                for n_ in x.names:
                    stores[n_] = stores.get(n_, 0) + 2
            elif isinstance(x, ast.ExceptHandler) and x.name:
                stores[x.name] = stores.get(x.name, 0) + 2
            elif isinstance(x, ast.arg) and x is not None:
                pass
        out = {}
        for x in _own_walk(fn):
            if isinstance(x, ast.Assign) and len(x.targets) == 1 and isinstance(x.targets[0], ast.Name) and isinstance(x.value, ast.Call) \
                    and isinstance(x.value.func, ast.Name) and x.value.func.id in self.records:
                v = x.targets[0].id
                if stores.get(v) == 1 and v not in params:
                    # nested functions must not have a parameter / local of the same name
                    shadow = any(isinstance(y, (ast.FunctionDef, ast.AsyncFunctionDef, ast.Lambda)) and y is not fn
                                 and any(a.arg == v for a in y.args.posonlyargs + y.args.args + y.args.kwonlyargs + [z for z in (y.args.vararg, y.args.kwarg) if z is not None])
                                 for y in ast.walk(fn))
                    if not shadow:
                        out[v] = x.value.func.id
        return out

    def _scalar_replace(self, fn):
        """`v = K(args)` with K a record class, every other use of v an attribute access of one of K's fields: the object is
        replaced by one local per field (`v__field`), its __init__ by the assignments it makes."""
        done = False
        for v, kname in sorted(self.local_types.items()):
            node, init, fields = self.records[kname]
            names = [x for x in ast.walk(fn) if isinstance(x, ast.Name) and x.id == v]
            attr_of = {id(a.value): a for a in ast.walk(fn) if isinstance(a, ast.Attribute) and isinstance(a.value, ast.Name) and a.value.id == v}
            own_ids = {id(x) for x in _own_walk(fn)}
            binding = None
            ok = True
            for x in names:
                if isinstance(x.ctx, ast.Store):
                    binding = x
                    continue
                a = attr_of.get(id(x))
                if a is None or a.attr not in fields or isinstance(a.ctx, ast.Del):
                    ok = False
                elif isinstance(a.ctx, ast.Store) and id(a) not in own_ids:
                    ok = False   # a nested function would need `nonlocal`
            if not ok or binding is None:
                continue
            new_names = {f_: "%s__%s" % (v, f_) for f_ in fields}
            if any(isinstance(x, ast.Name) and x.id in new_names.values() for x in ast.walk(fn)):
                continue
            # the constructor call: bind __init__'s parameters
            asg = next(x for x in _own_walk(fn) if isinstance(x, ast.Assign) and x.targets and x.targets[0] is binding)
            call = asg.value
            a_ = init.args
            params = [z.arg for z in a_.posonlyargs + a_.args][1:]
            me = (a_.posonlyargs + a_.args)[0].arg
            if any(isinstance(z, ast.Starred) for z in call.args) or any(k.arg is None for k in call.keywords) or len(call.args) > len(params):
                continue
            bound = dict(zip(params, call.args))
            bad = False
            for k in call.keywords:
                if k.arg in bound or k.arg not in params:
                    bad = True
                bound[k.arg] = k.value
            defaults = dict(zip(reversed(params), reversed(a_.defaults)))
            for p_ in params:
                if p_ not in bound:
                    if p_ in defaults and isinstance(defaults[p_], ast.Constant):
                        bound[p_] = defaults[p_]
                    else:
                        bad = True
            if bad:
                continue
            stmts = []
            pmap = {}
            for p_ in params:
                if isinstance(bound[p_], (ast.Name, ast.Constant)):
                    pmap[p_] = bound[p_]
                else:
                    t_ = "%s__arg_%s" % (v, p_)
                    st_ = ast.Assign(targets=[ast.Name(id=t_, ctx=ast.Store())], value=bound[p_])
                    stmts.append(st_)
                    pmap[p_] = ast.Name(id=t_, ctx=ast.Load())

            class Sub(ast.NodeTransformer):
                def visit_Attribute(self, n):
                    if isinstance(n.value, ast.Name) and n.value.id == me and n.attr in new_names:
                        return ast.copy_location(ast.Name(id=new_names[n.attr], ctx=n.ctx), n)
                    self.generic_visit(n)
                    return n

                def visit_Name(self, n):
                    if n.id in pmap and isinstance(n.ctx, ast.Load):
                        return ast.copy_location(copy.deepcopy(pmap[n.id]), n)
                    return n
            for st in init.body:
                if isinstance(st, ast.Assign):
                    stmts.append(Sub().visit(copy.deepcopy(st)))
            for st_ in stmts:
                for y in ast.walk(st_):
                    ast.copy_location(y, asg)

            class Rep(ast.NodeTransformer):
                def visit_Attribute(self, n):
                    if isinstance(n.value, ast.Name) and n.value.id == v and n.attr in new_names:
                        return ast.copy_location(ast.Name(id=new_names[n.attr], ctx=n.ctx), n)
                    self.generic_visit(n)
                    return n
            # replace the binding statement in whichever block holds it
            def put(block):
                for i_, st in enumerate(block):
                    if st is asg:
                        block[i_:i_ + 1] = stmts
                        return True
                    for field in ("body", "orelse", "finalbody"):
                        b_ = getattr(st, field, None)
                        if isinstance(b_, list) and b_ and isinstance(b_[0], ast.stmt) and not isinstance(st, (ast.FunctionDef, ast.AsyncFunctionDef, ast.ClassDef)) and put(b_):
                            return True
                    if isinstance(st, ast.Try):
                        for h in st.handlers:
                            if put(h.body):
                                return True
                return False
            if not put(fn.body):
                continue
            Rep().visit(fn)
            self.expanded += 1
            done = True
        return done

    def _process_function(self, fn, cls_name):
        self_name = fn.args.args[0].arg if (cls_name is not None and fn.args.args and not any(isinstance(d, ast.Name) and d.id == "staticmethod" for d in fn.decorator_list)) else None
        self.local_types = self._record_locals(fn)
        self._process_block(fn.body, cls_name, self_name)
        for x in _own_walk(fn):
            if isinstance(x, (ast.FunctionDef, ast.AsyncFunctionDef)):
                # nested functions see the enclosing method's self as a closure variable
                self._process_nested(x, cls_name, self_name)
        if self.local_types:
            self._scalar_replace(fn)
        self.local_types = {}

    def _process_nested(self, fn, cls_name, self_name):
        self._process_block(fn.body, cls_name, self_name)
        for x in _own_walk(fn):
            if isinstance(x, (ast.FunctionDef, ast.AsyncFunctionDef)):
                self._process_nested(x, cls_name, self_name)

    def run(self):
        self.collect()
        self.unique_new = self._unique_new_methods()
        self.ctx_helpers = self._ctx_helpers()
        if not self.funcs and not self.methods and not self.records and not self.unique_new and not self.ctx_helpers:
            return self.tree
        for node in self.tree.body:
            if isinstance(node, (ast.FunctionDef, ast.AsyncFunctionDef)):
                self._process_function(node, None)
            elif isinstance(node, ast.ClassDef):
                for m in node.body:
                    if isinstance(m, (ast.FunctionDef, ast.AsyncFunctionDef)):
                        self._process_function(m, node.name)
        # drop helpers that are no longer referenced anywhere
        def referenced(name, skip):
            for x in ast.walk(self.tree):
                if x is skip:
                    continue
                if isinstance(x, ast.Name) and x.id == name and not any(y is x for y in ast.walk(skip)):
                    return True
                if isinstance(x, ast.Attribute) and x.attr == name and not any(y is x for y in ast.walk(skip)):
                    return True
                if isinstance(x, ast.Constant) and x.value == name:
                    return True
            return False
        for name, fn in list(self.funcs.items()):
            if not referenced(name, fn):
                self.tree.body.remove(fn)
        for (cn, name), fn in list(self.methods.items()):
            if not referenced(name, fn):
                for node in self.tree.body:
                    if isinstance(node, ast.ClassDef) and fn in node.body:
                        node.body.remove(fn)
                        if not node.body:
                            node.body.append(ast.copy_location(ast.Pass(), node))
        for (cn, name), (fn, _pre, _y, _post) in list(self.ctx_helpers.items()):
            if not referenced(name, fn):
                for node in self.tree.body:
                    if node is fn:
                        self.tree.body.remove(fn)
                        break
                    if isinstance(node, ast.ClassDef) and fn in node.body:
                        node.body.remove(fn)
                        break
        for kname, (node, init, fields) in self.records.items():
            if node in self.tree.body and not any(isinstance(x, ast.Name) and x.id == kname for x in ast.walk(self.tree)) \
                    and not any(isinstance(x, ast.Constant) and x.value == kname for x in ast.walk(self.tree)):
                self.tree.body.remove(node)
        ast.fix_missing_locations(self.tree)
        return self.tree


STATS = {"expanded": 0, "helpers": []}


def inline_new_helpers(tree, module_short):
    inl = Inliner(tree, module_short)
    out = inl.run()
    if inl.expanded:
        STATS["expanded"] += inl.expanded
        STATS["helpers"] += sorted(["%s:%s" % (module_short, n) for n in inl.funcs] + ["%s:%s.%s" % (module_short, c, n) for c, n in inl.methods])
    return out
