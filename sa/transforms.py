"""Mechanical, behaviour-preserving whole-package rewrites used by the self-test as must-stay-silent
variants.  They exist to keep the rules independent of incidental source shape: names of locals,
the polarity in which an if/else is written, the presence of temporaries.

alpha      -- every function-local variable (not a parameter, not shared with a nested scope, not
              global/nonlocal) is renamed;
ifelse     -- every `if c: A else: B` with non-empty, non-elif else is rewritten `if not c: B else: A`
              (a leading `not` is removed instead of doubled);
retvar     -- every `return <call or operator expression>` becomes `result_ = <expr>; return result_`.
"""

import ast
import os
import symtable


def _function_tables(table, out):
    for ch in table.get_children():
        if ch.get_type() == "function":
            out.setdefault((ch.get_name(), ch.get_lineno()), ch)
        _function_tables(ch, out)
    return out


class _Alpha(ast.NodeTransformer):
    def __init__(self, tables, suffix):
        self.tables, self.suffix = tables, suffix
        self.stack = []

    def _visit_func(self, node):
        tab = self.tables.get((node.name, node.lineno))
        ren = set()
        if tab is not None:
            child_free = set()

            def collect(t):
                for c in t.get_children():
                    for s in c.get_symbols():
                        if s.is_free():
                            child_free.add(s.get_name())
                    collect(c)
            collect(tab)
            for s in tab.get_symbols():
                nm = s.get_name()
                if s.is_local() and not s.is_parameter() and not s.is_global() and not s.is_free() and not s.is_imported() \
                        and not s.is_namespace() and nm not in child_free and not nm.startswith("__") and nm != "_":
                    ren.add(nm)
            # names bound by nested class/def statements or used by `nonlocal` stay
            for n in ast.walk(node):
                if isinstance(n, (ast.Nonlocal, ast.Global)):
                    ren -= set(n.names)
            # a name that is also a comprehension target shares the function scope only in py<3.12 -- keep it simple
        self.stack.append(ren)
        node.body = [self.visit(s) for s in node.body]
        self.stack.pop()
        return node

    def visit_FunctionDef(self, node):
        # decorators / defaults belong to the enclosing scope
        node.decorator_list = [self.visit(d) for d in node.decorator_list]
        node.args = self.visit(node.args)
        return self._visit_func(node)

    visit_AsyncFunctionDef = visit_FunctionDef

    def visit_Lambda(self, node):
        self.stack.append(set())
        node.body = self.visit(node.body)
        self.stack.pop()
        return node

    def visit_ClassDef(self, node):
        self.stack.append(set())
        self.generic_visit(node)
        self.stack.pop()
        return node

    def _comp(self, node):
        # comprehension targets are their own scope: rename nothing that they bind
        bound = {x.id for g in node.generators for x in ast.walk(g.target) if isinstance(x, ast.Name)}
        cur = self.stack[-1] if self.stack else set()
        self.stack.append(cur - bound)
        self.generic_visit(node)
        self.stack.pop()
        return node

    visit_ListComp = visit_SetComp = visit_DictComp = visit_GeneratorExp = _comp

    def visit_Name(self, node):
        if self.stack and node.id in self.stack[-1]:
            node.id = node.id + self.suffix
        return node

    def visit_ExceptHandler(self, node):
        if node.name and self.stack and node.name in self.stack[-1]:
            node.name = node.name + self.suffix
        self.generic_visit(node)
        return node


def alpha(src, filename="<src>"):
    tree = ast.parse(src)
    tables = _function_tables(symtable.symtable(src, filename, "exec"), {})
    tree = _Alpha(tables, "_v").visit(tree)
    ast.fix_missing_locations(tree)
    return ast.unparse(tree) + "\n"


class _IfElse(ast.NodeTransformer):
    def visit_If(self, node):
        self.generic_visit(node)
        if node.orelse and not (len(node.orelse) == 1 and isinstance(node.orelse[0], ast.If)):
            t = node.test
            if isinstance(t, ast.UnaryOp) and isinstance(t.op, ast.Not):
                nt = t.operand
            else:
                nt = ast.UnaryOp(op=ast.Not(), operand=t)
            return ast.If(test=nt, body=node.orelse, orelse=node.body)
        return node


def ifelse(src, filename="<src>"):
    tree = _IfElse().visit(ast.parse(src))
    ast.fix_missing_locations(tree)
    return ast.unparse(tree) + "\n"


class _RetVar(ast.NodeTransformer):
    def _block(self, stmts):
        out = []
        for s in stmts:
            s = self.visit(s)
            if isinstance(s, ast.Return) and isinstance(s.value, (ast.Call, ast.BinOp, ast.Compare, ast.BoolOp, ast.Subscript)) \
                    and not any(isinstance(x, (ast.Yield, ast.YieldFrom, ast.Await)) for x in ast.walk(s.value)):
                out.append(ast.Assign(targets=[ast.Name(id="result_", ctx=ast.Store())], value=s.value, lineno=s.lineno))
                out.append(ast.Return(value=ast.Name(id="result_", ctx=ast.Load())))
            else:
                out.append(s)
        return out

    def generic_visit(self, node):
        for field in ("body", "orelse", "finalbody"):
            v = getattr(node, field, None)
            if isinstance(v, list) and v and isinstance(v[0], ast.stmt):
                setattr(node, field, self._block(v))
        if isinstance(node, ast.Try):
            for h in node.handlers:
                h.body = self._block(h.body)
        if isinstance(node, (ast.With, ast.AsyncWith)):
            pass
        return node

    def visit_Lambda(self, node):
        return node


def retvar(src, filename="<src>"):
    tree = ast.parse(src)
    tr = _RetVar()
    tree.body = tr._block(tree.body)
    ast.fix_missing_locations(tree)
    return ast.unparse(tree) + "\n"


TRANSFORMS = {"alpha": alpha, "ifelse": ifelse, "retvar": retvar}


def apply_to_package(root, name):
    fn = TRANSFORMS[name]
    pkg = os.path.join(root, "eliot")
    for f in sorted(os.listdir(pkg)):
        if f.endswith(".py"):
            p = os.path.join(pkg, f)
            src = open(p, encoding="utf-8").read()
            try:
                new = fn(src, f)
                compile(new, f, "exec")
            except Exception:
                continue  # leave a file the transform cannot handle as it is
            open(p, "w", encoding="utf-8").write(new)
