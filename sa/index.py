"""E1 -- program index: modules, classes, functions (incl. nested), imports,
aliases, and a constant folder.  Everything is computed from the source text of
the tree given as ``root`` on every run; nothing is imported or executed."""

import ast
import builtins
import os
from .normalize import normalize


class AnalysisError(Exception):
    """An anchor vanished or has a shape the analyser does not model."""


class Unfoldable(Exception):
    pass


BUILTIN_NAMES = set(dir(builtins))


def unparse(node):
    try:
        return ast.unparse(node)
    except Exception:  # pragma: no cover
        return "<%s>" % type(node).__name__


class FuncInfo:
    def __init__(self, module, qualname, node, cls=None, parent=None):
        self.module = module
        self.qualname = qualname  # e.g. "Action.finish", "log_call.logging_wrapper"
        self.node = node
        self.cls = cls  # ClassInfo when this is a method (directly in a class body)
        self.parent = parent  # enclosing FuncInfo for nested functions
        self.nested = {}  # name -> FuncInfo
        self.is_lambda = isinstance(node, ast.Lambda)
        self._locals = None

    @property
    def name(self):
        return self.qualname.rsplit(".", 1)[-1]

    @property
    def fq(self):
        return "%s:%s" % (self.module.short, self.qualname)

    @property
    def lineno(self):
        return self.node.lineno

    @property
    def decorators(self):
        return getattr(self.node, "decorator_list", [])

    def decorator_names(self):
        out = []
        for d in self.decorators:
            if isinstance(d, ast.Call):
                d = d.func
            out.append(unparse(d))
        return out

    @property
    def pos_params(self):
        """Names of the positional parameters (positional-only ones included), in order."""
        a = self.node.args
        return [x.arg for x in a.posonlyargs + a.args]

    @property
    def params(self):
        a = self.node.args
        names = [x.arg for x in a.posonlyargs + a.args]
        if a.vararg:
            names.append(a.vararg.arg)
        names += [x.arg for x in a.kwonlyargs]
        if a.kwarg:
            names.append(a.kwarg.arg)
        return names

    @property
    def body(self):
        if self.is_lambda:
            return [ast.Return(value=self.node.body, lineno=self.node.lineno, col_offset=0)]
        return self.node.body

    def local_names(self):
        """Names bound in this function's own scope (params + assigned)."""
        if self._locals is None:
            names = set(self.params)
            declared_outer = set()
            for n in iter_own_nodes(self.node):
                if isinstance(n, (ast.Global, ast.Nonlocal)):
                    declared_outer.update(n.names)
                elif isinstance(n, ast.Name) and isinstance(n.ctx, (ast.Store, ast.Del)):
                    names.add(n.id)
                elif isinstance(n, (ast.FunctionDef, ast.AsyncFunctionDef, ast.ClassDef)):
                    if n is not self.node:
                        names.add(n.name)
                elif isinstance(n, (ast.Import, ast.ImportFrom)):
                    for al in n.names:
                        names.add((al.asname or al.name).split(".")[0])
                elif isinstance(n, ast.ExceptHandler) and n.name:
                    names.add(n.name)
            self._locals = names - declared_outer
            self._outer_declared = declared_outer
        return self._locals

    def __repr__(self):
        return "<Func %s>" % self.fq


class ClassInfo:
    def __init__(self, module, name, node):
        self.module = module
        self.name = name
        self.node = node
        self.methods = {}  # name -> FuncInfo (incl. aliases)
        self.attrs = {}  # class-level name -> value ast (last assignment)
        self.base_exprs = [unparse(b) for b in node.bases]
        self.bases = []  # resolved ClassInfo objects inside the repo

    @property
    def fq(self):
        return "%s:%s" % (self.module.short, self.name)

    def mro(self):
        out, todo = [], [self]
        while todo:
            c = todo.pop(0)
            if c in out:
                continue
            out.append(c)
            todo.extend(c.bases)
        return out

    def find_method(self, name):
        for c in self.mro():
            if name in c.methods:
                return c.methods[name]
        return None

    def find_attr(self, name):
        for c in self.mro():
            if name in c.attrs:
                return c, c.attrs[name]
        return None, None

    def __repr__(self):
        return "<Class %s>" % self.fq


def iter_own_nodes(fnode):
    """Walk a function's AST without descending into nested defs/lambdas/classes
    (the nested def node itself is yielded, its body is not)."""
    if isinstance(fnode, ast.Lambda):
        todo = [fnode.body]
    else:
        todo = list(fnode.body)
    while todo:
        n = todo.pop()
        yield n
        if isinstance(n, (ast.FunctionDef, ast.AsyncFunctionDef, ast.Lambda, ast.ClassDef)):
            # decorators/defaults are evaluated in the enclosing scope
            if not isinstance(n, ast.ClassDef):
                for d in getattr(n, "decorator_list", []):
                    todo.append(d)
                todo.extend(x for x in n.args.defaults if x is not None)
                todo.extend(x for x in n.args.kw_defaults if x is not None)
            continue
        todo.extend(ast.iter_child_nodes(n))


class Module:
    def __init__(self, program, name, path, source):
        self.program = program
        self.name = name  # "eliot._action"
        self.short = name.split(".", 1)[1] if "." in name else name  # "_action"
        self.path = path
        self.relpath = os.path.relpath(path, program.root)
        self.source = source
        from .inline import inline_new_helpers
        self.tree = normalize(inline_new_helpers(ast.parse(source, filename=path), self.short))
        self.funcs = {}  # qualname -> FuncInfo
        self.classes = {}  # name -> ClassInfo
        self.imports = {}  # local name -> ("mod", modname) | ("from", modname, attr)
        self.assigns = {}  # module-level name -> [value ast, ...]
        self.func_imports = {}  # FuncInfo.qualname -> {name: import target}
        self.lambdas = []
        self._index()

    # ------------------------------------------------------------------
    def _abs_module(self, level, mod):
        if level == 0:
            return mod
        pkg = self.name.split(".")
        if not self.path.endswith("__init__.py"):
            pkg = pkg[:-1]
        if level > 1:
            pkg = pkg[: -(level - 1)]
        return ".".join(pkg + ([mod] if mod else []))

    def _import_targets(self, node):
        out = {}
        if isinstance(node, ast.Import):
            for al in node.names:
                if al.asname:
                    out[al.asname] = ("mod", al.name)
                else:
                    out[al.name.split(".")[0]] = ("mod", al.name.split(".")[0])
        else:
            base = self._abs_module(node.level, node.module)
            for al in node.names:
                out[al.asname or al.name] = ("from", base, al.name)
        return out

    def _index(self):
        self._index_body(self.tree.body, None, None, "")

    def _index_body(self, body, cls, parent, prefix):
        for st in body:
            self._index_stmt(st, cls, parent, prefix, toplevel=(cls is None and parent is None))

    def _add_func(self, node, cls, parent, prefix):
        qual = prefix + node.name
        first = qual not in self.funcs
        if not first:
            # conditional redefinition (e.g. the PyPy arm of json.py): the first
            # definition keeps the plain name
            k = 2
            while "%s#%d" % (qual, k) in self.funcs:
                k += 1
            qual = "%s#%d" % (qual, k)
        fi = FuncInfo(self, qual, node, cls=cls, parent=parent)
        self.funcs[qual] = fi
        if cls is not None and parent is None and first:
            cls.methods[node.name] = fi
        if parent is not None and first:
            parent.nested[node.name] = fi
        # nested defs and lambdas
        for n in iter_own_nodes(node):
            if isinstance(n, (ast.FunctionDef, ast.AsyncFunctionDef)):
                self._add_func(n, None, fi, qual + ".")
            elif isinstance(n, ast.ClassDef):
                self._add_class(n, fi, qual + ".")
            elif isinstance(n, ast.Lambda):
                lq = "%s.<lambda@%d>" % (qual, n.lineno)
                li = FuncInfo(self, lq, n, cls=None, parent=fi)
                self.funcs[lq] = li
                fi.nested["<lambda@%d:%d>" % (n.lineno, n.col_offset)] = li
            elif isinstance(n, (ast.Import, ast.ImportFrom)):
                self.func_imports.setdefault(qual, {}).update(self._import_targets(n))
        return fi

    def _add_class(self, node, parent, prefix):
        ci = ClassInfo(self, prefix + node.name, node)
        self.classes[prefix + node.name] = ci
        for st in node.body:
            if isinstance(st, (ast.FunctionDef, ast.AsyncFunctionDef)):
                self._add_func(st, ci, None, ci.name + ".")
            elif isinstance(st, ast.Assign):
                for t in st.targets:
                    if isinstance(t, ast.Name):
                        ci.attrs[t.id] = st.value
            elif isinstance(st, ast.AnnAssign) and isinstance(st.target, ast.Name) and st.value:
                ci.attrs[st.target.id] = st.value
        # method aliases:  flush_tracebacks = flushTracebacks
        for name, val in list(ci.attrs.items()):
            if isinstance(val, ast.Name) and val.id in ci.methods:
                ci.methods[name] = ci.methods[val.id]
            elif isinstance(val, ast.Lambda):
                lq = "%s.%s" % (ci.name, name)
                li = FuncInfo(self, lq, val, cls=ci)
                self.funcs[lq] = li
                ci.methods[name] = li
        return ci

    def _index_stmt(self, st, cls, parent, prefix, toplevel):
        if isinstance(st, (ast.FunctionDef, ast.AsyncFunctionDef)):
            self._add_func(st, cls, parent, prefix)
        elif isinstance(st, ast.ClassDef):
            self._add_class(st, parent, prefix)
        elif isinstance(st, (ast.Import, ast.ImportFrom)):
            self.imports.update(self._import_targets(st))
        elif isinstance(st, ast.Assign):
            for t in st.targets:
                if isinstance(t, ast.Name):
                    self.assigns.setdefault(t.id, []).append(st.value)
                elif isinstance(t, ast.Tuple):
                    for e in t.elts:
                        if isinstance(e, ast.Name):
                            self.assigns.setdefault(e.id, []).append(None)
            self._index_lambdas(st.value, prefix)
        elif isinstance(st, ast.AugAssign) and isinstance(st.target, ast.Name):
            self.assigns.setdefault(st.target.id, []).append(("aug", st.op, st.value))
        elif isinstance(st, ast.AnnAssign) and isinstance(st.target, ast.Name) and st.value:
            self.assigns.setdefault(st.target.id, []).append(st.value)
        elif isinstance(st, (ast.If, ast.Try, ast.With, ast.For, ast.While)):
            # module-level conditional definitions (json.py's import fallback, PyPy arm)
            for field in ("body", "orelse", "finalbody"):
                for s in getattr(st, field, []) or []:
                    self._index_stmt(s, cls, parent, prefix, toplevel)
            for h in getattr(st, "handlers", []) or []:
                for s in h.body:
                    self._index_stmt(s, cls, parent, prefix, toplevel)
        elif isinstance(st, ast.Expr):
            self._index_lambdas(st.value, prefix)

    def _index_lambdas(self, expr, prefix):
        for n in ast.walk(expr):
            if isinstance(n, ast.Lambda):
                lq = "%s<lambda@%d>" % (prefix, n.lineno)
                if lq not in self.funcs:
                    self.funcs[lq] = FuncInfo(self, lq, n)
                    self.lambdas.append(self.funcs[lq])


class Program:
    """All modules under <root>/eliot."""

    def __init__(self, root, package="eliot"):
        self.root = os.path.abspath(root)
        self.package = package
        self.modules = {}  # full name -> Module
        self.test_modules = {}
        pkgdir = os.path.join(self.root, package)
        if not os.path.isdir(pkgdir):
            raise AnalysisError("package directory %s not found" % pkgdir)
        for fn in sorted(os.listdir(pkgdir)):
            if not fn.endswith(".py"):
                continue
            path = os.path.join(pkgdir, fn)
            modname = package if fn == "__init__.py" else "%s.%s" % (package, fn[:-3])
            with open(path, encoding="utf-8") as f:
                src = f.read()
            try:
                self.modules[modname] = Module(self, modname, path, src)
            except SyntaxError as e:
                raise AnalysisError("cannot parse %s: %s" % (path, e))
        tdir = os.path.join(pkgdir, "tests")
        self.test_sources = {}
        if os.path.isdir(tdir):
            for fn in sorted(os.listdir(tdir)):
                if fn.endswith(".py"):
                    with open(os.path.join(tdir, fn), encoding="utf-8") as f:
                        self.test_sources[fn] = f.read()
        self._resolve_bases()
        from .normalize import propagate_constants
        propagate_constants(self)

    # production modules = everything except versioning boilerplate
    EXCLUDED = {"eliot._version"}

    def prod_modules(self):
        return [m for n, m in sorted(self.modules.items()) if n not in self.EXCLUDED]

    def mod(self, short):
        name = self.package if short in ("", "__init__") else "%s.%s" % (self.package, short)
        if name not in self.modules:
            raise AnalysisError("module %s vanished" % name)
        return self.modules[name]

    def func(self, short_mod, qualname):
        m = self.mod(short_mod)
        if qualname not in m.funcs:
            raise AnalysisError("anchor %s:%s not found" % (short_mod, qualname))
        return m.funcs[qualname]

    def cls(self, short_mod, name):
        m = self.mod(short_mod)
        if name not in m.classes:
            raise AnalysisError("anchor class %s:%s not found" % (short_mod, name))
        return m.classes[name]

    def all_funcs(self, prod_only=True):
        mods = self.prod_modules() if prod_only else self.modules.values()
        for m in mods:
            for f in m.funcs.values():
                yield f

    def _resolve_bases(self):
        for m in self.modules.values():
            for c in m.classes.values():
                for b in c.node.bases:
                    r = self.resolve_expr_static(m, None, b)
                    if r and r[0] == "class":
                        c.bases.append(r[1])

    # ------------------------------------------------------------------
    # name resolution
    def resolve_import(self, target, depth=0):
        """('mod', name) | ('from', modname, attr) -> resolved entity tuple."""
        if depth > 8:
            return ("unknown", str(target))
        if target[0] == "mod":
            if target[1] in self.modules:
                return ("module", self.modules[target[1]])
            return ("ext", target[1])
        _, modname, attr = target
        sub = "%s.%s" % (modname, attr)
        if modname in self.modules:
            m = self.modules[modname]
            r = self.resolve_global(m, attr, depth + 1)
            if r[0] != "unknown":
                return r
            if sub in self.modules:
                return ("module", self.modules[sub])
            return ("unknown", sub)
        if sub in self.modules:
            return ("module", self.modules[sub])
        return ("ext", sub)

    def resolve_global(self, module, name, depth=0):
        """Resolve a module-level name of `module`."""
        if depth > 8:
            return ("unknown", name)
        if name in module.funcs and "." not in name:
            return ("func", module.funcs[name])
        if name in module.classes:
            return ("class", module.classes[name])
        if name in module.assigns:
            vals = module.assigns[name]
            last = vals[-1]
            if len(vals) == 1 and isinstance(last, ast.AST):
                # alias to another global / attribute?
                if isinstance(last, (ast.Name, ast.Attribute)):
                    r = self.resolve_expr_static(module, None, last, depth + 1)
                    if r and r[0] in ("func", "class", "module", "ext", "boundmethod"):
                        return r
            return ("modvar", module, name)
        if name in module.imports:
            return self.resolve_import(module.imports[name], depth + 1)
        if name in BUILTIN_NAMES:
            return ("builtin", name)
        return ("unknown", name)

    def resolve_name(self, module, func, name, depth=0):
        """Resolve a Name as seen from inside `func` (or module level if None)."""
        f = func
        while f is not None:
            imps = module.func_imports.get(f.qualname, {})
            if name in imps:
                return self.resolve_import(imps[name])
            if name in f.nested:
                return ("func", f.nested[name])
            if f.qualname + "." + name in module.classes:
                return ("class", module.classes[f.qualname + "." + name])
            if name in f.local_names():
                return ("local", f, name)
            f = f.parent
        return self.resolve_global(module, name, depth)

    def resolve_expr_static(self, module, func, expr, depth=0):
        """Resolve Name / dotted Attribute chains to program entities where this is
        possible without type information. Returns None when not resolvable."""
        if depth > 8:
            return None
        if isinstance(expr, ast.Name):
            r = self.resolve_name(module, func, expr.id, depth + 1)
            return r
        if isinstance(expr, ast.Attribute):
            base = self.resolve_expr_static(module, func, expr.value, depth + 1)
            if not base:
                return None
            if base[0] == "module":
                return self.resolve_global(base[1], expr.attr, depth + 1)
            if base[0] == "class":
                ci = base[1]
                m = ci.find_method(expr.attr)
                if m:
                    return ("func", m)
                c, v = ci.find_attr(expr.attr)
                if v is not None:
                    return ("classattr", c, expr.attr)
                return ("unknown", "%s.%s" % (ci.fq, expr.attr))
            if base[0] == "ext":
                return ("ext", "%s.%s" % (base[1], expr.attr))
            if base[0] in ("modvar", "classattr"):
                # attribute of a module-level / class-level instance: needs its type
                t = self.instance_type_of_var(base)
                if t is not None:
                    m = t.find_method(expr.attr)
                    if m:
                        return ("boundmethod", t, m)
                return ("unknown", unparse(expr))
            return None
        return None

    def instance_type_of_var(self, ref):
        """Type (ClassInfo) of a module variable / class attribute bound to `Cls(...)`."""
        if ref[0] == "modvar":
            module, name = ref[1], ref[2]
            vals = [v for v in module.assigns.get(name, []) if isinstance(v, ast.AST)]
            if len(vals) != 1:
                return None
            val = vals[0]
        elif ref[0] == "classattr":
            module, val = ref[1].module, ref[1].attrs[ref[2]]
        else:
            return None
        if isinstance(val, ast.Call):
            r = self.resolve_expr_static(module, None, val.func)
            if r and r[0] == "class":
                return r[1]
        return None

    # ------------------------------------------------------------------
    # constant folding
    def fold(self, module, expr, func=None, depth=0):
        if depth > 12:
            raise Unfoldable("depth")
        if isinstance(expr, ast.Constant):
            return expr.value
        if isinstance(expr, (ast.Tuple, ast.List, ast.Set)):
            vals = [self.fold(module, e, func, depth + 1) for e in expr.elts]
            if isinstance(expr, ast.Tuple):
                return tuple(vals)
            if isinstance(expr, ast.List):
                return list(vals)
            return set(vals)
        if isinstance(expr, ast.Dict):
            return {
                self.fold(module, k, func, depth + 1): self.fold(module, v, func, depth + 1)
                for k, v in zip(expr.keys, expr.values)
            }
        if isinstance(expr, ast.BinOp):
            l = self.fold(module, expr.left, func, depth + 1)
            r = self.fold(module, expr.right, func, depth + 1)
            try:
                if isinstance(expr.op, ast.Add):
                    return l + r
                if isinstance(expr.op, ast.BitOr):
                    return l | r
                if isinstance(expr.op, ast.Sub):
                    return l - r
                if isinstance(expr.op, ast.BitAnd):
                    return l & r
                if isinstance(expr.op, ast.Mod):
                    return l % r
            except Exception as e:
                raise Unfoldable(str(e))
            raise Unfoldable("binop")
        if isinstance(expr, ast.Call) and isinstance(expr.func, ast.Name) and not expr.keywords:
            if expr.func.id in ("set", "frozenset", "tuple", "list") and len(expr.args) <= 1:
                if not expr.args:
                    return {"set": set, "frozenset": frozenset, "tuple": tuple, "list": list}[expr.func.id]()
                inner = self.fold(module, expr.args[0], func, depth + 1)
                try:
                    return {"set": set, "frozenset": frozenset, "tuple": tuple, "list": list}[expr.func.id](inner)
                except Exception as e:
                    raise Unfoldable(str(e))
            raise Unfoldable("call")
        if isinstance(expr, ast.Attribute) and isinstance(expr.value, ast.Name) and expr.value.id in ("self", "cls") and func is not None:
            g = func
            while g is not None and g.cls is None:
                g = g.parent
            if g is not None:
                c, v = g.cls.find_attr(expr.attr)
                if v is not None:
                    return self.fold(c.module, v, None, depth + 1)
        if isinstance(expr, (ast.Name, ast.Attribute)):
            r = self.resolve_expr_static(module, func, expr)
            if r and r[0] == "modvar":
                return self.fold_global(r[1], r[2], depth + 1)
            if r and r[0] == "classattr":
                return self.fold(r[1].module, r[1].attrs[r[2]], None, depth + 1)
            raise Unfoldable("name %s -> %s" % (unparse(expr), r and r[0]))
        raise Unfoldable(type(expr).__name__)

    def fold_global(self, module, name, depth=0):
        vals = module.assigns.get(name)
        if not vals:
            raise Unfoldable("no assignment of %s" % name)
        cur = None
        first = True
        for v in vals:
            if v is None:
                raise Unfoldable("tuple assign")
            if isinstance(v, tuple) and v[0] == "aug":
                if first:
                    raise Unfoldable("aug first")
                rhs = self.fold(module, v[2], None, depth + 1)
                if isinstance(v[1], ast.BitOr):
                    cur = cur | rhs
                elif isinstance(v[1], ast.Add):
                    cur = cur + rhs
                else:
                    raise Unfoldable("augop")
            else:
                cur = self.fold(module, v, None, depth + 1)
            first = False
        return cur

    def try_fold(self, module, expr, func=None):
        try:
            return True, self.fold(module, expr, func)
        except Unfoldable:
            return False, None


def walk_calls(node):
    for n in ast.walk(node):
        if isinstance(n, ast.Call):
            yield n
