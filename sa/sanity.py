"""setup_cmd: nothing to build; check the interpreter and that /repo parses."""
import sys


def main():
    from .index import Program
    if sys.version_info < (3, 9):
        print("python >= 3.9 needed")
        return 1
    p = Program("/repo")
    print("self-sanity ok: python %s, %d modules parsed, %d functions" % (sys.version.split()[0], len(p.modules), len(list(p.all_funcs()))))
    return 0
