"""E4 -- light type inference and call resolution; classification of every call
site as repo / builtin-total / stdlib-trusted / foreign / unknown."""

import ast
from .index import iter_own_nodes, unparse, AnalysisError, FuncInfo, ClassInfo

# ---------------------------------------------------------------------------
# Closed tables (each line: why the callee cannot raise *because of what is being
# logged*; see DESIGN 1.4 / E4).  Anything not listed is not trusted.

BUILTIN_TOTAL = {
    # constructors / predicates on library-owned data
    "len", "isinstance", "issubclass", "id", "type", "callable", "hasattr", "getattr",
    "setattr", "zip", "enumerate", "range", "iter", "map", "filter", "all", "any",
    "list", "dict", "tuple", "set", "frozenset", "object", "super", "staticmethod",
    "classmethod", "property", "bool", "int", "float", "bytes", "globals", "locals",
    "compile", "min", "max", "sum", "print", "vars", "next", "reversed",
    # exception constructors
    "Exception", "BaseException", "TypeError", "ValueError", "RuntimeError", "KeyError",
    "IOError", "OSError", "ImportError", "AttributeError", "NotImplementedError",
    "StopIteration", "AssertionError", "DeprecationWarning",
}
# builtins that run user dunder code on their argument (user __str__/__repr__/ordering)
BUILTIN_FOREIGN = {"str": "str()", "repr": "repr()", "format": "format()", "sorted": "sorted()",
                   "hash": "hash()", "eval": "eval()", "exec": "exec()", "open": "open()"}

# container / string methods assumed total on dict/list/str/bytes/set receivers
CONTAINER_METHODS = {
    "copy", "update", "get", "pop", "items", "keys", "values", "append", "extend", "remove",
    "insert", "setdefault", "clear", "add", "discard", "index", "count",
    "format", "join", "split", "rsplit", "encode", "decode", "startswith", "endswith",
    "rstrip", "lstrip", "strip", "replace", "lower", "upper", "isoformat", "splitlines",
    "difference", "union", "intersection", "symmetric_difference", "issubset", "issuperset", "isdisjoint", "difference_update", "intersection_update",
}

STDLIB_TRUSTED = {
    # name -> reason
    "time.time": "clock read",
    "uuid.uuid4": "random uuid",
    "random.Random": "constructor (seeded from the OS)", "random.SystemRandom": "constructor",
    "random.getrandbits": "random bits from the process-wide generator",
    "uuid.UUID": "constructor from library-computed parts",
    "itertools.count": "constructor",
    "itertools.chain": "constructor",
    "collections.deque": "constructor",
    "contextvars.ContextVar": "constructor",
    "contextvars.copy_context": "copies the caller's context",
    "threading.Lock": "constructor",
    "threading.RLock": "constructor",
    "threading.Thread": "constructor",
    "queue.SimpleQueue": "constructor",
    "queue.Queue": "constructor",
    "functools.wraps": "metadata copy",
    "functools.partial": "constructor",
    "boltons.funcutils.wraps": "metadata copy",
    "inspect.getmro": "reads __mro__",
    "inspect.stack": "frame list",
    "inspect.signature": "decoration-time only",
    "inspect.getfullargspec": "decoration-time only (introspection of the function being decorated)",
    "inspect.isfunction": "isinstance test",
    "inspect.ismethod": "isinstance test",
    "inspect.isclass": "isinstance test",
    "inspect.unwrap": "decoration-time only",
    "sys.exc_info": "reads thread state",
    "traceback.format_stack": "formats frames",
    "traceback.format_exception": "formats a traceback",
    "warnings.warn": "emits a warning (raises only under -W error; assumption)",
    "weakref.WeakKeyDictionary": "constructor",
    "pyrsistent.pvector": "constructor",
    "pyrsistent.field": "constructor",
    "pyrsistent.pmap_field": "constructor",
    "pyrsistent.pset_field": "constructor",
    "pyrsistent.optional": "constructor",
    "pyrsistent.PClass.__new__": "constructs an immutable record",
    "collections.OrderedDict": "constructor",
    "collections.ChainMap": "constructor: layers the given mappings, copies nothing, calls nothing",
    "collections.namedtuple.instance": "constructor of a namedtuple record type defined in the module: stores its arguments",
    "importlib.util.find_spec": "import machinery (module load time only)",
    "types.ModuleType": "constructor",
    "os.path.basename": "string op",
    "re.compile": "compiles a literal pattern at import time",
    "re.findall": "regex scan of a str", "re.match": "regex scan of a str", "re.search": "regex scan of a str",
    "re.fullmatch": "regex scan of a str", "re.split": "regex scan of a str", "re.sub": "regex scan of a str",
}
# methods of objects of external types that are trusted
EXT_METHOD_TRUSTED = {
    ("contextvars.ContextVar", "get"), ("contextvars.ContextVar", "set"),
    ("contextvars.ContextVar", "reset"),
    ("threading.Lock", "acquire"), ("threading.Lock", "release"),
    ("threading.Lock", "__enter__"), ("threading.Lock", "__exit__"),
    ("threading.RLock", "acquire"), ("threading.RLock", "release"),
    ("threading.RLock", "__enter__"), ("threading.RLock", "__exit__"),
    ("queue.SimpleQueue", "put"), ("queue.SimpleQueue", "get"),
    ("queue.Queue", "put"), ("queue.Queue", "get"),
    ("threading.Thread", "start"), ("threading.Thread", "join"),
    ("contextvars.copy_context", "run"),
    ("weakref.WeakKeyDictionary", "__setitem__"),
    ("weakref.WeakKeyDictionary", "get"), ("weakref.WeakKeyDictionary", "pop"),
    ("random.Random", "getrandbits"), ("random.Random", "seed"), ("random.SystemRandom", "getrandbits"),
    ("re.compile", "findall"), ("re.compile", "finditer"), ("re.compile", "match"), ("re.compile", "search"),
    ("re.compile", "fullmatch"), ("re.compile", "split"), ("re.compile", "sub"),
}
# external callables that run user code or can fail because of the data given
EXT_FOREIGN = {
    "orjson.dumps": "JSON encoding of user values",
    "json.dumps": "JSON encoding of user values",
    "json.loads": "JSON decoding of input",
    "inspect.getcallargs": "binds user arguments (raises TypeError like the call itself)",
    "pprint.pformat": "repr of user values",
}

# external constructors whose result type is tracked (so that methods on the result
# resolve to EXT_METHOD_TRUSTED entries); results of other external calls are untyped
EXT_OBJECT_TYPES = {
    "random.Random", "random.SystemRandom", "weakref.WeakKeyDictionary",
    "contextvars.ContextVar", "contextvars.copy_context", "threading.Lock", "threading.RLock",
    "threading.Thread", "queue.SimpleQueue", "queue.Queue", "queue.LifoQueue",
    "queue.PriorityQueue", "weakref.WeakKeyDictionary", "threading.local", "re.compile",
}

# method names that belong to protocols of foreign objects (files, queues, generators,
# threads, deferreds, user serializers/validators): never resolved by name alone
GENERIC_METHOD_NAMES = {
    "write", "flush", "read", "close", "send", "throw", "get", "put", "run", "join", "start", "stop",
    "add", "remove", "update", "validate", "serialize", "acquire", "release", "set", "reset",
    "addCallback", "addCallbacks", "addErrback", "addBoth", "result", "cancel", "getBriefTraceback",
    "default", "encode", "decode", "writable", "wait", "notify", "emit", "getMessage", "tolist",
    "to_list", "to_dict", "to_dicts", "model_dump", "isoformat", "new", "bind", "log",
}

# Receiver-type conventions that no assignment in the repo can justify because the
# object comes from the caller.  name -> list of "<short module>:<Class>".
# Re-validated on every run: each class must exist and define the method used.
NAME_TYPE_CONVENTIONS = {
    "logger": ["_output:Logger", "_output:MemoryLogger"],  # ILogger implementers of the repo
    "action": ["_action:Action"],  # Message.write(action=...), documented parameter
    # _MessageSerializer.__init__ rejects anything that is not a Field (isinstance guard,
    # re-validated by C13), so the values of .fields are Fields:
    "field": ["_validation:Field"],
    "serializer": ["_validation:_MessageSerializer"],  # ILogger.write's documented 2nd parameter
}


class Target:
    __slots__ = ("kind", "ref", "detail")

    def __init__(self, kind, ref=None, detail=""):
        self.kind = kind  # repo | class | ext | builtin | foreign | unknown | container
        self.ref = ref
        self.detail = detail

    def __repr__(self):
        r = self.ref.fq if hasattr(self.ref, "fq") else self.ref
        return "<%s %s %s>" % (self.kind, r, self.detail)


class CallSite:
    __slots__ = ("func", "call", "lineno", "targets", "ctx", "text", "implicit")

    def __init__(self, func, call, lineno, targets, ctx, text, implicit=None):
        self.func = func
        self.call = call
        self.lineno = lineno
        self.targets = targets
        self.ctx = ctx  # lexical try-context: list of (Try, part)
        self.text = text
        self.implicit = implicit

    @property
    def where(self):
        return "%s:%d" % (self.func.module.relpath, self.lineno)

    def repo_targets(self):
        out = []
        for t in self.targets:
            if t.kind == "repo":
                out.append(t.ref)
            elif t.kind == "class":
                for m in ("__new__", "__init__"):
                    f = t.ref.find_method(m)
                    if f:
                        out.append(f)
        return out

    def __repr__(self):
        return "<CallSite %s %s>" % (self.where, self.text[:40])


def lexical_contexts(func):
    """Map id(ast node) -> list of (Try, part) enclosing it lexically inside func
    (outermost first).  part in body/handler/orelse/finally; for 'handler' the
    ExceptHandler is appended as third element."""
    out = {}

    def visit(node, ctx):
        out[id(node)] = ctx
        if isinstance(node, (ast.FunctionDef, ast.AsyncFunctionDef, ast.Lambda, ast.ClassDef)) and node is not func.node:
            # decorators / defaults belong to the enclosing scope
            if not isinstance(node, ast.ClassDef):
                for d in getattr(node, "decorator_list", []):
                    visit(d, ctx)
                for d in node.args.defaults + [k for k in node.args.kw_defaults if k is not None]:
                    visit(d, ctx)
            return
        if isinstance(node, ast.Try):
            for s in node.body:
                visit(s, ctx + [(node, "body")])
            for h in node.handlers:
                out[id(h)] = ctx
                if h.type is not None:
                    visit(h.type, ctx)
                for s in h.body:
                    visit(s, ctx + [(node, "handler", h)])
            for s in node.orelse:
                visit(s, ctx + [(node, "orelse")])
            for s in node.finalbody:
                visit(s, ctx + [(node, "finally")])
            return
        for ch in ast.iter_child_nodes(node):
            visit(ch, ctx)

    if isinstance(func.node, ast.Lambda):
        visit(func.node.body, [])
    else:
        for s in func.node.body:
            visit(s, [])
    return out


class Typer:
    """Flow-insensitive type inference: module variables, class attributes,
    instance attributes, locals, parameters (from resolved call sites) and
    return types, iterated to a fixed point."""

    def __init__(self, program):
        self.p = program
        self.attr_types = {}  # (ClassInfo, attr) -> set of types
        self.ret_types = {}  # FuncInfo -> set
        self.param_types = {}  # (FuncInfo, name) -> set
        self.local_cache = {}
        self._conv = {}
        for name, specs in NAME_TYPE_CONVENTIONS.items():
            s = set()
            for spec in specs:
                mod, cls = spec.split(":")
                s.add(self.p.cls(mod, cls))
            self._conv[name] = s
        self._assigns = {}  # FuncInfo -> {name: [value exprs]}
        self._collect()
        for _ in range(6):
            before = self._size()
            self.local_cache = {}
            self._iterate()
            if self._size() == before:
                break

    def _size(self):
        return (sum(len(v) for v in self.attr_types.values()) + sum(len(v) for v in self.ret_types.values())
                + sum(len(v) for v in self.param_types.values()))

    # -- collection of assignment facts ---------------------------------
    def _collect(self):
        self._self_attr_assigns = []  # (func, attr, value expr)
        for f in self.p.all_funcs(prod_only=False):
            amap = {}
            for n in iter_own_nodes(f.node):
                if isinstance(n, ast.Assign):
                    for t in n.targets:
                        self._record_target(f, t, n.value, amap)
                elif isinstance(n, ast.AnnAssign) and n.value is not None:
                    self._record_target(f, n.target, n.value, amap)
                elif isinstance(n, (ast.With, ast.AsyncWith)):
                    for it in n.items:
                        if isinstance(it.optional_vars, ast.Name):
                            amap.setdefault(it.optional_vars.id, []).append(("with", it.context_expr))
                elif isinstance(n, (ast.For, ast.AsyncFor)):
                    self._record_for(f, n.target, n.iter, amap)
                elif isinstance(n, ast.NamedExpr):
                    amap.setdefault(n.target.id, []).append(n.value)
            self._assigns[f] = amap

    def _record_target(self, f, t, value, amap):
        if isinstance(t, ast.Name):
            amap.setdefault(t.id, []).append(value)
        elif isinstance(t, ast.Attribute) and isinstance(t.value, ast.Name) and t.value.id == "self" and f.cls:
            self._self_attr_assigns.append((f, t.attr, value))
        elif isinstance(t, ast.Attribute) and isinstance(t.value, ast.Name) and t.value.id == "self" and f.parent is not None:
            # closure over an outer self
            g = f
            while g is not None and g.cls is None:
                g = g.parent
            if g is not None:
                self._self_attr_assigns.append((g, t.attr, value))
        elif isinstance(t, (ast.Tuple, ast.List)) and isinstance(value, (ast.Tuple, ast.List)) and len(t.elts) == len(value.elts):
            for a, b in zip(t.elts, value.elts):
                self._record_target(f, a, b, amap)

    def _record_for(self, f, target, it, amap):
        # for x in <expr>  /  for k, v in <expr>.items()
        if isinstance(target, ast.Name):
            amap.setdefault(target.id, []).append(("elem", it))
        elif isinstance(target, ast.Tuple) and len(target.elts) == 2 and isinstance(it, ast.Call) \
                and isinstance(it.func, ast.Attribute) and it.func.attr == "items" \
                and isinstance(target.elts[1], ast.Name):
            amap.setdefault(target.elts[1].id, []).append(("elem", it.func.value))

    # -- one propagation round ------------------------------------------
    def _iterate(self):
        p = self.p
        for f, attr, value in self._self_attr_assigns:
            ts = self.type_of(f, value)
            if ts:
                self.attr_types.setdefault((f.cls, attr), set()).update(ts)
        for m in p.modules.values():
            for c in m.classes.values():
                for attr, val in c.attrs.items():
                    ts = self.type_of_expr_in_module(m, val)
                    if ts:
                        self.attr_types.setdefault((c, attr), set()).update(ts)
        for f in p.all_funcs(prod_only=False):
            rts = set()
            if f.is_lambda:
                rts |= self.type_of(f, f.node.body)
            else:
                for n in iter_own_nodes(f.node):
                    if isinstance(n, ast.Return) and n.value is not None:
                        rts |= self.type_of(f, n.value)
            if rts:
                self.ret_types.setdefault(f, set()).update(rts)
        # parameters from call sites
        for f in p.all_funcs(prod_only=False):
            for n in iter_own_nodes(f.node):
                if isinstance(n, ast.Call):
                    self._bind_args(f, n)

    def _bind_args(self, f, call):
        for tgt in self.resolve_call(f, call):
            callee = None
            offset = 0
            kwcls = None
            if tgt.kind == "repo":
                if tgt.detail == "by-name":
                    continue  # a guess from the method name alone must not teach the callee's parameters any types
                callee = tgt.ref
                if callee.cls is not None and tgt.detail != "unbound":
                    offset = 1
                if "staticmethod" in callee.decorator_names():
                    offset = 0
            elif tgt.kind == "class":
                callee = tgt.ref.find_method("__init__") or tgt.ref.find_method("__new__")
                offset = 1
                kwcls = tgt.ref
            elif tgt.kind == "ext" and tgt.ref.endswith("PClass.__new__") and f.cls is not None:
                kwcls = f.cls
            if kwcls is not None:
                # PClass-style keyword construction defines attribute types
                for kw in call.keywords:
                    if kw.arg:
                        ts = self.type_of(f, kw.value)
                        if ts:
                            self.attr_types.setdefault((kwcls, kw.arg), set()).update(ts)
            if callee is None or callee.is_lambda:
                continue
            a = callee.node.args
            pos = [x.arg for x in a.posonlyargs + a.args][offset:]
            for i, arg in enumerate(call.args):
                if isinstance(arg, ast.Starred) or i >= len(pos):
                    break
                ts = self.type_of(f, arg)
                if ts:
                    self.param_types.setdefault((callee, pos[i]), set()).update(ts)
            names = set(callee.params)
            for kw in call.keywords:
                if kw.arg and kw.arg in names:
                    ts = self.type_of(f, kw.value)
                    if ts:
                        self.param_types.setdefault((callee, kw.arg), set()).update(ts)

    # -- type queries -----------------------------------------------------
    def type_of_expr_in_module(self, module, expr):
        return self._type(module, None, expr, 0)

    def type_of(self, func, expr):
        return self._type(func.module, func, expr, 0)

    def _method_owner(self, func):
        """Class whose instance `self` denotes inside func (incl. closures in methods)."""
        g = func
        while g is not None:
            if g.cls is not None:
                return g
            g = g.parent
        return None

    def _type(self, module, func, expr, depth):
        if depth > 10 or expr is None:
            return set()
        p = self.p
        if isinstance(expr, tuple):  # ("elem", iterable) / ("with", ctx)
            if expr[0] == "elem":
                base = self._type(module, func, expr[1], depth + 1)
                out = set()
                for t in base:
                    if isinstance(t, tuple) and t[0] == "listof":
                        out.add(t[1])
                return out
            if expr[0] == "with":
                base = self._type(module, func, expr[1], depth + 1)
                out = set()
                for t in base:
                    if isinstance(t, ClassInfo):
                        en = t.find_method("__enter__")
                        if en is not None:
                            out |= self.ret_types.get(en, set()) or {t}
                        else:
                            out.add(t)
                return out
            return set()
        if isinstance(expr, ast.Name):
            name = expr.id
            if func is not None:
                owner = self._method_owner(func)
                if owner is not None and owner.pos_params:
                    first = owner.pos_params[0]
                    decs = owner.decorator_names()
                    if name == first and (func is owner or name not in func.local_names() or func.parent is not None):
                        shadow = False
                        g = func
                        while g is not owner:
                            if name in g.params:
                                shadow = True
                            g = g.parent
                        if not shadow:
                            if "classmethod" in decs or owner.name == "__new__":
                                return {("classobj", owner.cls)}
                            if "staticmethod" not in decs:
                                return {owner.cls}
            r = p.resolve_name(module, func, name)
            if r[0] == "local":
                return self._local_type(r[1], name, depth)
            if r[0] == "class":
                return {("classobj", r[1])}
            if r[0] == "modvar":
                out = set()
                for v in r[1].assigns.get(r[2], []):
                    if isinstance(v, ast.AST):
                        out |= self._type(r[1], None, v, depth + 1)
                return out
            if r[0] == "func":
                return {("funcobj", r[1])}
            if r[0] == "boundmethod":
                return {("funcobj", r[2])}
            if r[0] == "ext":
                return {("extobj", r[1])}
            return set()
        if isinstance(expr, ast.Attribute):
            # static resolution first (module.attr / Class.attr)
            r = p.resolve_expr_static(module, func, expr)
            if r:
                if r[0] == "func":
                    return {("funcobj", r[1])}
                if r[0] == "boundmethod":
                    return {("funcobj", r[2])}
                if r[0] == "class":
                    return {("classobj", r[1])}
                if r[0] == "modvar":
                    out = set()
                    for v in r[1].assigns.get(r[2], []):
                        if isinstance(v, ast.AST):
                            out |= self._type(r[1], None, v, depth + 1)
                    return out
                if r[0] == "classattr":
                    return set(self.attr_types.get((r[1], r[2]), set()))
                if r[0] == "ext":
                    return {("extobj", r[1])}
            base = self._type(module, func, expr.value, depth + 1)
            out = set()
            for t in base:
                if isinstance(t, ClassInfo):
                    if expr.attr == "__class__":
                        out.add(("classobj", t))
                        continue
                    m = t.find_method(expr.attr)
                    if m is not None:
                        if "property" in m.decorator_names():
                            out |= self.ret_types.get(m, set())
                        else:
                            out.add(("funcobj", m))
                        continue
                    for c in t.mro():
                        out |= self.attr_types.get((c, expr.attr), set())
                elif isinstance(t, tuple) and t[0] == "classobj":
                    m = t[1].find_method(expr.attr)
                    if m is not None:
                        out.add(("funcobj", m))
                    else:
                        for c in t[1].mro():
                            out |= self.attr_types.get((c, expr.attr), set())
                elif isinstance(t, tuple) and t[0] == "ext":
                    out.add(("extmethod", t[1], expr.attr))
            if not out and expr.attr in self._conv or (not out and expr.attr.lstrip("_") in self._conv):
                out |= self._conv.get(expr.attr, set()) | self._conv.get(expr.attr.lstrip("_"), set())
            return out
        if isinstance(expr, ast.Call):
            out = set()
            for tgt in self.resolve_call_in(module, func, expr, depth + 1):
                if tgt.kind == "class":
                    out.add(tgt.ref)
                elif tgt.kind == "repo":
                    callee = tgt.ref
                    if "contextmanager" in callee.decorator_names():
                        continue
                    out |= self.ret_types.get(callee, set())
                elif tgt.kind == "ext":
                    if tgt.ref in EXT_OBJECT_TYPES:
                        out.add(("ext", tgt.ref))
                    elif tgt.ref == "contextvars.ContextVar.get":
                        out |= self._contextvar_values(module, func, expr, depth + 1)
                elif tgt.kind == "container" and tgt.ref in ("pop", "get", "setdefault") and len(expr.args) == 2:
                    out |= self._type(module, func, expr.args[1], depth + 1)
                elif tgt.kind == "builtin" and tgt.ref == "staticmethod" and expr.args:
                    out |= self._type(module, func, expr.args[0], depth + 1)
            return out
        if isinstance(expr, ast.IfExp):
            return self._type(module, func, expr.body, depth + 1) | self._type(module, func, expr.orelse, depth + 1)
        if isinstance(expr, ast.BoolOp):
            out = set()
            for v in expr.values:
                out |= self._type(module, func, v, depth + 1)
            return out
        if isinstance(expr, (ast.List, ast.Tuple)):
            out = set()
            for e in expr.elts:
                for t in self._type(module, func, e, depth + 1):
                    out.add(("listof", t))
            return out
        if isinstance(expr, ast.Lambda):
            if func is not None:
                key = "<lambda@%d:%d>" % (expr.lineno, expr.col_offset)
                if key in func.nested:
                    return {("funcobj", func.nested[key])}
            return set()
        return set()

    def _contextvar_values(self, module, func, call, depth):
        """Types of the values stored by `<var>.set(x)` anywhere, for `<var>.get()`."""
        var = self.p.resolve_expr_static(module, func, call.func.value)
        out = set()
        if not var or var[0] != "modvar":
            return out
        for f in self.p.all_funcs(prod_only=True):
            for n in iter_own_nodes(f.node):
                if isinstance(n, ast.Call) and isinstance(n.func, ast.Attribute) and n.func.attr == "set" and n.args:
                    v2 = self.p.resolve_expr_static(f.module, f, n.func.value)
                    if v2 and v2[0] == "modvar" and v2[1] is var[1] and v2[2] == var[2]:
                        out |= self._type(f.module, f, n.args[0], depth + 1)
        return out

    def _local_type(self, func, name, depth):
        key = (func, name)
        if key in self.local_cache:
            return self.local_cache[key]
        self.local_cache[key] = set()  # recursion guard
        out = set()
        for v in self._assigns.get(func, {}).get(name, []):
            out |= self._type(func.module, func, v, depth + 1)
        if name in func.params:
            out |= self.param_types.get((func, name), set())
        if not out:
            out |= self._conv.get(name, set()) | self._conv.get(name.lstrip("_"), set())
        self.local_cache[key] = out
        return out

    # -- call resolution --------------------------------------------------
    def resolve_call(self, func, call):
        return self.resolve_call_in(func.module, func, call, 0)

    def resolve_call_in(self, module, func, call, depth=0):
        p = self.p
        fn = call.func
        # 1. plain names
        if isinstance(fn, ast.Name):
            r = p.resolve_name(module, func, fn.id)
            if r[0] == "func":
                return [Target("repo", r[1], "unbound")]
            if r[0] == "boundmethod":
                return [Target("repo", r[2])]
            if r[0] == "class":
                return [Target("class", r[1])]
            if r[0] == "builtin":
                return [Target("builtin", fn.id)]
            if r[0] == "ext":
                return [Target("ext", r[1])]
            if r[0] == "modvar":
                # a record type made by collections.namedtuple / typing.NamedTuple at import time: its constructor only stores its arguments
                vals_ = [v for v in r[1].assigns.get(r[2], []) if isinstance(v, ast.AST)]
                if len(vals_) == 1 and isinstance(vals_[0], ast.Call) and isinstance(vals_[0].func, (ast.Name, ast.Attribute)) \
                        and (vals_[0].func.id if isinstance(vals_[0].func, ast.Name) else vals_[0].func.attr) in ("namedtuple", "NamedTuple"):
                    return [Target("ext", "collections.namedtuple.instance")]
            if r[0] in ("local", "modvar"):
                ts = self._type(module, func, fn, depth + 1)
                out = self._targets_from_callable_types(ts)
                kind = "parameter" if (r[0] == "local" and fn.id in r[1].params) else "variable"
                open_world = False
                if r[0] == "local":
                    vals = self._assigns.get(r[1], {}).get(fn.id, [])
                    open_world = fn.id in r[1].params or not vals or any(isinstance(v, tuple) for v in vals)
                    if any(isinstance(t, tuple) and t[0] == "classobj" for t in ts) and r[1].cls is not None \
                            and r[1].pos_params and r[1].pos_params[0] == fn.id:
                        open_world = False  # cls / klass of a classmethod
                if out and not open_world:
                    return out
                return out + [Target("foreign", fn.id, "call of %s %r holding a caller-supplied callable" % (kind, fn.id))]
            return [Target("unknown", fn.id)]
        # 2. attribute calls
        if isinstance(fn, ast.Attribute):
            r = p.resolve_expr_static(module, func, fn)
            if r:
                if r[0] == "func":
                    # Class.method(...) / module.func(...)
                    return [Target("repo", r[1], "static")]
                if r[0] == "boundmethod":
                    return [Target("repo", r[2])]
                if r[0] == "class":
                    return [Target("class", r[1])]
                if r[0] == "ext":
                    return [Target("ext", r[1])]
                if r[0] == "classattr":
                    ts = set(self.attr_types.get((r[1], r[2]), set()))
                    out = self._targets_from_callable_types(ts)
                    if out:
                        return out
            if isinstance(fn.value, ast.Name) and fn.value.id in BUILTIN_TOTAL and \
                    p.resolve_name(module, func, fn.value.id)[0] == "builtin":
                return [Target("builtin", fn.value.id, "." + fn.attr)]
            base_types = self._type(module, func, fn.value, depth + 1)
            out = []
            unknown_attr = False
            missing_method = False  # some inferred receiver class lacks the method (type imprecision)
            for t in base_types:
                if isinstance(t, ClassInfo) and fn.attr == "__class__":
                    out.append(Target("class", t))
                    continue
                if isinstance(t, ClassInfo):
                    m = t.find_method(fn.attr)
                    if m is not None:
                        out.append(Target("repo", m))
                    else:
                        ats = set()
                        for c in t.mro():
                            ats |= self.attr_types.get((c, fn.attr), set())
                        sub = self._targets_from_callable_types(ats)
                        if sub:
                            out += sub
                            # instance attributes are filled from constructor arguments:
                            # open world unless the attribute is defined at class level
                            if t.find_attr(fn.attr)[1] is None:
                                unknown_attr = True
                        elif any(b not in ("object",) and not t.bases for b in t.base_exprs) and not ats:
                            # inherited from an external base class (PClass.set, Service.startService)
                            out.append(Target("ext", "%s.%s" % (t.base_exprs[0], fn.attr), "inherited"))
                        else:
                            missing_method = True
                elif isinstance(t, tuple) and t[0] == "classobj":
                    m = t[1].find_method(fn.attr)
                    if m is not None:
                        out.append(Target("repo", m, "static"))
                    else:
                        out.append(Target("ext", "%s.%s" % (t[1].base_exprs[0] if t[1].base_exprs else "object", fn.attr), "inherited"))
                elif isinstance(t, tuple) and t[0] == "ext":
                    out.append(Target("ext", "%s.%s" % (t[1], fn.attr), "method"))
                elif isinstance(t, tuple) and t[0] == "extobj":
                    out.append(Target("ext", "%s.%s" % (t[1], fn.attr)))
                elif isinstance(t, tuple) and t[0] == "listof":
                    if fn.attr in CONTAINER_METHODS:
                        out.append(Target("container", fn.attr))
            if out:
                if unknown_attr:
                    out.append(Target("foreign", unparse(fn), "attribute %r holds a caller-supplied callable" % fn.attr))
                return out
            if unknown_attr or (missing_method and fn.attr in GENERIC_METHOD_NAMES):
                return [Target("foreign", unparse(fn), "attribute %r of a repo object holds a caller-supplied callable" % fn.attr)]
            # untyped receiver
            if fn.attr in CONTAINER_METHODS:
                return [Target("container", fn.attr)]
            # class-hierarchy analysis by method name, for names that only the repo's own
            # classes define (not names of file/queue/generator/thread protocols)
            if fn.attr not in GENERIC_METHOD_NAMES and not fn.attr.startswith("__"):
                cands = []
                for m in p.prod_modules():
                    for ci in m.classes.values():
                        if fn.attr in ci.methods and ci.methods[fn.attr].cls is ci:
                            cands.append(ci.methods[fn.attr])
                if cands:
                    return [Target("repo", c, "by-name") for c in cands]
            return [Target("foreign", unparse(fn), "method %r of an object supplied by the caller" % fn.attr)]
        # 3. call of a call result / subscript etc.
        ts = self._type(module, func, fn, depth + 1)
        out = self._targets_from_callable_types(ts)
        if out:
            return out
        return [Target("foreign", unparse(fn), "computed callee")]

    def _targets_from_callable_types(self, ts):
        out = []
        for t in ts:
            if isinstance(t, tuple) and t[0] == "funcobj":
                out.append(Target("repo", t[1]))
            elif isinstance(t, tuple) and t[0] == "classobj":
                out.append(Target("class", t[1]))
            elif isinstance(t, tuple) and t[0] == "extobj":
                out.append(Target("ext", t[1]))
            elif isinstance(t, ClassInfo):
                m = t.find_method("__call__")
                if m is not None:
                    out.append(Target("repo", m, "__call__"))
        return out


class CallGraph:
    def __init__(self, program, typer=None):
        self.p = program
        self.typer = typer or Typer(program)
        self.sites = {}  # FuncInfo -> [CallSite]
        self.callers = {}  # FuncInfo -> [CallSite]
        self.ctxmaps = {}
        for f in program.all_funcs(prod_only=False):
            self._scan(f)

    def _scan(self, f):
        ctxmap = lexical_contexts(f)
        self.ctxmaps[f] = ctxmap
        sites = []
        for n in iter_own_nodes(f.node):
            if isinstance(n, ast.Call):
                tg = self.typer.resolve_call(f, n)
                sites.append(CallSite(f, n, n.lineno, tg, ctxmap.get(id(n), []), unparse(n)))
            elif isinstance(n, (ast.With, ast.AsyncWith)):
                for it in n.items:
                    ts = self.typer.type_of(f, it.context_expr)
                    for t in ts:
                        if isinstance(t, ClassInfo):
                            for mname in ("__enter__", "__exit__"):
                                m = t.find_method(mname)
                                if m is not None:
                                    sites.append(CallSite(f, None, n.lineno, [Target("repo", m)],
                                                          ctxmap.get(id(n), []),
                                                          "with %s: -> %s" % (unparse(it.context_expr), mname),
                                                          implicit=mname))
        sites.sort(key=lambda s: (s.lineno, s.call.col_offset if s.call is not None else 0))
        self.sites[f] = sites
        for s in sites:
            for t in s.repo_targets():
                self.callers.setdefault(t, []).append(s)

    def classify(self, site):
        """One of repo / builtin / container / stdlib / foreign / unknown (the worst
        over the targets)."""
        kinds = set()
        for t in site.targets:
            if t.kind in ("repo", "class"):
                kinds.add("repo")
            elif t.kind == "container":
                kinds.add("container")
            elif t.kind == "builtin":
                if t.ref in ("str", "repr") and site.call is not None and len(site.call.args) == 1 \
                        and self._library_value(site.func, site.call.args[0]):
                    kinds.add("builtin")
                elif t.ref in BUILTIN_FOREIGN:
                    kinds.add("foreign")
                elif t.ref in BUILTIN_TOTAL:
                    kinds.add("builtin")
                else:
                    kinds.add("unknown")
            elif t.kind == "ext":
                kinds.add(self.classify_ext(t))
            elif t.kind == "foreign":
                kinds.add("foreign")
            else:
                kinds.add("unknown")
        for k in ("foreign", "unknown", "repo", "stdlib", "container", "builtin"):
            if k in kinds:
                return k
        return "unknown"

    def _library_value(self, func, expr):
        """Expression whose value is produced by the library itself (constant, or the
        result of a trusted stdlib / total builtin call)."""
        if isinstance(expr, ast.Constant):
            return True
        if isinstance(expr, ast.Call):
            for t in self.typer.resolve_call(func, expr):
                if t.kind == "ext" and self.classify_ext(t) == "stdlib":
                    continue
                return False
            return True
        return False

    def classify_ext(self, t):
        ref = t.ref
        if ref in EXT_FOREIGN:
            return "foreign"
        if ref in STDLIB_TRUSTED:
            return "stdlib"
        if "." in ref:
            base, meth = ref.rsplit(".", 1)
            if (base, meth) in EXT_METHOD_TRUSTED:
                return "stdlib"
            if base in STDLIB_TRUSTED and meth in ("__new__",):
                return "stdlib"
        return "foreign"

    def callers_of(self, f):
        return self.callers.get(f, [])

    def stats(self, prod_funcs):
        c = {"repo": 0, "builtin": 0, "container": 0, "stdlib": 0, "foreign": 0, "unknown": 0}
        for f in prod_funcs:
            for s in self.sites.get(f, []):
                c[self.classify(s)] += 1
        return c
