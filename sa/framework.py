"""E9 -- analysis context, obligations, evidence, known findings, CLI plumbing."""

import ast
import json
import os
import time

from .index import Program, AnalysisError, unparse, iter_own_nodes
from .cfg import CFG, calls_in_node, INF
from .callgraph import CallGraph
from .contain import Containment

VERIF = os.path.dirname(os.path.dirname(os.path.abspath(__file__)))


def _canonical_form_note():
    from . import inline
    note = "source analysed in canonical form (sa/normalize.py N1-N19)"
    if inline.STATS["expanded"]:
        note += "; %d call(s) of %d helper(s) unknown to the pinned tree expanded in place: %s" % (
            inline.STATS["expanded"], len(set(inline.STATS["helpers"])), ", ".join(sorted(set(inline.STATS["helpers"]))[:12]))
    else:
        note += "; no helper outside sa/known_functions.json present"
    return [note]


class Ctx:
    """Everything derived from one source tree (re-parsed on every run)."""

    def __init__(self, root):
        self.root = root
        self.p = Program(root)
        self._cfg = {}
        self._cg = None
        self._ct = None

    @property
    def cg(self):
        if self._cg is None:
            self._cg = CallGraph(self.p)
        return self._cg

    @property
    def contain(self):
        if self._ct is None:
            self._ct = Containment(self.cg)
        return self._ct

    def cfg(self, func):
        if func not in self._cfg:
            self._cfg[func] = CFG(func)
        return self._cfg[func]

    def func(self, mod, qual):
        return self.p.func(mod, qual)

    def cls(self, mod, name):
        return self.p.cls(mod, name)

    def targets(self, func, call):
        """Repo functions a call expression may invoke."""
        out = []
        for t in self.cg.typer.resolve_call(func, call):
            if t.kind == "repo":
                out.append(t.ref)
            elif t.kind == "class":
                for m in ("__new__", "__init__"):
                    f = t.ref.find_method(m)
                    if f:
                        out.append(f)
        return out

    def calls_to(self, func, callee, cfg=None):
        """[(node, Call, multiplicity)] in func's CFG that may invoke repo function callee."""
        g = cfg or self.cfg(func)
        out = []
        for n in g.live:
            for c, mult in calls_in_node(n):
                if callee in self.targets(func, c):
                    out.append((n, c, mult))
        return out

    def calls_matching(self, func, pred, cfg=None):
        g = cfg or self.cfg(func)
        out = []
        for n in g.live:
            for c, mult in calls_in_node(n):
                if pred(c):
                    out.append((n, c, mult))
        return out

    def fold(self, func_or_module, expr):
        if hasattr(func_or_module, "module"):
            return self.p.fold(func_or_module.module, expr, func_or_module)
        return self.p.fold(func_or_module, expr)

    def try_fold(self, func_or_module, expr):
        try:
            return True, self.fold(func_or_module, expr)
        except Exception:
            return False, None


def attr_call(call, attr, recv=None):
    """call is `<recv>.<attr>(...)` (recv: unparsed receiver text or predicate)."""
    f = call.func
    if not (isinstance(f, ast.Attribute) and f.attr == attr):
        return False
    if recv is None:
        return True
    txt = unparse(f.value)
    return recv(txt) if callable(recv) else txt == recv


def name_call(call, name):
    return isinstance(call.func, ast.Name) and call.func.id == name


def stores_to_name(func, name):
    """AST nodes in func (own scope) that (re)bind `name` (excluding the parameter)."""
    out = []
    for n in iter_own_nodes(func.node):
        if isinstance(n, ast.Name) and n.id == name and isinstance(n.ctx, (ast.Store, ast.Del)):
            out.append(n)
        elif isinstance(n, ast.ExceptHandler) and n.name == name:
            out.append(n)
        elif isinstance(n, (ast.FunctionDef, ast.AsyncFunctionDef, ast.ClassDef)) and n.name == name and n is not func.node:
            out.append(n)
    return out


def assigned_values(func, name):
    """Right-hand sides of plain assignments `name = <expr>` in func's own scope;
    None entries for bindings that are not plain assignments."""
    vals = []
    for n in iter_own_nodes(func.node):
        if isinstance(n, ast.Assign):
            for t in n.targets:
                if isinstance(t, ast.Name) and t.id == name:
                    vals.append(n.value)
                elif isinstance(t, (ast.Tuple, ast.List)) and any(isinstance(e, ast.Name) and e.id == name for e in ast.walk(t)):
                    vals.append(None)
        elif isinstance(n, (ast.AugAssign, ast.AnnAssign)) and isinstance(n.target, ast.Name) and n.target.id == name:
            vals.append(n.value if isinstance(n, ast.AnnAssign) else None)
        elif isinstance(n, (ast.For, ast.AsyncFor)) and any(isinstance(e, ast.Name) and e.id == name for e in ast.walk(n.target)):
            vals.append(None)
        elif isinstance(n, (ast.With, ast.AsyncWith)):
            for it in n.items:
                if it.optional_vars is not None and any(isinstance(e, ast.Name) and e.id == name for e in ast.walk(it.optional_vars)):
                    vals.append(None)
        elif isinstance(n, ast.NamedExpr) and n.target.id == name:
            vals.append(n.value)
        elif isinstance(n, ast.ExceptHandler) and n.name == name:
            vals.append(None)
    return vals


def names_in(expr):
    return {n.id for n in ast.walk(expr) if isinstance(n, ast.Name)}


def same_ast(a, b):
    return ast.dump(a) == ast.dump(b)


# ---------------------------------------------------------------------------
# forward must-dataflow over a CFG

def forward(cfg, init, transfer, join, avoid_edges=(), start=None):
    """Generic forward dataflow.  transfer(node, state, label) -> state for the
    out-edge `label`; join(list of states) -> state.  States must be comparable
    (==).  Returns IN state per node (None = unreachable)."""
    IN = {n: None for n in cfg.live}
    start = start or cfg.entry
    IN[start] = init
    work = [start]
    iters = 0
    while work:
        iters += 1
        if iters > 20000:
            raise AnalysisError("dataflow did not converge in %s" % cfg.func.fq)
        n = work.pop()
        st = IN[n]
        if st is None:
            continue
        for s, lab in n.succ:
            if (n, lab) in avoid_edges:
                continue
            out = transfer(n, st, lab)
            if out is None:
                continue
            preds_states = []
            new = out if IN[s] is None else join([IN[s], out])
            if new != IN[s]:
                IN[s] = new
                work.append(s)
    return IN


# ---------------------------------------------------------------------------
# obligations and reports

class Obligation:
    def __init__(self, rule, construct, status, where="", detail="", sites=0):
        self.rule = rule
        self.construct = construct
        self.status = status  # DISCHARGED | VIOLATED | NOT-EVALUATED | KNOWN
        self.where = where
        self.detail = detail
        self.sites = sites

    @property
    def key(self):
        return "%s:%s" % (self.rule, self.construct)

    def as_dict(self):
        return {"rule": self.rule, "construct": self.construct, "status": self.status,
                "where": self.where, "detail": self.detail, "sites_or_paths_examined": self.sites}


class Check:
    """One run of one property's checker."""

    def __init__(self, ctx, pid, tier):
        self.ctx = ctx
        self.pid = pid
        self.tier = tier
        self.obs = []
        self.assumptions = []
        self.notes = []
        self.min_instances = []  # (rule, found, minimum)

    def where(self, func_or_mod, lineno=None):
        m = func_or_mod.module if hasattr(func_or_mod, "module") else func_or_mod
        ln = lineno if lineno is not None else getattr(func_or_mod, "lineno", 0)
        return "%s:%s" % (m.relpath, ln)

    def ok(self, rule, construct, where="", detail="", sites=1):
        self.obs.append(Obligation(rule, construct, "DISCHARGED", where, detail, sites))

    def bad(self, rule, construct, where="", detail="", sites=1):
        self.obs.append(Obligation(rule, construct, "VIOLATED", where, detail, sites))

    def skip(self, rule, construct, where="", detail=""):
        self.obs.append(Obligation(rule, construct, "NOT-EVALUATED", where, detail, 0))

    def req(self, cond, rule, construct, where="", good="", fail="", sites=1):
        """good / fail may be callables (evaluated lazily, only for the arm taken)."""
        if cond:
            self.ok(rule, construct, where, good() if callable(good) else good, sites)
        else:
            self.bad(rule, construct, where, fail() if callable(fail) else fail, sites)
        return bool(cond)

    def need(self, cond, what):
        """An anchor / shape the analyser relies on; absence is an analysis error."""
        if not cond:
            raise AnalysisError(what)

    def instances(self, rule, found, minimum):
        self.min_instances.append((rule, found, minimum))
        if found < minimum:
            raise AnalysisError("rule %s matched %d instance(s), fewer than the %d confirmed on the pinned tree"
                                % (rule, found, minimum))

    def assume(self, text):
        if text not in self.assumptions:
            self.assumptions.append(text)


def load_known_findings():
    path = os.path.join(VERIF, "known_findings.txt")
    findings, fixed = [], []
    if os.path.exists(path):
        for line in open(path, encoding="utf-8"):
            line = line.strip()
            if not line or line.startswith("#"):
                continue
            if line.startswith("finding:"):
                rest = line[len("finding:"):].strip()
                parts = rest.split(None, 2)
                d = {"text": parts[2] if len(parts) > 2 else ""}
                for p in parts[:2]:
                    k, _, v = p.partition("=")
                    d[k] = v
                findings.append(d)
            elif line.startswith("fixed:"):
                fixed.append(line)
    return findings, fixed


def finish(check, t0, seed, explanation, rule_text, extra=None, out_dir=None, evidence_dir=None):
    """Apply known findings, print the verdict lines, write evidence + replay file.
    Returns the process exit code."""
    ctx = check.ctx
    findings, _fixed = load_known_findings()
    known_keys = {f["key"]: f for f in findings if f.get("property") == check.pid}
    viol = []
    known_hit = []
    for o in check.obs:
        if o.status == "VIOLATED":
            if o.key in known_keys:
                o.status = "KNOWN"
                known_hit.append(o)
            else:
                viol.append(o)
    out_dir = out_dir or os.path.join(VERIF, "out")
    evidence_dir = evidence_dir or os.path.join(VERIF, "evidence")
    os.makedirs(out_dir, exist_ok=True)
    os.makedirs(evidence_dir, exist_ok=True)
    for o in known_hit:
        print("KNOWN-FINDING: property=%s %s %s -- %s" % (check.pid, o.key, known_keys[o.key]["text"], o.where))
    replay = os.path.join(out_dir, "%s.%s.violations.json" % (check.pid, check.tier))
    if viol:
        with open(replay, "w") as f:
            json.dump({"property": check.pid, "tier": check.tier, "root": ctx.root,
                       "violations": [o.as_dict() for o in viol]}, f, indent=1)
        print("VIOLATION property=%s replay=%s" % (check.pid, replay))
        for o in viol:
            print("  %s %s %s -- %s" % (o.where, o.rule, o.construct, o.detail))
    elif os.path.exists(replay):
        os.remove(replay)
    p = ctx.p
    prod = list(p.all_funcs())
    n_nodes = n_edges = 0
    for f in prod:
        g = ctx.cfg(f)
        n_nodes += len(g.live)
        n_edges += g.n_edges()
    evaluated = [o for o in check.obs if o.status != "NOT-EVALUATED"]
    distinct = len({o.key for o in evaluated if o.sites > 0})
    samples = [o.as_dict() for o in check.obs[:12]]
    cov = {
        "explanation": explanation,
        "rule": rule_text,
        "modules_parsed": len(p.modules),
        "functions_analysed": len(prod),
        "cfg_nodes": n_nodes,
        "cfg_edges": n_edges,
        "call_sites": ctx.cg.stats(prod),
        "obligations": len(check.obs),
        "discharged": len([o for o in check.obs if o.status == "DISCHARGED"]),
        "not_evaluated": len([o for o in check.obs if o.status == "NOT-EVALUATED"]),
        "known_findings": [o.key for o in known_hit],
        "evaluations": len(evaluated),
        "distinct_nontrivial": distinct,
        "rule_instances": [{"rule": r, "found": f, "minimum": m} for r, f, m in check.min_instances],
        "samples": samples,
        "all_obligations": ["%s %s" % (o.key, o.status) for o in check.obs],
        "notes": check.notes + _canonical_form_note(),
        "analysed_root": ctx.root,
    }
    if extra:
        cov.update(extra)
    ev = {
        "property_id": check.pid,
        "tier": check.tier,
        "seed": seed,
        "level": "other",
        "coverage": cov,
        "assumptions": check.assumptions,
        "wall_s": round(time.time() - t0, 3),
        "violations": len(viol),
    }
    validate_evidence(ev)
    with open(os.path.join(evidence_dir, "%s.json" % check.pid), "w") as f:
        json.dump(ev, f, indent=1, default=str)
    print("%s %s: %d obligations, %d discharged, %d known, %d violated, %d not evaluated (%.2fs)" % (
        check.pid, check.tier, len(check.obs), cov["discharged"], len(known_hit), len(viol),
        cov["not_evaluated"], ev["wall_s"]))
    return 1 if viol else 0


def validate_evidence(ev):
    """Minimal self-validation against EVIDENCE.schema.json's rules for level=other."""
    for k in ("property_id", "tier", "seed", "level", "coverage", "wall_s"):
        if k not in ev:
            raise AnalysisError("evidence lacks %s" % k)
    if ev["tier"] not in ("quick", "thorough") or not isinstance(ev["seed"], int):
        raise AnalysisError("evidence tier/seed malformed")
    cov = ev["coverage"]
    if not (isinstance(cov.get("explanation"), str) and cov["explanation"].strip()):
        raise AnalysisError("evidence explanation empty")
    if not isinstance(cov.get("samples"), list) or not cov["samples"]:
        raise AnalysisError("evidence samples empty")
    if (cov["evaluations"] < 1 or cov["distinct_nontrivial"] < 2) and not ev.get("violations"):
        raise AnalysisError("evidence counts too small: a rule matched (almost) nothing")
