"""E2/E3 -- per-function control-flow graphs with exceptional edges, and path
queries (reachability with removed nodes/edges, edge dominance, occurrence
counts, acyclic path enumeration).  Pure stdlib."""

import ast
from .index import unparse, AnalysisError

INF = float("inf")


class Node:
    __slots__ = ("id", "kind", "ast", "exprs", "lineno", "succ", "pred", "info")

    def __init__(self, nid, kind, node=None, exprs=None, lineno=None, info=None):
        self.id = nid
        self.kind = kind
        self.ast = node
        self.exprs = exprs if exprs is not None else []
        self.lineno = lineno if lineno is not None else getattr(node, "lineno", 0)
        self.succ = []  # (Node, label)
        self.pred = []  # (Node, label)
        self.info = info or {}

    def text(self):
        if self.kind in ("entry", "exit", "raise_exit"):
            return self.kind
        if self.kind == "test":
            return "test(%s)" % unparse(self.exprs[0])
        if self.kind == "for_next":
            return "for-next(%s)" % unparse(self.ast.target)
        if self.kind == "for_iter":
            return "for-iter(%s)" % unparse(self.ast.iter)
        if self.kind == "with_enter":
            return "with-enter(%s)" % unparse(self.info["item"].context_expr)
        if self.kind == "with_exit":
            return "with-exit(%s)" % unparse(self.info["item"].context_expr)
        if self.kind == "dispatch":
            return "except-dispatch"
        if self.kind == "handler":
            t = self.ast.type
            return "except %s" % (unparse(t) if t is not None else "<bare>")
        if self.ast is not None:
            s = unparse(self.ast)
            return s.split("\n")[0][:100]
        return self.kind

    def __repr__(self):
        return "<N%d %s L%s %s>" % (self.id, self.kind, self.lineno, self.text()[:40])


def _handler_classes(h):
    """Names caught by an except clause: ['<bare>'] or list of dotted names."""
    if h.type is None:
        return ["<bare>"]
    if isinstance(h.type, ast.Tuple):
        return [unparse(e) for e in h.type.elts]
    return [unparse(h.type)]


def handler_catches_all_exceptions(h):
    """True iff the clause catches at least every Exception subclass."""
    return any(c in ("<bare>", "BaseException", "Exception") for c in _handler_classes(h))


def handler_catches_base(h):
    return any(c in ("<bare>", "BaseException") for c in _handler_classes(h))


def expr_may_raise(e):
    """Conservative: can evaluating this expression raise?"""
    if e is None:
        return False
    for n in ast.walk(e):
        if isinstance(n, (ast.Call, ast.Subscript, ast.BinOp, ast.Yield, ast.YieldFrom,
                          ast.Await, ast.Starred, ast.FormattedValue)):
            return True
        if isinstance(n, ast.Compare):
            if any(not isinstance(op, (ast.Is, ast.IsNot)) for op in n.ops):
                return True
        if isinstance(n, ast.Attribute):
            if not (isinstance(n.value, ast.Name) and n.value.id in ("self", "cls")):
                return True
        if isinstance(n, (ast.ListComp, ast.SetComp, ast.DictComp, ast.GeneratorExp)):
            return True
        if isinstance(n, ast.UnaryOp) and not isinstance(n.op, ast.Not):
            return True
    return False


class CFG:
    def __init__(self, func):
        self.func = func
        self.nodes = []
        self.entry = self._new("entry", lineno=func.lineno)
        self.exit = self._new("exit", lineno=func.lineno)  # normal return
        self.raise_exit = self._new("raise_exit", lineno=func.lineno)  # exception leaves
        self._frames = []  # stack of dicts describing enclosing try/with/loops
        self.is_generator = any(
            isinstance(n, (ast.Yield, ast.YieldFrom)) for n in _own_walk(func.node)
        )
        last = self._build_block(func.body, [(self.entry, "next")])
        for n, lab in last:
            self._edge(n, self.exit, lab if lab != "next" else "fallthrough")
        self._prune()

    # -- construction helpers ------------------------------------------
    def _new(self, kind, node=None, exprs=None, lineno=None, info=None):
        n = Node(len(self.nodes), kind, node, exprs, lineno, info)
        self.nodes.append(n)
        return n

    def _edge(self, a, b, label="next"):
        if (b, label) not in a.succ:
            a.succ.append((b, label))
            b.pred.append((a, label))

    def _connect(self, preds, node):
        for p, lab in preds:
            self._edge(p, node, lab)

    def _exc_from(self, node, frames=None):
        """Add the exceptional out-edge of `node` according to the frame stack."""
        frames = self._frames if frames is None else frames
        self._jump("exc", node, "exc", frames)

    def _jump(self, kind, src, label, frames=None, loop=None):
        """Route a non-local transfer (exc / return / break / continue) from `src`
        outward through the frame stack, instantiating finally/with-exit copies."""
        frames = list(self._frames if frames is None else frames)
        cur, curlab = src, label
        i = len(frames) - 1
        while i >= 0:
            fr = frames[i]
            outer = frames[:i]
            if fr["type"] == "try_body" and kind == "exc":
                self._edge(cur, fr["dispatch"], curlab)
                return
            if fr["type"] in ("finally", "with"):
                # run the cleanup, then continue outward
                saved = self._frames
                self._frames = outer
                try:
                    if fr["type"] == "finally":
                        marker = self._new("finally_enter", fr["node"], lineno=fr["node"].finalbody[0].lineno,
                                           info={"via": kind})
                        self._edge(cur, marker, curlab)
                        ends = self._build_block(fr["node"].finalbody, [(marker, "next")])
                    else:
                        wx = self._new("with_exit", fr["node"], lineno=fr["node"].lineno,
                                       info={"item": fr["item"], "via": kind})
                        self._edge(cur, wx, curlab)
                        # __exit__ itself may raise
                        self._exc_from(wx, outer)
                        ends = [(wx, "next")]
                finally:
                    self._frames = saved
                if not ends:
                    return
                # merge the ends into a single join node to continue the jump
                join = self._new("join", lineno=fr["node"].lineno, info={"via": kind})
                self._connect(ends, join)
                cur, curlab = join, kind
            elif fr["type"] == "loop" and kind in ("break", "continue") and (loop is None or fr["node"] is loop):
                if kind == "break":
                    fr["breaks"].append((cur, curlab))
                else:
                    self._edge(cur, fr["head"], curlab)
                return
            i -= 1
        if kind == "exc":
            self._edge(cur, self.raise_exit, curlab)
        elif kind == "return":
            self._edge(cur, self.exit, curlab)
        else:  # pragma: no cover
            raise AnalysisError("break/continue outside loop in %s" % self.func.fq)

    # -- statement translation -----------------------------------------
    def _build_block(self, stmts, preds):
        for st in stmts:
            if not preds:
                break  # unreachable code
            preds = self._build_stmt(st, preds)
        return preds

    def _simple(self, st, preds, kind="stmt", exprs=None):
        n = self._new(kind, st, exprs if exprs is not None else _stmt_exprs(st))
        self._connect(preds, n)
        if _node_may_raise(n):
            self._exc_from(n)
        return n

    def _build_stmt(self, st, preds):
        if isinstance(st, ast.If):
            t = self._simple(st, preds, "test", [st.test])
            body_end = self._build_block(st.body, [(t, "true")])
            else_end = self._build_block(st.orelse, [(t, "false")]) if st.orelse else [(t, "false")]
            return body_end + else_end
        if isinstance(st, ast.While):
            t = self._simple(st, preds, "test", [st.test])
            const_true = isinstance(st.test, ast.Constant) and bool(st.test.value)
            fr = {"type": "loop", "node": st, "head": t, "breaks": []}
            self._frames.append(fr)
            body_end = self._build_block(st.body, [(t, "true")])
            self._frames.pop()
            for n, lab in body_end:
                self._edge(n, t, lab if lab != "next" else "loop")
            out = [] if const_true else [(t, "false")]
            if st.orelse and out:
                out = self._build_block(st.orelse, out)
            return out + fr["breaks"]
        if isinstance(st, (ast.For, ast.AsyncFor)):
            it = self._simple(st, preds, "for_iter", [st.iter])
            nx = self._new("for_next", st, [], info={"target": st.target})
            self._edge(it, nx, "next")
            self._exc_from(nx)  # iterator's __next__ is foreign code
            fr = {"type": "loop", "node": st, "head": nx, "breaks": []}
            self._frames.append(fr)
            body_end = self._build_block(st.body, [(nx, "body")])
            self._frames.pop()
            for n, lab in body_end:
                self._edge(n, nx, lab if lab != "next" else "loop")
            out = [(nx, "exhausted")]
            if st.orelse:
                out = self._build_block(st.orelse, out)
            return out + fr["breaks"]
        if isinstance(st, ast.Try) or (hasattr(ast, "TryStar") and isinstance(st, ast.TryStar)):
            return self._build_try(st, preds)
        if isinstance(st, (ast.With, ast.AsyncWith)):
            return self._build_with(st, list(st.items), preds)
        if isinstance(st, ast.Return):
            n = self._simple(st, preds, "return")
            self._jump("return", n, "return")
            return []
        if isinstance(st, ast.Raise):
            n = self._new("raise_stmt", st, _stmt_exprs(st))
            self._connect(preds, n)
            self._exc_from(n)
            return []
        if isinstance(st, ast.Break):
            n = self._simple(st, preds, "break")
            self._jump("break", n, "break")
            return []
        if isinstance(st, ast.Continue):
            n = self._simple(st, preds, "continue")
            self._jump("continue", n, "continue")
            return []
        if isinstance(st, (ast.FunctionDef, ast.AsyncFunctionDef, ast.ClassDef)):
            exprs = list(getattr(st, "decorator_list", []))
            if not isinstance(st, ast.ClassDef):
                exprs += [d for d in st.args.defaults + st.args.kw_defaults if d is not None]
            n = self._simple(st, preds, "def", exprs)
            return [(n, "next")]
        if isinstance(st, ast.Match):  # pragma: no cover - not used by the repo
            raise AnalysisError("match statement not modelled (%s)" % self.func.fq)
        n = self._simple(st, preds)
        return [(n, "next")]

    def _build_with(self, st, items, preds):
        item = items[0]
        en = self._new("with_enter", st, [item.context_expr], info={"item": item})
        self._connect(preds, en)
        self._exc_from(en)
        fr = {"type": "with", "node": st, "item": item}
        self._frames.append(fr)
        if len(items) > 1:
            body_end = self._build_with(st, items[1:], [(en, "next")])
        else:
            body_end = self._build_block(st.body, [(en, "next")])
        self._frames.pop()
        if not body_end:
            return []
        wx = self._new("with_exit", st, lineno=st.lineno, info={"item": item, "via": "normal"})
        self._connect(body_end, wx)
        self._exc_from(wx)
        return [(wx, "next")]

    def _build_try(self, st, preds):
        has_finally = bool(st.finalbody)
        if has_finally:
            ffr = {"type": "finally", "node": st}
            self._frames.append(ffr)
        ends = []
        if st.handlers:
            disp = self._new("dispatch", st, lineno=st.lineno, info={"handlers": st.handlers})
            self._frames.append({"type": "try_body", "node": st, "dispatch": disp})
            body_end = self._build_block(st.body, preds)
            self._frames.pop()
            # else-clause runs outside the handlers' protection
            if st.orelse:
                body_end = self._build_block(st.orelse, body_end)
            ends += body_end
            catch_base = False
            for h in st.handlers:
                hn = self._new("handler", h, lineno=h.lineno, info={"classes": _handler_classes(h)})
                self._edge(disp, hn, "catch")
                ends += self._build_block(h.body, [(hn, "next")])
                if handler_catches_base(h):
                    catch_base = True
                    break
            if not catch_base:
                # exception not matched by any clause propagates outward
                self._exc_from(disp)
                disp.info["propagates"] = True
        else:
            body_end = self._build_block(st.body, preds)
            if st.orelse:
                body_end = self._build_block(st.orelse, body_end)
            ends += body_end
        if has_finally:
            self._frames.pop()
            if ends:
                marker = self._new("finally_enter", st, lineno=st.finalbody[0].lineno, info={"via": "normal"})
                self._connect(ends, marker)
                ends = self._build_block(st.finalbody, [(marker, "next")])
        return ends

    def _prune(self):
        """Drop nodes unreachable from entry (e.g. dispatch nodes of try bodies that
        cannot raise)."""
        seen = {self.entry}
        todo = [self.entry]
        while todo:
            n = todo.pop()
            for s, _ in n.succ:
                if s not in seen:
                    seen.add(s)
                    todo.append(s)
        seen.add(self.exit)
        seen.add(self.raise_exit)
        for n in self.nodes:
            if n not in seen:
                for s, lab in n.succ:
                    s.pred = [(p, l) for (p, l) in s.pred if p is not n]
                n.succ = []
        self.live = [n for n in self.nodes if n in seen]

    # -- queries --------------------------------------------------------
    def n_edges(self):
        return sum(len(n.succ) for n in self.live)

    def nodes_where(self, pred):
        return [n for n in self.live if pred(n)]

    def reach(self, starts, avoid=(), avoid_edges=(), skip_labels=()):
        """Nodes reachable from `starts` (inclusive) without entering `avoid` nodes
        or traversing `avoid_edges` ((src,label) or (src,dst,label) tuples)."""
        avoid = set(avoid)
        avoid_edges = set(avoid_edges)
        seen = set()
        todo = [s for s in starts if s not in avoid]
        seen.update(todo)
        parent = {s: None for s in todo}
        while todo:
            n = todo.pop()
            for s, lab in n.succ:
                if lab in skip_labels:
                    continue
                if (n, lab) in avoid_edges or (n, s, lab) in avoid_edges:
                    continue
                if s in avoid or s in seen:
                    continue
                seen.add(s)
                parent[s] = n
                todo.append(s)
        self._last_parent = parent
        return seen

    def witness(self, target):
        """Path (list of nodes) to `target` from the last reach() call."""
        path = []
        cur = target
        p = self._last_parent
        while cur is not None:
            path.append(cur)
            cur = p.get(cur)
        return list(reversed(path))

    def succ_nodes(self, node, labels=None):
        return [s for s, l in node.succ if labels is None or l in labels]

    RECORD = None  # thorough tier: list collecting every path query for the enumeration cross-check

    def must_pass(self, starts, targets, via, avoid_edges=(), skip_labels=()):
        """True iff every path from any of `starts` to any of `targets` goes through
        a node in `via`.  Returns (ok, witness_path_or_None)."""
        res = self._must_pass(starts, targets, via, avoid_edges, skip_labels)
        if CFG.RECORD is not None:
            CFG.RECORD.append(("must_pass", self, list(starts), list(targets), set(via), set(avoid_edges), tuple(skip_labels), res[0]))
        return res

    def _must_pass(self, starts, targets, via, avoid_edges=(), skip_labels=()):
        via = set(via)
        r = self.reach([s for s in starts if s not in via], avoid=via,
                       avoid_edges=avoid_edges, skip_labels=skip_labels)
        for t in targets:
            if t in r:
                return False, self.witness(t)
        return True, None

    def edge_dominates(self, test_node, label, node):
        """Every path entry -> node traverses the out-edge (test_node, label)."""
        if node is test_node:
            return False
        r = self.reach([self.entry], avoid_edges={(test_node, label)})
        return node not in r

    def guards_of(self, node):
        """All (test_node, label) branch edges that dominate `node`."""
        out = []
        for t in self.live:
            if t.kind in ("test", "for_next"):
                labels = {l for _, l in t.succ}
                for lab in labels:
                    if lab == "exc":
                        continue
                    if self.edge_dominates(t, lab, node):
                        out.append((t, lab))
        return out

    def precedes(self, a_nodes, b_nodes, start=None):
        """On every path from entry (or `start`) to a node of b_nodes, some node of
        a_nodes occurs before.  Returns (ok, witness)."""
        return self.must_pass([start or self.entry], b_nodes, a_nodes)

    def count_range(self, src, dsts, weight, avoid=(), avoid_edges=()):
        """(min,max) total weight of nodes along paths that start at src and end at
        the first arrival at a node of dsts (both inclusive).  max is INF if a
        weighted node lies on a cycle on such a path.  None if no dst is reachable."""
        res = self._count_range(src, dsts, weight, avoid, avoid_edges)
        if CFG.RECORD is not None:
            CFG.RECORD.append(("count_range", self, src, list(dsts), {n: weight(n) for n in self.live}, set(avoid), set(avoid_edges), res))
        return res

    def _count_range(self, src, dsts, weight, avoid=(), avoid_edges=()):
        avoid = set(avoid)
        avoid_edges = set(avoid_edges)
        dset = set(dsts)
        SRC = ("src", src.id)

        def out(n):
            return [s for s, l in n.succ if (n, l) not in avoid_edges and s not in avoid]

        def gs(n):
            if n == SRC:
                return out(src)
            if n in dset:
                return []
            return out(n)

        def wt(n):
            return weight(src) if n == SRC else weight(n)

        fwd = {SRC}
        todo = [SRC]
        while todo:
            n = todo.pop()
            for s in gs(n):
                if s not in fwd:
                    fwd.add(s)
                    todo.append(s)
        ends = [d for d in dset if d in fwd]
        if not ends:
            return None
        rev = {}
        for n in fwd:
            for s in gs(n):
                rev.setdefault(s, []).append(n)
        back = set(ends)
        todo = list(ends)
        while todo:
            n = todo.pop()
            for q in rev.get(n, []):
                if q not in back:
                    back.add(q)
                    todo.append(q)
        region = [n for n in fwd if n in back]
        rset = set(region)

        def rs(n):
            return [s for s in gs(n) if s in rset]

        dist = {n: INF for n in region}
        dist[SRC] = wt(SRC)
        changed = True
        while changed:
            changed = False
            for n in region:
                if dist[n] == INF:
                    continue
                for s in rs(n):
                    d = dist[n] + wt(s)
                    if d < dist[s]:
                        dist[s] = d
                        changed = True
        mn = min(dist[d] for d in ends)
        comps = _sccs(region, rs)
        comp = {}
        for i, c in enumerate(comps):
            for n in c:
                comp[n] = i
        for i, c in enumerate(comps):
            cyclic = len(c) > 1 or any(s == c[0] for s in rs(c[0]))
            if cyclic and any(wt(n) > 0 for n in c):
                return mn, INF
        best = {}
        for i, c in enumerate(comps):  # Tarjan emits sinks first
            w = sum(wt(n) for n in c)
            cand = []
            for n in c:
                for s in rs(n):
                    if comp[s] != i and best.get(comp[s]) is not None:
                        cand.append(best[comp[s]])
            if cand:
                best[i] = w + max(cand)
            elif any(n in dset for n in c):
                best[i] = w
            else:
                best[i] = None
        return mn, best[comp[SRC]]

    def acyclic_paths(self, src, dsts, limit=20000):
        """Enumerate simple paths src -> dst (each node at most once)."""
        dsts = set(dsts)
        out = []
        stack = [(src, [src], {src})]
        while stack:
            n, path, seen = stack.pop()
            if n in dsts:
                out.append(path)
                if len(out) > limit:
                    raise AnalysisError("path explosion in %s" % self.func.fq)
                continue
            for s, _ in n.succ:
                if s not in seen:
                    stack.append((s, path + [s], seen | {s}))
        return out

    def fmt_path(self, path):
        if not path:
            return "<no path>"
        rel = self.func.module.relpath
        return " -> ".join("%s:%s[%s]" % (rel, n.lineno, n.text()[:50]) for n in path
                           if n.kind not in ("join",))


def _sccs(nodes, succ):
    """Tarjan; returns list of components, sinks first."""
    index = {}
    low = {}
    onstack = set()
    stack = []
    out = []
    counter = [0]
    import sys
    sys.setrecursionlimit(max(10000, sys.getrecursionlimit()))

    def visit(v):
        index[v] = low[v] = counter[0]
        counter[0] += 1
        stack.append(v)
        onstack.add(v)
        for w in succ(v):
            if w not in index:
                visit(w)
                low[v] = min(low[v], low[w])
            elif w in onstack:
                low[v] = min(low[v], index[w])
        if low[v] == index[v]:
            comp = []
            while True:
                w = stack.pop()
                onstack.discard(w)
                comp.append(w)
                if w is v:
                    break
            out.append(comp)

    for v in nodes:
        if v not in index:
            visit(v)
    return out


def sccs(nodes, succ):
    return _sccs(nodes, succ)


def _own_walk(fnode):
    from .index import iter_own_nodes
    return iter_own_nodes(fnode)


def _stmt_exprs(st):
    """Expressions evaluated by a simple statement (in evaluation order)."""
    if isinstance(st, ast.Expr):
        return [st.value]
    if isinstance(st, ast.Assign):
        return [st.value] + list(st.targets)
    if isinstance(st, ast.AugAssign):
        return [st.target, st.value]
    if isinstance(st, ast.AnnAssign):
        return [x for x in (st.value, st.target) if x is not None]
    if isinstance(st, ast.Return):
        return [st.value] if st.value is not None else []
    if isinstance(st, ast.Raise):
        return [x for x in (st.exc, st.cause) if x is not None]
    if isinstance(st, ast.Assert):
        return [x for x in (st.test, st.msg) if x is not None]
    if isinstance(st, ast.Delete):
        return list(st.targets)
    return []


def _node_may_raise(n):
    st = n.ast
    if isinstance(st, (ast.Assert, ast.Import, ast.ImportFrom, ast.Delete, ast.AugAssign)):
        return True
    if isinstance(st, ast.Assign):
        for t in st.targets:
            if not isinstance(t, ast.Name) and not (
                isinstance(t, ast.Attribute) and isinstance(t.value, ast.Name) and t.value.id == "self"
            ):
                return True
    return any(expr_may_raise(e) for e in n.exprs)


# ----------------------------------------------------------------------
# calls inside a node, in evaluation order, with a multiplicity flag

def calls_in_expr(e, _cond=False, _many=False, out=None):
    """Yield (Call, multiplicity) with multiplicity in {'once','maybe','many'} for the
    calls evaluated when `e` is evaluated (lambda bodies excluded)."""
    if out is None:
        out = []
    if e is None:
        return out

    def rec(x, cond, many):
        if isinstance(x, ast.Lambda):
            for d in x.args.defaults + [k for k in x.args.kw_defaults if k is not None]:
                rec(d, cond, many)
            return
        if isinstance(x, ast.IfExp):
            rec(x.test, cond, many)
            rec(x.body, True, many)
            rec(x.orelse, True, many)
            return
        if isinstance(x, ast.BoolOp):
            rec(x.values[0], cond, many)
            for v in x.values[1:]:
                rec(v, True, many)
            return
        if isinstance(x, (ast.ListComp, ast.SetComp, ast.GeneratorExp, ast.DictComp)):
            first = True
            for g in x.generators:
                rec(g.iter, cond if first else True, many if first else True)
                first = False
                for c in g.ifs:
                    rec(c, True, True)
            if isinstance(x, ast.DictComp):
                rec(x.key, True, True)
                rec(x.value, True, True)
            else:
                rec(x.elt, True, True)
            return
        if isinstance(x, ast.Call):
            rec(x.func, cond, many)
            for a in x.args:
                rec(a, cond, many)
            for k in x.keywords:
                rec(k.value, cond, many)
            out.append((x, "many" if many else ("maybe" if cond else "once")))
            return
        for ch in ast.iter_child_nodes(x):
            rec(ch, cond, many)

    rec(e, _cond, _many)
    return out


def calls_in_node(n):
    out = []
    for e in n.exprs:
        calls_in_expr(e, out=out)
    return out
