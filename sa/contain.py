"""E5 exception-containment analysis and E8 failure-recursion analysis."""

import ast
from .cfg import handler_catches_all_exceptions, sccs
from .index import iter_own_nodes, unparse


class Source:
    """A point from which an exception may originate: a foreign call or a raise."""

    __slots__ = ("kind", "func", "lineno", "text", "detail", "node")

    def __init__(self, kind, func, lineno, text, detail="", node=None):
        self.kind = kind  # "foreign" | "unknown" | "raise"
        self.func = func
        self.lineno = lineno
        self.text = text
        self.detail = detail
        self.node = node

    @property
    def key(self):
        return "%s:%s:%s" % (self.kind, self.func.fq, " ".join(self.text.split())[:80])

    @property
    def where(self):
        return "%s:%d" % (self.func.module.relpath, self.lineno)

    def __repr__(self):
        return "<Source %s %s %s>" % (self.kind, self.where, self.text[:50])


_STR_METHODS = {"join", "format", "decode", "isoformat", "strip", "rstrip", "lstrip", "replace", "lower", "upper", "title"}
_STR_FUNCS = {"str", "repr", "safeunicode", "saferepr", "_safe_unicode_dictionary", "format", "chr"}


def _known_str(e):
    if isinstance(e, ast.Constant):
        return isinstance(e.value, str)
    if isinstance(e, ast.JoinedStr):
        return True
    if isinstance(e, ast.BinOp) and isinstance(e.op, ast.Add):
        return _known_str(e.left) and _known_str(e.right)
    if isinstance(e, ast.BinOp) and isinstance(e.op, ast.Mod) and isinstance(e.left, ast.Constant) and isinstance(e.left.value, str):
        return True
    if isinstance(e, ast.Call):
        if isinstance(e.func, ast.Attribute) and e.func.attr in _STR_METHODS:
            return True
        if isinstance(e.func, ast.Name) and e.func.id in _STR_FUNCS:
            return True
    return False


def _flatten_add(e, out):
    if isinstance(e, ast.BinOp) and isinstance(e.op, ast.Add):
        _flatten_add(e.left, out)
        _flatten_add(e.right, out)
    else:
        out.append(e)


def _untyped_str_concat(n):
    """Top-level `a + "lit" + b` where some operand is an attribute chain of an object the
    library does not own (e.g. exception.__class__.__module__): `+` raises TypeError
    if that attribute is not a str, whereas %-formatting never does."""
    ops = []
    _flatten_add(n, ops)
    if not any(isinstance(o, ast.Constant) and isinstance(o.value, str) for o in ops):
        return False
    bad = [o for o in ops if not _known_str(o) and isinstance(o, ast.Attribute) and not (isinstance(o.value, ast.Name) and o.value.id == "self")]
    return bool(bad)


def handler_reraises(h):
    """Does the handler body contain a bare `raise` (or `raise <bound name>`) at its own
    level (not inside a nested try that catches it again)?"""
    for n in ast.walk(ast.Module(body=h.body, type_ignores=[])):
        if isinstance(n, ast.Raise):
            if n.exc is None:
                return True
            if h.name and isinstance(n.exc, ast.Name) and n.exc.id == h.name:
                return True
    return False


def protecting_handler(ctx):
    """Innermost enclosing try whose *body* contains the node and that has a handler
    catching at least Exception without re-raising.  Returns (Try, handler) or None."""
    for entry in reversed(ctx):
        if entry[1] == "body":
            tr = entry[0]
            for h in tr.handlers:
                if handler_catches_all_exceptions(h):
                    if not handler_reraises(h):
                        return tr, h
                    break  # a catch-all that re-raises shadows later clauses
    return None


def narrow_handlers(ctx):
    """Enclosing try bodies whose handlers are all narrower than Exception (for
    diagnostics: 'handler too narrow')."""
    out = []
    for entry in reversed(ctx):
        if entry[1] == "body":
            tr = entry[0]
            if tr.handlers and not any(handler_catches_all_exceptions(h) for h in tr.handlers):
                out.append(tr)
    return out


def in_handler(ctx):
    return any(e[1] == "handler" for e in ctx)


class Containment:
    def __init__(self, cg, sync_callbacks=True):
        self.cg = cg
        self.p = cg.p
        self.local = {}  # FuncInfo -> [(Source, protected?)]
        self.U = {}  # FuncInfo -> {source.key: (Source, via CallSite or None)}
        self._collect()
        self._fixpoint()

    def _collect(self):
        cg = self.cg
        for f in self.p.all_funcs(prod_only=False):
            lst = []
            ctxmap = cg.ctxmaps[f]
            for s in cg.sites.get(f, []):
                k = cg.classify(s)
                if k in ("foreign", "unknown"):
                    det = "; ".join(t.detail or str(t.ref) for t in s.targets if t.kind in ("foreign", "unknown", "ext", "builtin"))
                    src = Source(k, f, s.lineno, s.text, det, s.call)
                    lst.append((src, protecting_handler(s.ctx) is not None, s.ctx))
            inner_adds = set()
            for n in iter_own_nodes(f.node):
                if isinstance(n, ast.BinOp) and isinstance(n.op, ast.Add):
                    for ch in (n.left, n.right):
                        if isinstance(ch, ast.BinOp) and isinstance(ch.op, ast.Add):
                            inner_adds.add(id(ch))
            for n in iter_own_nodes(f.node):
                if isinstance(n, ast.BinOp) and isinstance(n.op, ast.Add) and id(n) not in inner_adds and _untyped_str_concat(n):
                    ctx = ctxmap.get(id(n), [])
                    src = Source("foreign", f, n.lineno, unparse(n), "str + <attribute of a caller-supplied object>: TypeError unless it is a str", n)
                    lst.append((src, protecting_handler(ctx) is not None, ctx))
                if isinstance(n, ast.Raise):
                    ctx = ctxmap.get(id(n), [])
                    cls = ""
                    if n.exc is not None:
                        e = n.exc.func if isinstance(n.exc, ast.Call) else n.exc
                        cls = unparse(e)
                    src = Source("raise", f, n.lineno, unparse(n), cls, n)
                    lst.append((src, protecting_handler(ctx) is not None, ctx))
            self.local[f] = lst

    def _recursion_sources(self):
        """A function that can call itself again (directly or through other repo functions)
        outside any failure handler recurses as deep as the caller's data is nested:
        RecursionError is a raise source located at the recursive call site."""
        cg = self.cg
        funcs = [f for f in self.p.all_funcs(prod_only=True)]
        fset = set(funcs)
        succ = {}
        for f in funcs:
            fsites = {id(s.call) for s, _how in failure_sites(cg, f) if s.call is not None}
            out = []
            for s in cg.sites.get(f, []):
                if s.call is None or id(s.call) in fsites:
                    continue
                for g in self._callees(s):
                    if g in fset:
                        out.append((g, s))
            succ[f] = out
        comps = sccs(funcs, lambda f: [g for g, s in succ.get(f, [])])
        for comp in comps:
            cset = set(comp)
            cyclic = len(comp) > 1 or any(g is comp[0] for g, s in succ.get(comp[0], []))
            if not cyclic:
                continue
            for f in comp:
                for g, s in succ.get(f, []):
                    if g in cset:
                        src = Source("foreign", f, s.lineno, s.text, "recursive call: recursion depth follows the nesting of the data given by the caller (RecursionError)", s.call)
                        self.local[f].append((src, protecting_handler(s.ctx) is not None, s.ctx))

    def _fixpoint(self):
        cg = self.cg
        self._recursion_sources()
        funcs = list(self.p.all_funcs(prod_only=False))
        for f in funcs:
            self.U[f] = {}
            for src, prot, _ in self.local[f]:
                if not prot:
                    self.U[f][src.key] = (src, None)
        changed = True
        while changed:
            changed = False
            for f in funcs:
                for s in cg.sites.get(f, []):
                    if protecting_handler(s.ctx) is not None:
                        continue
                    for g in self._callees(s):
                        for key, (src, _) in self.U.get(g, {}).items():
                            if key not in self.U[f]:
                                self.U[f][key] = (src, s)
                                changed = True

    def _callees(self, site):
        out = list(site.repo_targets())
        # synchronous callbacks: context.run(go) runs `go` on the caller's stack
        if site.call is not None:
            for t in site.targets:
                if t.kind == "ext" and t.ref.endswith(".run") and site.call.args:
                    for tt in self.cg.typer.type_of(site.func, site.call.args[0]):
                        if isinstance(tt, tuple) and tt[0] == "funcobj":
                            out.append(tt[1])
        return out

    def escaping(self, f):
        """[(Source, call path as list of CallSite)] for every source that can leave f."""
        out = []
        for key, (src, via) in sorted(self.U.get(f, {}).items()):
            path = []
            cur_f, cur_via = f, via
            guard = 0
            while cur_via is not None and guard < 50:
                path.append(cur_via)
                nxt = None
                for g in self._callees(cur_via):
                    if key in self.U.get(g, {}):
                        nxt = g
                        break
                if nxt is None:
                    break
                cur_f = nxt
                cur_via = self.U[nxt][key][1]
                guard += 1
            out.append((src, path))
        return out

    def fmt_path(self, f, src, path):
        parts = [f.fq]
        for s in path:
            parts.append("%s@%s" % (s.text.split("(")[0][:40], s.where))
        parts.append("%s '%s' @%s" % (src.kind, " ".join(src.text.split())[:60], src.where))
        return " -> ".join(parts)


# ---------------------------------------------------------------------------
# E8

def failure_sites(cg, f):
    """Call sites of f that run *because an exception was caught*: lexically inside an
    except body, or inside a loop over a list that is appended to inside an except
    body (deferred error reporting, as in Destinations.send)."""
    out = []
    deferred = set()
    ctxmap = cg.ctxmaps[f]
    for n in iter_own_nodes(f.node):
        if isinstance(n, ast.Call) and isinstance(n.func, ast.Attribute) and n.func.attr in ("append", "add", "extend") \
                and isinstance(n.func.value, ast.Name) and in_handler(ctxmap.get(id(n), [])):
            deferred.add(n.func.value.id)
    loops = []
    for n in iter_own_nodes(f.node):
        if isinstance(n, ast.For) and isinstance(n.iter, ast.Name) and n.iter.id in deferred:
            loops.append(n)
    in_loop = set()
    for lp in loops:
        for st in lp.body:
            for n in ast.walk(st):
                in_loop.add(id(n))
    for s in cg.sites.get(f, []):
        if in_handler(s.ctx):
            out.append((s, "except-body"))
        elif s.call is not None and id(s.call) in in_loop:
            out.append((s, "deferred-error-loop"))
    return out


def reachable_funcs(cg, start_funcs, callees):
    seen = set(start_funcs)
    todo = list(start_funcs)
    while todo:
        g = todo.pop()
        for s in cg.sites.get(g, []):
            for h in callees(s):
                if h not in seen:
                    seen.add(h)
                    todo.append(h)
    return seen


def reentry_edges(cg, contain, funcs):
    """All (func, site, how) where `site` is a failure site of func whose callee can
    reach func again through the call graph (a failure handler re-entering the
    machinery that failed)."""
    out = []
    for f in funcs:
        for s, how in failure_sites(cg, f):
            tg = contain._callees(s)
            if not tg:
                continue
            r = reachable_funcs(cg, tg, contain._callees)
            if f in r:
                out.append((f, s, how))
    return out
