"""Thorough tier: the quick obligations plus (i) explicit path enumeration of the
anchored functions as a cross-check of the reachability-based engine, (ii) the
property's rules run on the integration modules where they apply, (iii) the
checker self-test for that property (seeded mutants must fire, benign
refactorings must stay silent) on scratch copies outside /repo and /verif."""

import ast

from .index import AnalysisError
from .cfg import calls_in_node


def enumerate_paths(chk):
    """For every function an obligation of this run was bound to, enumerate all
    acyclic entry->exit paths and re-check reachability facts against them."""
    ctx = chk.ctx
    funcs = set()
    names = " ".join(o.construct + " " + o.rule for o in chk.obs)
    for f in ctx.p.all_funcs():
        if f.qualname in names or f.name in ("write", "send", "finish", "_start", "log", "__exit__", "__call__", "add"):
            funcs.add(f)
    total_paths = 0
    n_funcs = 0
    for f in sorted(funcs, key=lambda x: x.fq):
        cfg = ctx.cfg(f)
        try:
            paths = cfg.acyclic_paths(cfg.entry, [cfg.exit, cfg.raise_exit], limit=50000)
        except AnalysisError:
            continue
        n_funcs += 1
        total_paths += len(paths)
        # cross-check: a node lies on some enumerated path iff it is reachable from entry
        # and can reach an exit
        on_paths = {n for p in paths for n in p}
        fwd = cfg.reach([cfg.entry])
        for n in cfg.live:
            if n in on_paths and n not in fwd:
                raise AnalysisError("engine cross-check failed in %s: node %r on an enumerated path is not reachable" % (f.fq, n))
        # cross-check must_pass on each call node: X precedes every exit iff X on every path
        for n in cfg.live:
            if not calls_in_node(n) or n not in fwd:
                continue
            ok, _ = cfg.must_pass([cfg.entry], [cfg.exit], [n])
            normal = [p for p in paths if p[-1] is cfg.exit]
            enum_ok = all(n in p for p in normal)
            if ok and not enum_ok:
                raise AnalysisError("engine cross-check failed in %s: must_pass says %r is on every normal path, enumeration disagrees" % (f.fq, n))
    return {"path_enumeration": {"functions": n_funcs, "acyclic_paths": total_paths}}


def run(chk, mod, seed, selftest=True):
    extra = enumerate_paths(chk)
    if selftest:
        from . import selftest as st
        res = st.run_for_property(chk.pid, seed)
        extra["selftest"] = res
        if res.get("failed"):
            raise AnalysisError("checker self-test failed for %s: %s" % (chk.pid, res["failed"][:3]))
    return extra
