"""Thorough tier: the quick obligations plus (i) explicit path enumeration of the
anchored functions as a cross-check of the reachability-based engine, (ii) the
property's rules run on the integration modules where they apply, (iii) the
checker self-test for that property (seeded mutants must fire, benign
refactorings must stay silent) on scratch copies outside /repo and /verif."""

import ast

from .index import AnalysisError
from .cfg import calls_in_node


def enumerate_paths(chk):
    """For every function an obligation of this run was bound to, enumerate all
    acyclic entry->exit paths and re-check reachability facts against them."""
    ctx = chk.ctx
    funcs = set()
    names = " ".join(o.construct + " " + o.rule for o in chk.obs)
    for f in ctx.p.all_funcs():
        if f.qualname in names or f.name in ("write", "send", "finish", "_start", "log", "__exit__", "__call__", "add"):
            funcs.add(f)
    total_paths = 0
    n_funcs = 0
    for f in sorted(funcs, key=lambda x: x.fq):
        cfg = ctx.cfg(f)
        try:
            paths = cfg.acyclic_paths(cfg.entry, [cfg.exit, cfg.raise_exit], limit=50000)
        except AnalysisError:
            continue
        n_funcs += 1
        total_paths += len(paths)
        # cross-check: a node lies on some enumerated path iff it is reachable from entry
        # and can reach an exit
        on_paths = {n for p in paths for n in p}
        fwd = cfg.reach([cfg.entry])
        for n in cfg.live:
            if n in on_paths and n not in fwd:
                raise AnalysisError("engine cross-check failed in %s: node %r on an enumerated path is not reachable" % (f.fq, n))
        # cross-check must_pass on each call node: X precedes every exit iff X on every path
        for n in cfg.live:
            if not calls_in_node(n) or n not in fwd:
                continue
            ok, _ = cfg.must_pass([cfg.entry], [cfg.exit], [n])
            normal = [p for p in paths if p[-1] is cfg.exit]
            enum_ok = all(n in p for p in normal)
            if ok and not enum_ok:
                raise AnalysisError("engine cross-check failed in %s: must_pass says %r is on every normal path, enumeration disagrees" % (f.fq, n))
    return {"path_enumeration": {"functions": n_funcs, "acyclic_paths": total_paths}}


def _simple_paths(cfg, starts, stop, avoid_nodes, avoid_edges, skip_labels=(), limit=200000):
    """All simple paths from any start until the first node in `stop` (inclusive) or a dead end."""
    out = []
    stack = [(s, (s,)) for s in starts if s not in avoid_nodes]
    n = 0
    while stack:
        node, path = stack.pop()
        n += 1
        if n > limit:
            raise AnalysisError("path explosion during the enumeration cross-check in %s" % cfg.func.fq)
        if node in stop and len(path) >= 1 and (len(path) > 1 or node in starts and False):
            out.append(path)
            continue
        if node in stop and len(path) == 1:
            out.append(path)
            continue
        ext = False
        for s, lab in node.succ:
            if lab in skip_labels or (node, lab) in avoid_edges or (node, s, lab) in avoid_edges or s in avoid_nodes or s in path:
                continue
            stack.append((s, path + (s,)))
            ext = True
    return out


def cross_check_queries(records):
    """Recompute every recorded must_pass / count_range answer by explicit enumeration of
    simple paths; any disagreement is an engine error."""
    n_mp = n_cr = n_paths = 0
    for rec in records:
        if rec[0] == "must_pass":
            _, cfg, starts, targets, via, avoid_edges, skip_labels, ok = rec
            tset = set(targets)
            starts2 = [s for s in starts if s not in via]
            paths = _simple_paths(cfg, starts2, tset, via, avoid_edges, skip_labels)
            n_paths += len(paths)
            enum_ok = not any(p[-1] in tset for p in paths)
            if enum_ok != ok:
                raise AnalysisError("engine cross-check: must_pass disagrees with path enumeration in %s (%s vs %s)" % (cfg.func.fq, ok, enum_ok))
            n_mp += 1
        else:
            _, cfg, src, dsts, w, avoid, avoid_edges, res = rec
            dset = set(dsts)
            best_min = best_max = None
            stack = [(s, (src, s), w[src] + w.get(s, 0)) for s, lab in src.succ if (src, lab) not in avoid_edges and s not in avoid]
            cnt = 0
            while stack:
                node, path, tot = stack.pop()
                cnt += 1
                if cnt > 200000:
                    raise AnalysisError("path explosion during the enumeration cross-check in %s" % cfg.func.fq)
                if node in dset:
                    best_min = tot if best_min is None else min(best_min, tot)
                    best_max = tot if best_max is None else max(best_max, tot)
                    continue
                for s, lab in node.succ:
                    if (node, lab) in avoid_edges or s in avoid:
                        continue
                    if s in path[1:] :
                        continue
                    stack.append((s, path + (s,), tot + w.get(s, 0)))
            n_paths += cnt
            if res is None:
                if best_min is not None:
                    raise AnalysisError("engine cross-check: count_range says unreachable, enumeration found a path in %s" % cfg.func.fq)
            else:
                if best_min != res[0]:
                    raise AnalysisError("engine cross-check: count_range min %s vs enumerated %s in %s" % (res[0], best_min, cfg.func.fq))
                if res[1] != float("inf") and best_max != res[1]:
                    raise AnalysisError("engine cross-check: count_range max %s vs enumerated %s in %s" % (res[1], best_max, cfg.func.fq))
            n_cr += 1
    return {"queries_cross_checked": {"must_pass": n_mp, "count_range": n_cr, "simple_paths_enumerated": n_paths}}


def run(chk, mod, seed, selftest=True):
    extra = enumerate_paths(chk)
    if selftest:
        from . import selftest as st
        res = st.run_for_property(chk.pid, seed)
        extra["selftest"] = res
        if res.get("failed"):
            raise AnalysisError("checker self-test failed for %s: %s" % (chk.pid, res["failed"][:3]))
    return extra
