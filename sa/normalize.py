"""Canonical form of the parsed sources, applied before any rule looks at them, so that the verdicts do
not depend on incidental choices of how equivalent code is written:

N1  `if not C: A else: B`            ->  `if C: B else: A`            (only when there is a real else block)
N2  `t = E` directly followed by `return t`, every binding and every read of t in the function being such a pair
                                     ->  `return E`

N3  `x: T = E` -> `x = E`; a bare annotation `x: T` is dropped           (annotations carry no behaviour)
N4  statement `yield from E`  ->  `for _yf in E: yield _yf`                 (for the analyses, which only follow what is yielded)
N5  `dict((k, v) for ...)` / `dict([(k, v) for ...])`  ->  `{k: v for ...}`
N6  `except BaseException:` -> bare `except:`                               (same set of exceptions)
N8  `x = A if C else B` -> `if C: x = A` / `else: x = B`; `return A if C else B` likewise   (same evaluation order)
N9  a local bound exactly once to a call-free expression over names that are never re-bound in the function
    (`cls = exc.__class__`, `write = self.file.write`, `key = K`) is replaced by that expression at its uses and the
    binding dropped; temporaries holding the result of a call are NOT touched (where a call happens is behaviour)
N10 `t = E` (E may contain calls) directly followed by a statement whose header expression (if-test, return value,
    assigned value, expression statement) reads t exactly once, before any call of that header is made, t being read
    nowhere else: E is substituted there and the binding dropped (evaluation order is unchanged)
N11 `a, b = X, Y` with as many values as (plain local) targets, no value mentioning a target  ->  `a = X`, `b = Y`
N12 an f-string made only of literal text and plain `{expr}` fields  ->  `"...{}...".format(expr, ...)`
N13 `[f(x) for x in xs]` / `(f(x) for x in xs)` (one plain name f applied to the loop variable, no condition)  ->  `map(f, xs)`
    where the result is only iterated (argument of join / list / tuple / set / sorted / a for loop)
N14 `x = []` directly followed by `for t in it: [if c:] x.append(E)` (nothing else in the loop)  ->  `x = [E for t in it if c]`
    (the comprehension is the canonical form of "collect E for every element"; rules read both through one view)
N15 `while (x := E) <op> Y: body`  ->  `while True: x = E; if <negated test on x>: break; body`   (no else clause)
N16 `getattr(x, "name")` with a literal identifier and no default  ->  `x.name`
N17 copy coalescing: in one statement list, `x = t` where every other occurrence of the local t lies in the statements
    before it (from t's first occurrence on) and x does not occur in that stretch: t is renamed to x there and the copy
    is dropped (`tmp = {}; tmp[k] = v; fields = tmp`  ->  `fields = {}; fields[k] = v`)
N18 inside a class with exactly one base B: `super().m(...)` / `super(C, self).m(...)`  ->  `B.m(self, ...)`
    (`B.__new__(cls, ...)` keeps its explicit first argument) -- the explicit spelling of the same call under single inheritance
N19 a list comprehension that is only iterated by its consumer (`join`, `list`, `tuple`, `set`, `sorted`, `any`, `all`, `sum`,
    `min`, `max`, `dict`, `OrderedDict`)  ->  the generator expression
N20 `a, b = t` where t is only ever bound to tuple displays of that length in the statements just before (e.g. on the
    branches of an if or a for/else) and read nowhere else: every `t = (X, Y)` becomes `a = X; b = Y` and the unpacking goes
N7  (Program level, propagate_constants) a name that resolves to a module-level constant of the package bound exactly
    once to a str/bytes/number/bool/None literal is replaced by that literal, so that a literal and a named
    constant with the same value are the same thing to every rule.

All rewrites are semantics preserving as far as the analyses are concerned; node positions are kept (the rewritten return keeps the position
of the original assignment's value so reports still point at the computing line)."""

import ast


def evaluation_order(expr):
    """Nodes of an expression in the order in which their evaluation completes (children in evaluation order, then the
    node).  Dict displays evaluate key, value, key, value...; everything else follows the field order of the ast."""
    out = []

    def visit(n):
        if isinstance(n, ast.Dict):
            for k, v in zip(n.keys, n.values):
                if k is not None:
                    visit(k)
                visit(v)
        elif isinstance(n, (ast.Lambda, ast.ListComp, ast.SetComp, ast.DictComp, ast.GeneratorExp)):
            pass  # body evaluated later / repeatedly: callers treat these as opaque
        else:
            for ch in ast.iter_child_nodes(n):
                visit(ch)
        out.append(n)
    visit(expr)
    return out


def _n1(node):
    for child in ast.walk(node):
        if isinstance(child, ast.If) and child.orelse and not (len(child.orelse) == 1 and isinstance(child.orelse[0], ast.If)):
            t = child.test
            if isinstance(t, ast.UnaryOp) and isinstance(t.op, ast.Not):
                child.test = t.operand
                child.body, child.orelse = child.orelse, child.body


def _own_names(func):
    """Name nodes in func's own scope (not inside nested defs/lambdas/classes)."""
    out = []
    todo = list(ast.iter_child_nodes(func))
    while todo:
        n = todo.pop()
        if isinstance(n, (ast.FunctionDef, ast.AsyncFunctionDef, ast.Lambda, ast.ClassDef)):
            # names a nested scope uses without binding them itself may be closures over ours
            bound = set()
            if not isinstance(n, ast.ClassDef):
                a = n.args
                bound |= {x.arg for x in a.posonlyargs + a.args + a.kwonlyargs}
                bound |= {x.arg for x in (a.vararg, a.kwarg) if x is not None}
            for x in ast.walk(n):
                if isinstance(x, ast.Name) and isinstance(x.ctx, ast.Store):
                    bound.add(x.id)
            for x in ast.walk(n):
                if isinstance(x, (ast.Global, ast.Nonlocal)):
                    bound -= set(x.names)
            for x in ast.walk(n):
                if isinstance(x, ast.Name) and x.id not in bound:
                    out.append((x, True))
            continue
        if isinstance(n, ast.Name):
            out.append((n, False))
        todo.extend(ast.iter_child_nodes(n))
    return out


def _n2_function(func):
    names = _own_names(func)
    stores, loads, nested = {}, {}, set()
    for n, in_nested in names:
        if in_nested:
            nested.add(n.id)
        elif isinstance(n.ctx, ast.Store):
            stores[n.id] = stores.get(n.id, 0) + 1
        elif isinstance(n.ctx, ast.Load):
            loads[n.id] = loads.get(n.id, 0) + 1
        else:
            stores[n.id] = stores.get(n.id, 0) + 2
    params = {a.arg for a in func.args.posonlyargs + func.args.args + func.args.kwonlyargs}
    if func.args.vararg:
        params.add(func.args.vararg.arg)
    if func.args.kwarg:
        params.add(func.args.kwarg.arg)
    declared = set()
    for x in ast.walk(func):
        if isinstance(x, (ast.Global, ast.Nonlocal)):
            declared |= set(x.names)

    def is_pair(a, b):
        return isinstance(a, ast.Assign) and len(a.targets) == 1 and isinstance(a.targets[0], ast.Name) and isinstance(b, ast.Return) \
            and isinstance(b.value, ast.Name) and b.value.id == a.targets[0].id

    def blocks():
        for x in ast.walk(func):
            if x is not func and isinstance(x, (ast.FunctionDef, ast.AsyncFunctionDef, ast.ClassDef)):
                continue
            for field in ("body", "orelse", "finalbody"):
                v = getattr(x, field, None)
                if isinstance(v, list) and v and isinstance(v[0], ast.stmt):
                    yield v
            if isinstance(x, ast.ExceptHandler):
                yield x.body
    # a temporary may be used for several returns, as long as every store/load of it is one of these pairs
    pairs = {}
    for v in blocks():
        for a, b in zip(v, v[1:]):
            if is_pair(a, b):
                pairs[a.targets[0].id] = pairs.get(a.targets[0].id, 0) + 1

    def fix_block(stmts):
        i = 0
        while i + 1 < len(stmts):
            a, b = stmts[i], stmts[i + 1]
            if is_pair(a, b):
                t = a.targets[0].id
                if stores.get(t) == pairs.get(t) and loads.get(t) == pairs.get(t) and t not in params and t not in nested and t not in declared:
                    new = ast.Return(value=a.value)
                    ast.copy_location(new, a)
                    new.end_lineno = getattr(b, "end_lineno", getattr(a, "end_lineno", None))
                    stmts[i:i + 2] = [new]
                    continue
            i += 1

    for v in list(blocks()):
        fix_block(v)


def _n2(tree):
    for f in ast.walk(tree):
        if isinstance(f, (ast.FunctionDef, ast.AsyncFunctionDef)):
            _n2_function(f)



class _N3456(ast.NodeTransformer):
    def visit_AnnAssign(self, node):
        self.generic_visit(node)
        if node.value is None:
            return None
        new = ast.Assign(targets=[node.target], value=node.value)
        return ast.copy_location(new, node)

    def visit_Expr(self, node):
        self.generic_visit(node)
        if isinstance(node.value, ast.YieldFrom):
            tgt = ast.Name(id="_yf", ctx=ast.Store())
            y = ast.Expr(value=ast.Yield(value=ast.Name(id="_yf", ctx=ast.Load())))
            loop = ast.For(target=tgt, iter=node.value.value, body=[y], orelse=[])
            for x in (tgt, y, y.value, y.value.value, loop):
                ast.copy_location(x, node)
            return loop
        return node

    @staticmethod
    def _as_map(c):
        if isinstance(c, (ast.ListComp, ast.GeneratorExp)) and len(c.generators) == 1 and not c.generators[0].ifs and not c.generators[0].is_async \
                and isinstance(c.generators[0].target, ast.Name) and isinstance(c.elt, ast.Call) and isinstance(c.elt.func, ast.Name) \
                and len(c.elt.args) == 1 and not c.elt.keywords and isinstance(c.elt.args[0], ast.Name) and c.elt.args[0].id == c.generators[0].target.id:
            new = ast.Call(func=ast.Name(id="map", ctx=ast.Load()), args=[c.elt.func, c.generators[0].iter], keywords=[])
            ast.copy_location(new.func, c)
            return ast.copy_location(new, c)
        return None

    def visit_Call(self, node):
        self.generic_visit(node)
        consumer = (isinstance(node.func, ast.Attribute) and node.func.attr == "join") or (isinstance(node.func, ast.Name) and node.func.id in ("list", "tuple", "set", "frozenset", "sorted"))
        if consumer and len(node.args) == 1 and not node.keywords:
            m = self._as_map(node.args[0])
            if m is not None:
                node.args[0] = m
        consumer2 = consumer or (isinstance(node.func, ast.Name) and node.func.id in ("any", "all", "sum", "min", "max", "dict", "OrderedDict"))
        if consumer2 and len(node.args) >= 1 and isinstance(node.args[0], ast.ListComp):
            g = ast.GeneratorExp(elt=node.args[0].elt, generators=node.args[0].generators)
            node.args[0] = ast.copy_location(g, node.args[0])
        if isinstance(node.func, ast.Name) and node.func.id == "getattr" and len(node.args) == 2 and not node.keywords \
                and isinstance(node.args[1], ast.Constant) and isinstance(node.args[1].value, str) and node.args[1].value.isidentifier():
            return ast.copy_location(ast.Attribute(value=node.args[0], attr=node.args[1].value, ctx=ast.Load()), node)
        if isinstance(node.func, ast.Name) and node.func.id == "dict" and len(node.args) == 1 and not node.keywords \
                and isinstance(node.args[0], (ast.GeneratorExp, ast.ListComp)) and isinstance(node.args[0].elt, ast.Tuple) and len(node.args[0].elt.elts) == 2:
            c = node.args[0]
            new = ast.DictComp(key=c.elt.elts[0], value=c.elt.elts[1], generators=c.generators)
            return ast.copy_location(new, node)
        return node

    def visit_JoinedStr(self, node):
        self.generic_visit(node)
        fmt, args = "", []
        for v in node.values:
            if isinstance(v, ast.Constant) and isinstance(v.value, str):
                fmt += v.value.replace("{", "{{").replace("}", "}}")
            elif isinstance(v, ast.FormattedValue) and v.conversion == -1 and v.format_spec is None:
                fmt += "{}"
                args.append(v.value)
            else:
                return node
        new = ast.Call(func=ast.Attribute(value=ast.Constant(value=fmt), attr="format", ctx=ast.Load()), args=args, keywords=[])
        for x in ast.walk(new):
            if not hasattr(x, "lineno"):
                ast.copy_location(x, node)
        return ast.copy_location(new, node)

    def visit_ExceptHandler(self, node):
        self.generic_visit(node)
        if isinstance(node.type, ast.Name) and node.type.id == "BaseException" and node.name is None:
            node.type = None
        return node

    def _fix_empty(self, node):
        for field in ("body", "orelse", "finalbody"):
            v = getattr(node, field, None)
            if isinstance(v, list) and field == "body" and not v:
                p = ast.Pass()
                ast.copy_location(p, node)
                v.append(p)

    def generic_visit(self, node):
        super().generic_visit(node)
        if isinstance(node, (ast.FunctionDef, ast.AsyncFunctionDef, ast.ClassDef, ast.If, ast.For, ast.While, ast.With, ast.Try, ast.ExceptHandler)):
            self._fix_empty(node)
        return node


class _N11(ast.NodeTransformer):
    def visit_Assign(self, node):
        if len(node.targets) == 1 and isinstance(node.targets[0], (ast.Tuple, ast.List)) and isinstance(node.value, (ast.Tuple, ast.List)) \
                and len(node.targets[0].elts) == len(node.value.elts) and all(isinstance(t, ast.Name) for t in node.targets[0].elts) \
                and not any(isinstance(y, (ast.Yield, ast.YieldFrom, ast.Await, ast.NamedExpr, ast.Starred)) for v in node.value.elts for y in ast.walk(v)):
            # values are evaluated left to right either way; only local names are bound, and none of them is read by a later value
            names = {t.id for t in node.targets[0].elts}
            if not any(isinstance(y, ast.Name) and y.id in names for v in node.value.elts for y in ast.walk(v)):
                out = []
                for t, v in zip(node.targets[0].elts, node.value.elts):
                    out.append(ast.copy_location(ast.Assign(targets=[t], value=v), node))
                return out
        return node


class _N8(ast.NodeTransformer):
    def _split(self, node, make):
        v = node.value
        if isinstance(v, ast.IfExp):
            a = make(v.body)
            b = make(v.orelse)
            new = ast.If(test=v.test, body=[a], orelse=[b])
            for x in (a, b, new):
                ast.copy_location(x, node)
            return self.visit(new)
        return node

    def visit_Assign(self, node):
        self.generic_visit(node)
        return self._split(node, lambda val: ast.Assign(targets=[_copy(t) for t in node.targets], value=val))

    def visit_Return(self, node):
        self.generic_visit(node)
        if node.value is None:
            return node
        return self._split(node, lambda val: ast.Return(value=val))

    def visit_Lambda(self, node):
        return node


def _copy(t):
    import copy
    return copy.deepcopy(t)


def _pure(e):
    """call-free, side-effect-free to evaluate as far as the analyses care: names, constants, attribute chains,
    subscripts/slices with pure parts, tuples of those"""
    if isinstance(e, (ast.Name, ast.Constant)):
        return True
    if isinstance(e, ast.Attribute):
        return _pure(e.value)
    if isinstance(e, ast.Subscript):
        # an index reads an existing object; a slice builds a new one each time it is evaluated
        return not isinstance(e.slice, ast.Slice) and _pure(e.value) and _pure(e.slice)
    if isinstance(e, ast.UnaryOp) and isinstance(e.op, (ast.USub, ast.Not)):
        return _pure(e.operand)
    if isinstance(e, ast.Compare) and all(isinstance(o, (ast.Is, ast.IsNot)) for o in e.ops):
        return _pure(e.left) and all(_pure(c) for c in e.comparators)  # identity tests run no user code
    if isinstance(e, ast.BoolOp):
        return all(_pure(v) for v in e.values)
    return False


def _n9_function(func):
    import copy
    names = _own_names(func)
    stores, nested = {}, set()
    for n, in_nested in names:
        if in_nested:
            nested.add(n.id)
        elif not isinstance(n.ctx, ast.Load):
            stores[n.id] = stores.get(n.id, 0) + 1
    params = {a.arg for a in func.args.posonlyargs + func.args.args + func.args.kwonlyargs}
    for a in (func.args.vararg, func.args.kwarg):
        if a is not None:
            params.add(a.arg)
    declared = set()
    for x in ast.walk(func):
        if isinstance(x, (ast.Global, ast.Nonlocal)):
            declared |= set(x.names)
    # names bound by loops / with / except / comprehension targets / augmented assignment are never temporaries
    special = set()
    for x in ast.walk(func):
        if isinstance(x, (ast.For, ast.AsyncFor, ast.comprehension)):
            special |= {y.id for y in ast.walk(x.target) if isinstance(y, ast.Name)}
        elif isinstance(x, (ast.With, ast.AsyncWith)):
            for it in x.items:
                if it.optional_vars is not None:
                    special |= {y.id for y in ast.walk(it.optional_vars) if isinstance(y, ast.Name)}
        elif isinstance(x, ast.ExceptHandler) and x.name:
            special.add(x.name)
        elif isinstance(x, ast.AugAssign) and isinstance(x.target, ast.Name):
            special.add(x.target.id)
        elif isinstance(x, ast.NamedExpr) and isinstance(x.target, ast.Name):
            special.add(x.target.id)
    # attribute names / subscripted bases stored to anywhere in the function: an alias of such a location is a snapshot, not a synonym
    stored_attrs, stored_sub_bases = set(), set()
    for x in ast.walk(func):
        if isinstance(x, ast.Attribute) and not isinstance(x.ctx, ast.Load):
            stored_attrs.add(x.attr)
        elif isinstance(x, ast.Subscript) and not isinstance(x.ctx, ast.Load):
            stored_sub_bases.add(ast.unparse(x.value))
        elif isinstance(x, ast.Call) and isinstance(x.func, ast.Name) and x.func.id in ("setattr", "delattr") and len(x.args) >= 2:
            stored_attrs.add("*")

    def location_stable(e):
        for y in ast.walk(e):
            if isinstance(y, ast.Attribute) and (y.attr in stored_attrs or "*" in stored_attrs):
                return False
            if isinstance(y, ast.Subscript) and ast.unparse(y.value) in stored_sub_bases:
                return False
        return True

    def loads_in(nodes, t):
        k = 0
        for nd in nodes:
            for y in ast.walk(nd):
                if isinstance(y, ast.Name) and y.id == t and isinstance(y.ctx, ast.Load):
                    k += 1
        return k
    total_loads = {}
    for n, in_nested in names:
        if not in_nested and isinstance(n.ctx, ast.Load):
            total_loads[n.id] = total_loads.get(n.id, 0) + 1

    class Sub(ast.NodeTransformer):
        def __init__(self, t, value):
            self.t, self.value = t, value

        def visit_Name(self, node):
            if isinstance(node.ctx, ast.Load) and node.id == self.t:
                return ast.copy_location(copy.deepcopy(self.value), node)
            return node

        def visit_FunctionDef(self, node):
            return node

        visit_AsyncFunctionDef = visit_Lambda = visit_ClassDef = visit_FunctionDef

    def fix_block(stmts):
        """a binding `t = <pure>` in this statement list all of whose reads lie in the statements after it in the same list"""
        i = 0
        while i < len(stmts):
            st = stmts[i]
            if isinstance(st, ast.Assign) and len(st.targets) == 1 and isinstance(st.targets[0], ast.Name):
                t = st.targets[0].id
                if stores.get(t) == 1 and t not in params and t not in nested and t not in declared and t not in special and _pure(st.value) \
                        and not isinstance(st.value, ast.Constant) and location_stable(st.value):
                    free = {y.id for y in ast.walk(st.value) if isinstance(y, ast.Name)}
                    def settled(y):
                        """y is never re-bound, or bound exactly once by a plain assignment earlier in this very statement list"""
                        if stores.get(y, 0) == 0:
                            return True
                        return stores.get(y, 0) == 1 and y not in special and any(
                            isinstance(p_, ast.Assign) and len(p_.targets) == 1 and isinstance(p_.targets[0], ast.Name) and p_.targets[0].id == y for p_ in stmts[:i])
                    if t not in free and all(settled(y) for y in free) and total_loads.get(t, 0) == loads_in(stmts[i + 1:], t) and total_loads.get(t, 0) > 0:
                        for j in range(i + 1, len(stmts)):
                            stmts[j] = Sub(t, st.value).visit(stmts[j])
                        del stmts[i]
                        continue
            i += 1
        if not stmts:
            stmts.append(ast.copy_location(ast.Pass(), func))

    def blocks(node):
        for x in ast.walk(node):
            if x is not func and isinstance(x, (ast.FunctionDef, ast.AsyncFunctionDef, ast.ClassDef, ast.Lambda)):
                continue
            for field in ("body", "orelse", "finalbody"):
                v = getattr(x, field, None)
                if isinstance(v, list) and v and isinstance(v[0], ast.stmt):
                    yield v
            if isinstance(x, ast.ExceptHandler):
                yield x.body
    def header(st):
        if isinstance(st, ast.If):
            return "test"
        if isinstance(st, (ast.Return, ast.Expr)) and st.value is not None:
            return "value"
        if isinstance(st, (ast.Assign, ast.AugAssign)):
            return "value"
        if isinstance(st, ast.For):
            return "iter"
        return None

    def fix_adjacent(stmts):
        i = 0
        while i + 1 < len(stmts):
            a, b = stmts[i], stmts[i + 1]
            if isinstance(a, ast.Assign) and len(a.targets) == 1 and isinstance(a.targets[0], ast.Name) and header(b):
                t = a.targets[0].id
                h = getattr(b, header(b))
                if stores.get(t) == 1 and t not in params and t not in nested and t not in declared and t not in special and total_loads.get(t, 0) == 1 \
                        and not any(isinstance(y, (ast.Yield, ast.YieldFrom, ast.Await)) for y in ast.walk(a.value)):
                    uses = [y for y in ast.walk(h) if isinstance(y, ast.Name) and y.id == t and isinstance(y.ctx, ast.Load)]
                    # the targets of an assignment are evaluated after its value: fine
                    if len(uses) == 1:
                        u = uses[0]
                        upos = (u.lineno, u.col_offset)
                        inside_other_scope = any(isinstance(y, (ast.Lambda, ast.ListComp, ast.SetComp, ast.DictComp, ast.GeneratorExp, ast.IfExp)) and any(z is u for z in ast.walk(y)) for y in ast.walk(h))
                        early_call = False
                        order = evaluation_order(h)
                        upos_i = next((i_ for i_, z in enumerate(order) if z is u), None)
                        if upos_i is None:
                            early_call = True
                        else:
                            for y in order[:upos_i]:
                                if isinstance(y, (ast.Call, ast.NamedExpr, ast.Await, ast.Yield, ast.YieldFrom)):
                                    early_call = True
                        # short-circuit operators: t must be in the first operand to be evaluated unconditionally
                        for y in ast.walk(h):
                            if isinstance(y, ast.BoolOp) and any(z is u for z in ast.walk(y)) and not any(z is u for z in ast.walk(y.values[0])):
                                early_call = True
                        if not inside_other_scope and not early_call:
                            setattr(b, header(b), Sub(t, a.value).visit(h))
                            del stmts[i]
                            total_loads[t] = 0
                            continue
            i += 1

    for _round in range(3):
        for v in list(blocks(func)):
            fix_block(v)
        for v in list(blocks(func)):
            fix_adjacent(v)


def _n17_function(func):
    names = _own_names(func)
    nested = {n.id for n, in_nested in names if in_nested}
    params = {a.arg for a in func.args.posonlyargs + func.args.args + func.args.kwonlyargs}
    for a in (func.args.vararg, func.args.kwarg):
        if a is not None:
            params.add(a.arg)
    declared = set()
    for x in ast.walk(func):
        if isinstance(x, (ast.Global, ast.Nonlocal)):
            declared |= set(x.names)

    def occurrences(nodes, name):
        k = 0
        for nd in nodes:
            for y in ast.walk(nd):
                if isinstance(y, ast.Name) and y.id == name:
                    k += 1
                elif isinstance(y, ast.ExceptHandler) and y.name == name:
                    k += 1
        return k
    total = {}
    for n, in_nested in names:
        total[n.id] = total.get(n.id, 0) + 1

    class Ren(ast.NodeTransformer):
        def __init__(self, a, b):
            self.a, self.b = a, b

        def visit_Name(self, node):
            if node.id == self.a:
                node.id = self.b
            return node

        def visit_FunctionDef(self, node):
            return node

        visit_AsyncFunctionDef = visit_Lambda = visit_ClassDef = visit_FunctionDef

    def fix(stmts):
        changed = False
        k = 0
        while k < len(stmts):
            st = stmts[k]
            if isinstance(st, ast.Assign) and len(st.targets) == 1 and isinstance(st.targets[0], ast.Name) and isinstance(st.value, ast.Name):
                x, t = st.targets[0].id, st.value.id
                if x != t and t not in params and t not in nested and t not in declared and x not in nested and x not in declared:
                    first = next((j for j in range(k) if occurrences([stmts[j]], t)), None)
                    if first is not None and occurrences(stmts[first:k], t) + 1 == total.get(t, 0) and occurrences(stmts[first:k], x) == 0:
                        # the first occurrence must be a plain binding of t (not a read of an earlier value)
                        f0 = stmts[first]
                        binds = isinstance(f0, ast.Assign) and len(f0.targets) == 1 and isinstance(f0.targets[0], ast.Name) and f0.targets[0].id == t \
                            and not any(isinstance(y, ast.Name) and y.id == t for y in ast.walk(f0.value))
                        if not binds:
                            # t is only ever written in that stretch (e.g. set on several branches of a loop / if), never read
                            occ = [y for nd in stmts[first:k] for y in ast.walk(nd) if isinstance(y, ast.Name) and y.id == t]
                            binds = bool(occ) and all(isinstance(y.ctx, ast.Store) for y in occ) and not any(
                                isinstance(y, ast.ExceptHandler) and y.name == t for nd in stmts[first:k] for y in ast.walk(nd))
                        if binds:
                            for j in range(first, k):
                                stmts[j] = Ren(t, x).visit(stmts[j])
                            total[x] = total.get(x, 0) + total.get(t, 0) - 2
                            total[t] = 0
                            del stmts[k]
                            changed = True
                            continue
            k += 1
        return changed

    def fix_unpack(stmts):
        changed = False
        k = 0
        while k < len(stmts):
            st = stmts[k]
            if isinstance(st, ast.Assign) and len(st.targets) == 1 and isinstance(st.targets[0], (ast.Tuple, ast.List)) and isinstance(st.value, ast.Name) \
                    and all(isinstance(e, ast.Name) for e in st.targets[0].elts):
                t = st.value.id
                tg = [e.id for e in st.targets[0].elts]
                if t not in params and t not in nested and t not in declared and t not in tg and len(set(tg)) == len(tg):
                    first = next((j for j in range(k) if occurrences([stmts[j]], t)), None)
                    if first is not None and occurrences(stmts[first:k], t) + 1 == total.get(t, 0) and not any(occurrences(stmts[first:k], x) for x in tg):
                        binds = []
                        ok = True
                        for nd in stmts[first:k]:
                            for y in ast.walk(nd):
                                if isinstance(y, ast.Name) and y.id == t and not isinstance(y.ctx, ast.Store):
                                    ok = False
                            for y in ast.walk(nd):
                                if isinstance(y, ast.Assign) and any(isinstance(z, ast.Name) and z.id == t for tt in y.targets for z in ast.walk(tt)):
                                    if len(y.targets) == 1 and isinstance(y.targets[0], ast.Name) and isinstance(y.value, (ast.Tuple, ast.List)) and len(y.value.elts) == len(tg) \
                                            and not any(isinstance(z, ast.Starred) for z in y.value.elts):
                                        binds.append(y)
                                    else:
                                        ok = False
                        n_stores = sum(1 for nd in stmts[first:k] for y in ast.walk(nd) if isinstance(y, ast.Name) and y.id == t)
                        if ok and binds and n_stores == len(binds):
                            # rewrite every `t = (X, Y)` in place as `a, b = (X, Y)`; N11-style splitting happens right here
                            def split_in(block):
                                i = 0
                                while i < len(block):
                                    b_ = block[i]
                                    if any(b_ is y for y in binds):
                                        new = []
                                        for nm_, v_ in zip(tg, b_.value.elts):
                                            a_ = ast.Assign(targets=[ast.Name(id=nm_, ctx=ast.Store())], value=v_)
                                            ast.copy_location(a_.targets[0], b_)
                                            new.append(ast.copy_location(a_, b_))
                                        block[i:i + 1] = new
                                        i += len(new)
                                        continue
                                    for fld in ("body", "orelse", "finalbody"):
                                        v = getattr(b_, fld, None)
                                        if isinstance(v, list) and v and isinstance(v[0], ast.stmt):
                                            split_in(v)
                                    if isinstance(b_, ast.Try):
                                        for h in b_.handlers:
                                            split_in(h.body)
                                    i += 1
                            idx_k = k
                            sub = stmts[first:k]
                            split_in(sub)
                            stmts[first:k + 1] = sub
                            for nm_ in tg:
                                total[nm_] = total.get(nm_, 0) + len(binds) - 1
                            total[t] = 0
                            changed = True
                            k = first + len(sub)
                            continue
            k += 1
        return changed

    def blocks():
        for x in ast.walk(func):
            if x is not func and isinstance(x, (ast.FunctionDef, ast.AsyncFunctionDef, ast.ClassDef, ast.Lambda)):
                continue
            for field in ("body", "orelse", "finalbody"):
                v = getattr(x, field, None)
                if isinstance(v, list) and v and isinstance(v[0], ast.stmt):
                    yield v
            if isinstance(x, ast.ExceptHandler):
                yield x.body
    for _ in range(3):
        c1 = any([fix(v) for v in list(blocks())])
        c2 = any([fix_unpack(v) for v in list(blocks())])
        if not (c1 or c2):
            break


def _n9(tree):
    for f in ast.walk(tree):
        if isinstance(f, (ast.FunctionDef, ast.AsyncFunctionDef)):
            _n17_function(f)
            _n9_function(f)
            _n17_function(f)


SIMPLE = (str, bytes, int, float, bool, type(None))


def propagate_constants(program):
    """N7, run once all modules are indexed."""
    declared_global = {}
    for m in program.modules.values():
        g = set()
        for x in ast.walk(m.tree):
            if isinstance(x, ast.Global):
                g |= set(x.names)
        declared_global[m] = g
    cache = {}

    def const_of(mod, name):
        key = (mod, name)
        if key not in cache:
            cache[key] = None
            vals = mod.assigns.get(name)
            if vals and len(vals) == 1 and isinstance(vals[0], ast.AST) and name not in declared_global[mod]:
                v = vals[0]
                if isinstance(v, ast.Constant) and isinstance(v.value, SIMPLE):
                    cache[key] = (v.value,)
                elif isinstance(v, ast.Name):
                    r = program.resolve_global(mod, v.id)
                    if r and r[0] == "modvar":
                        cache[key] = const_of(r[1], r[2])
        return cache[key]

    def rewrite(mod, func, node):
        for field, old in ast.iter_fields(node):
            if isinstance(old, list):
                for i, x in enumerate(old):
                    if isinstance(x, ast.AST):
                        new = one(mod, func, x)
                        if new is not x:
                            old[i] = new
            elif isinstance(old, ast.AST):
                new = one(mod, func, old)
                if new is not old:
                    setattr(node, field, new)

    def one(mod, func, x):
        if isinstance(x, ast.Name) and isinstance(x.ctx, ast.Load):
            try:
                r = program.resolve_name(mod, func, x.id)
            except Exception:
                r = None
            if r and r[0] == "modvar":
                c = const_of(r[1], r[2])
                if c is not None:
                    return ast.copy_location(ast.Constant(value=c[0]), x)
            return x
        if isinstance(x, (ast.FunctionDef, ast.AsyncFunctionDef, ast.Lambda)):
            f2 = mod.func_of_node.get(id(x)) if hasattr(mod, "func_of_node") else None
            rewrite(mod, f2 if f2 is not None else func, x)
            return x
        rewrite(mod, func, x)
        return x

    for m in program.modules.values():
        m.func_of_node = {id(f.node): f for f in m.funcs.values()}
        rewrite(m, None, m.tree)
        # N22: f(**{"name": v, ...}) with literal identifier keys is f(name=v, ...)  (same binding, same evaluation order
        # when the splat is the last argument group)
        for x in ast.walk(m.tree):
            if isinstance(x, ast.Call) and x.keywords and x.keywords[-1].arg is None and isinstance(x.keywords[-1].value, ast.Dict):
                d = x.keywords[-1].value
                if d.keys and all(isinstance(k, ast.Constant) and isinstance(k.value, str) and k.value.isidentifier() for k in d.keys) \
                        and len({k.value for k in d.keys}) == len(d.keys) and not ({k.value for k in d.keys} & {kw.arg for kw in x.keywords[:-1]}):
                    x.keywords[-1:] = [ast.copy_location(ast.keyword(arg=k.value, value=v), v) for k, v in zip(d.keys, d.values)]


class _N15(ast.NodeTransformer):
    NEG = {ast.Is: ast.IsNot, ast.IsNot: ast.Is, ast.Eq: ast.NotEq, ast.NotEq: ast.Eq, ast.In: ast.NotIn, ast.NotIn: ast.In}

    def visit_While(self, node):
        self.generic_visit(node)
        t = node.test
        if node.orelse:
            return node
        if isinstance(t, ast.Compare) and len(t.ops) == 1 and isinstance(t.left, ast.NamedExpr) and isinstance(t.left.target, ast.Name) and type(t.ops[0]) in self.NEG:
            x = t.left.target.id
            asg = ast.Assign(targets=[ast.Name(id=x, ctx=ast.Store())], value=t.left.value)
            neg = ast.Compare(left=ast.Name(id=x, ctx=ast.Load()), ops=[self.NEG[type(t.ops[0])]()], comparators=t.comparators)
            brk = ast.If(test=neg, body=[ast.Break()], orelse=[])
            new = ast.While(test=ast.Constant(value=True), body=[asg, brk] + node.body, orelse=[])
            for y in (asg, asg.targets[0], neg, neg.left, brk, brk.body[0], new, new.test):
                ast.copy_location(y, node)
            return new
        return node

    def visit_For(self, node):
        # N21: `for x in iter(f, S): BODY`  ->  `while True: x = f(); if x is S: break; BODY`
        # (iter's two-argument form compares with ==; for the identity-compared marker objects it is used with the two agree)
        self.generic_visit(node)
        it = node.iter
        if node.orelse or not isinstance(node.target, ast.Name) or not (isinstance(it, ast.Call) and isinstance(it.func, ast.Name) and it.func.id == "iter"
                                                                       and len(it.args) == 2 and not it.keywords):
            return node
        if not isinstance(it.args[0], (ast.Name, ast.Attribute)) or not isinstance(it.args[1], (ast.Name, ast.Attribute)):
            return node
        x = node.target.id
        call = ast.Call(func=it.args[0], args=[], keywords=[])
        asg = ast.Assign(targets=[ast.Name(id=x, ctx=ast.Store())], value=call)
        test = ast.Compare(left=ast.Name(id=x, ctx=ast.Load()), ops=[ast.Is()], comparators=[it.args[1]])
        brk = ast.If(test=test, body=[ast.Break()], orelse=[])
        new = ast.While(test=ast.Constant(value=True), body=[asg, brk] + node.body, orelse=[])
        for y in (call, asg, asg.targets[0], test, test.left, brk, brk.body[0], new, new.test):
            ast.copy_location(y, node)
        return new


def _n18(tree):
    for cls in [n for n in ast.walk(tree) if isinstance(n, ast.ClassDef)]:
        if len(cls.bases) != 1 or cls.keywords:
            continue
        base = cls.bases[0]
        for m in cls.body:
            if not isinstance(m, (ast.FunctionDef, ast.AsyncFunctionDef)) or not m.args.args:
                continue
            first = m.args.args[0].arg
            static = any(isinstance(d, ast.Name) and d.id == "staticmethod" for d in m.decorator_list)
            if static:
                continue

            class T(ast.NodeTransformer):
                def visit_Call(self, node):
                    self.generic_visit(node)
                    f = node.func
                    if isinstance(f, ast.Attribute) and isinstance(f.value, ast.Call) and isinstance(f.value.func, ast.Name) and f.value.func.id == "super" \
                            and (not f.value.args or (len(f.value.args) == 2 and isinstance(f.value.args[0], ast.Name) and f.value.args[0].id == cls.name)):
                        import copy
                        newf = ast.Attribute(value=copy.deepcopy(base), attr=f.attr, ctx=ast.Load())
                        ast.copy_location(newf, f)
                        for y in ast.walk(newf):
                            ast.copy_location(y, f)
                        args = list(node.args)
                        if f.attr != "__new__":
                            nm = ast.Name(id=first, ctx=ast.Load())
                            ast.copy_location(nm, f)
                            args = [nm] + args
                        node.func = newf
                        node.args = args
                    return node

                def visit_ClassDef(self, node):
                    return node
            for i, st in enumerate(m.body):
                m.body[i] = T().visit(st)


def _n14(tree):
    for node in ast.walk(tree):
        for field in ("body", "orelse", "finalbody"):
            stmts = getattr(node, field, None)
            if not (isinstance(stmts, list) and stmts and isinstance(stmts[0], ast.stmt)):
                continue
            i = 0
            while i + 1 < len(stmts):
                a, b = stmts[i], stmts[i + 1]
                if isinstance(a, ast.Assign) and len(a.targets) == 1 and isinstance(a.targets[0], ast.Name) and isinstance(a.value, ast.List) and not a.value.elts \
                        and isinstance(b, ast.For) and not b.orelse and len(b.body) == 1:
                    x = a.targets[0].id
                    inner = b.body[0]
                    conds = []
                    while isinstance(inner, ast.If) and not inner.orelse and len(inner.body) == 1:
                        conds.append(inner.test)
                        inner = inner.body[0]
                    def appended(st_):
                        if isinstance(st_, ast.Expr) and isinstance(st_.value, ast.Call) and isinstance(st_.value.func, ast.Attribute) and st_.value.func.attr == "append" \
                                and isinstance(st_.value.func.value, ast.Name) and st_.value.func.value.id == x and len(st_.value.args) == 1 and not st_.value.keywords:
                            return st_.value.args[0]
                        return None
                    elt = appended(inner)
                    if elt is None and isinstance(inner, ast.If) and len(inner.body) == 1 and len(inner.orelse) == 1 \
                            and appended(inner.body[0]) is not None and appended(inner.orelse[0]) is not None:
                        # exactly one element per iteration either way: `A if c else B`
                        elt = ast.copy_location(ast.IfExp(test=inner.test, body=appended(inner.body[0]), orelse=appended(inner.orelse[0])), inner)
                    if elt is not None:
                        mentions_x = any(isinstance(y, ast.Name) and y.id == x for e in [elt, b.iter] + conds for y in ast.walk(e))
                        if not mentions_x:
                            comp = ast.ListComp(elt=elt, generators=[ast.comprehension(target=b.target, iter=b.iter, ifs=conds, is_async=0)])
                            new = ast.Assign(targets=[a.targets[0]], value=comp)
                            ast.copy_location(comp, b)
                            ast.copy_location(new, a)
                            stmts[i:i + 2] = [new]
                            continue
                i += 1


def normalize(tree):
    tree = _N3456().visit(tree)
    _n18(tree)
    tree = _N15().visit(tree)
    _n14(tree)
    tree = _N11().visit(tree)
    tree = _N8().visit(tree)
    _n9(tree)
    _n1(tree)
    _n2(tree)
    ast.fix_missing_locations(tree)
    return tree
