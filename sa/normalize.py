"""Canonical form of the parsed sources, applied before any rule looks at them, so that the verdicts do
not depend on incidental choices of how equivalent code is written:

N1  `if not C: A else: B`            ->  `if C: B else: A`            (only when there is a real else block)
N2  `t = E` directly followed by `return t`, every binding and every read of t in the function being such a pair
                                     ->  `return E`

Both rewrites are semantics preserving; node positions are kept (the rewritten return keeps the position
of the original assignment's value so reports still point at the computing line)."""

import ast


def _n1(node):
    for child in ast.walk(node):
        if isinstance(child, ast.If) and child.orelse and not (len(child.orelse) == 1 and isinstance(child.orelse[0], ast.If)):
            t = child.test
            if isinstance(t, ast.UnaryOp) and isinstance(t.op, ast.Not):
                child.test = t.operand
                child.body, child.orelse = child.orelse, child.body


def _own_names(func):
    """Name nodes in func's own scope (not inside nested defs/lambdas/classes)."""
    out = []
    todo = list(ast.iter_child_nodes(func))
    while todo:
        n = todo.pop()
        if isinstance(n, (ast.FunctionDef, ast.AsyncFunctionDef, ast.Lambda, ast.ClassDef)):
            # names a nested scope uses without binding them itself may be closures over ours
            bound = set()
            if not isinstance(n, ast.ClassDef):
                a = n.args
                bound |= {x.arg for x in a.posonlyargs + a.args + a.kwonlyargs}
                bound |= {x.arg for x in (a.vararg, a.kwarg) if x is not None}
            for x in ast.walk(n):
                if isinstance(x, ast.Name) and isinstance(x.ctx, ast.Store):
                    bound.add(x.id)
            for x in ast.walk(n):
                if isinstance(x, (ast.Global, ast.Nonlocal)):
                    bound -= set(x.names)
            for x in ast.walk(n):
                if isinstance(x, ast.Name) and x.id not in bound:
                    out.append((x, True))
            continue
        if isinstance(n, ast.Name):
            out.append((n, False))
        todo.extend(ast.iter_child_nodes(n))
    return out


def _n2_function(func):
    names = _own_names(func)
    stores, loads, nested = {}, {}, set()
    for n, in_nested in names:
        if in_nested:
            nested.add(n.id)
        elif isinstance(n.ctx, ast.Store):
            stores[n.id] = stores.get(n.id, 0) + 1
        elif isinstance(n.ctx, ast.Load):
            loads[n.id] = loads.get(n.id, 0) + 1
        else:
            stores[n.id] = stores.get(n.id, 0) + 2
    params = {a.arg for a in func.args.posonlyargs + func.args.args + func.args.kwonlyargs}
    if func.args.vararg:
        params.add(func.args.vararg.arg)
    if func.args.kwarg:
        params.add(func.args.kwarg.arg)
    declared = set()
    for x in ast.walk(func):
        if isinstance(x, (ast.Global, ast.Nonlocal)):
            declared |= set(x.names)

    def is_pair(a, b):
        return isinstance(a, ast.Assign) and len(a.targets) == 1 and isinstance(a.targets[0], ast.Name) and isinstance(b, ast.Return) \
            and isinstance(b.value, ast.Name) and b.value.id == a.targets[0].id

    def blocks():
        for x in ast.walk(func):
            if x is not func and isinstance(x, (ast.FunctionDef, ast.AsyncFunctionDef, ast.ClassDef)):
                continue
            for field in ("body", "orelse", "finalbody"):
                v = getattr(x, field, None)
                if isinstance(v, list) and v and isinstance(v[0], ast.stmt):
                    yield v
            if isinstance(x, ast.ExceptHandler):
                yield x.body
    # a temporary may be used for several returns, as long as every store/load of it is one of these pairs
    pairs = {}
    for v in blocks():
        for a, b in zip(v, v[1:]):
            if is_pair(a, b):
                pairs[a.targets[0].id] = pairs.get(a.targets[0].id, 0) + 1

    def fix_block(stmts):
        i = 0
        while i + 1 < len(stmts):
            a, b = stmts[i], stmts[i + 1]
            if is_pair(a, b):
                t = a.targets[0].id
                if stores.get(t) == pairs.get(t) and loads.get(t) == pairs.get(t) and t not in params and t not in nested and t not in declared:
                    new = ast.Return(value=a.value)
                    ast.copy_location(new, a)
                    new.end_lineno = getattr(b, "end_lineno", getattr(a, "end_lineno", None))
                    stmts[i:i + 2] = [new]
                    continue
            i += 1

    for v in list(blocks()):
        fix_block(v)


def _n2(tree):
    for f in ast.walk(tree):
        if isinstance(f, (ast.FunctionDef, ast.AsyncFunctionDef)):
            _n2_function(f)


def normalize(tree):
    _n1(tree)
    _n2(tree)
    return tree
