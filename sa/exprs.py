"""Small expression-level helpers: rules that have to recognise *what a short function computes*
do it on the expression tree after substituting single-assignment temporaries, never on source text,
so that renaming a local, introducing a temporary or restructuring an if/else does not change the verdict."""

import ast
import copy

from .index import iter_own_nodes, unparse


def single_assignments(func):
    """name -> value for local names bound exactly once by a plain `name = value` (not a parameter,
    not a loop / with / except target, not augmented)."""
    counts, vals = {}, {}
    params = set(func.params)
    for n in iter_own_nodes(func.node):
        if isinstance(n, ast.Assign):
            for t in n.targets:
                if isinstance(t, ast.Name):
                    counts[t.id] = counts.get(t.id, 0) + 1
                    vals[t.id] = n.value if len(n.targets) == 1 else None
                else:
                    for x in ast.walk(t):
                        if isinstance(x, ast.Name) and isinstance(x.ctx, ast.Store):
                            counts[x.id] = counts.get(x.id, 0) + 2
        elif isinstance(n, (ast.AugAssign, ast.AnnAssign)) and isinstance(n.target, ast.Name):
            if isinstance(n, ast.AnnAssign) and n.value is not None:
                counts[n.target.id] = counts.get(n.target.id, 0) + 1
                vals[n.target.id] = n.value
            else:
                counts[n.target.id] = counts.get(n.target.id, 0) + 2
        elif isinstance(n, (ast.For, ast.AsyncFor, ast.comprehension)):
            for x in ast.walk(n.target):
                if isinstance(x, ast.Name):
                    counts[x.id] = counts.get(x.id, 0) + 2
        elif isinstance(n, (ast.With, ast.AsyncWith)):
            for it in n.items:
                if it.optional_vars is not None:
                    for x in ast.walk(it.optional_vars):
                        if isinstance(x, ast.Name):
                            counts[x.id] = counts.get(x.id, 0) + 2
        elif isinstance(n, ast.ExceptHandler) and n.name:
            counts[n.name] = counts.get(n.name, 0) + 2
        elif isinstance(n, ast.NamedExpr) and isinstance(n.target, ast.Name):
            counts[n.target.id] = counts.get(n.target.id, 0) + 2
    return {k: v for k, v in vals.items() if counts.get(k) == 1 and k not in params and v is not None}


class _Subst(ast.NodeTransformer):
    def __init__(self, env, depth):
        self.env, self.depth = env, depth

    def visit_Name(self, node):
        if isinstance(node.ctx, ast.Load) and node.id in self.env and self.depth < 8:
            return _Subst(self.env, self.depth + 1).visit(copy.deepcopy(self.env[node.id]))
        return node

    def visit_Lambda(self, node):
        return node  # do not look inside other scopes


def inline(func, e, env=None):
    """A copy of expression e in which single-assignment temporaries of func are replaced by their values."""
    if e is None:
        return None
    env = single_assignments(func) if env is None else env
    return _Subst(env, 0).visit(copy.deepcopy(e))


def walrus_env(func):
    """name -> value for names bound exactly once in func, by an assignment expression `(name := value)`."""
    seen, stores = {}, {}
    for n in iter_own_nodes(func.node):
        if isinstance(n, ast.NamedExpr) and isinstance(n.target, ast.Name):
            seen.setdefault(n.target.id, []).append(n.value)
        if isinstance(n, ast.Name) and isinstance(n.ctx, ast.Store):
            stores[n.id] = stores.get(n.id, 0) + 1
    return {k: v[0] for k, v in seen.items() if len(v) == 1 and stores.get(k, 0) == 1 and k not in set(func.params)}


class _DropWalrus(ast.NodeTransformer):
    def visit_NamedExpr(self, node):
        return self.visit(node.value)


def for_matching(func, e):
    """A copy of e for MATCHING ONLY (never for reasoning about evaluation order): single-assignment temporaries and
    once-bound assignment-expression targets replaced by their values, `(x := v)` itself by v."""
    env = dict(single_assignments(func))
    env.update(walrus_env(func))
    out = _Subst(env, 0).visit(copy.deepcopy(e))
    return _DropWalrus().visit(out)


def returns(func):
    """[(Return statement, inlined value or None)] of func's own return statements."""
    env = single_assignments(func)
    out = []
    for n in iter_own_nodes(func.node):
        if isinstance(n, ast.Return):
            out.append((n, inline(func, n.value, env) if n.value is not None else None))
    return out


def strip_not(e, label):
    """(e', label') with leading `not`s removed and the branch label flipped accordingly."""
    while isinstance(e, ast.UnaryOp) and isinstance(e.op, ast.Not):
        e = e.operand
        label = {"true": "false", "false": "true"}.get(label, label)
    return e, label


def is_attr(e, base, attr=None):
    return isinstance(e, ast.Attribute) and isinstance(e.value, ast.Name) and e.value.id == base and (attr is None or e.attr == attr)


def is_const(e, value):
    return isinstance(e, ast.Constant) and e.value is value or (isinstance(e, ast.Constant) and e.value == value and type(e.value) is type(value))


MIRROR = {ast.Lt: ast.Gt, ast.Gt: ast.Lt, ast.LtE: ast.GtE, ast.GtE: ast.LtE, ast.Eq: ast.Eq, ast.NotEq: ast.NotEq, ast.Is: ast.Is, ast.IsNot: ast.IsNot}


def compare_of(e, left_pred, right_pred):
    """If e is a two-operand comparison between something satisfying left_pred and something satisfying
    right_pred (in either order), return the operator class as seen with the left_pred operand on the left."""
    if isinstance(e, ast.Compare) and len(e.ops) == 1:
        a, b, op = e.left, e.comparators[0], type(e.ops[0])
        if left_pred(a) and right_pred(b):
            return op
        if left_pred(b) and right_pred(a) and op in MIRROR:
            return MIRROR[op]
    return None


def text(e):
    return unparse(e) if e is not None else "None"


def none_branch(e, label, is_subject):
    """For a test expression e and the branch `label` taken: "none" if the branch implies the subject is None,
    "notnone" if it implies it is not None, else None.  Handles `x is None`, `x is not None`, `x == None`, `not ...`,
    and plain truthiness `if x:` / `if not x:` is NOT treated as a None test (returns None)."""
    e, label = strip_not(e, label)
    op = compare_of(e, is_subject, lambda x: is_const(x, None))
    if op in (ast.Is, ast.Eq):
        return "none" if label == "true" else "notnone"
    if op in (ast.IsNot, ast.NotEq):
        return "notnone" if label == "true" else "none"
    return None


def atomic_facts(e, label):
    """Atomic conditions known to hold when test e takes branch `label`: [(expr, True|False)] with negations, `and` (true
    branch) and `or` (false branch) taken apart.  `a != b` known false is reported as (`a == b`, True)."""
    e, label = strip_not(e, label)
    truth = label == "true"
    if isinstance(e, ast.BoolOp):
        if (isinstance(e.op, ast.And) and truth) or (isinstance(e.op, ast.Or) and not truth):
            out = []
            for v in e.values:
                out += atomic_facts(v, label)
            return out
        return [(e, truth)]
    if isinstance(e, ast.Compare) and len(e.ops) == 1 and type(e.ops[0]) in (ast.NotEq, ast.IsNot, ast.NotIn):
        pos = {ast.NotEq: ast.Eq, ast.IsNot: ast.Is, ast.NotIn: ast.In}[type(e.ops[0])]
        flipped = ast.copy_location(ast.Compare(left=e.left, ops=[pos()], comparators=e.comparators), e)
        return [(flipped, not truth)]
    return [(e, truth)]
