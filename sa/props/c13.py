"""C13 -- typed fields are serialized exactly once; serializer failures are contained."""

import ast

from ..index import unparse, iter_own_nodes, AnalysisError
from ..cfg import calls_in_node, handler_catches_all_exceptions
from ..contain import in_handler, protecting_handler
from ..framework import stores_to_name, assigned_values, forward
from .. import exprs as X
from . import common

EXPLANATION = (
    "Alias/freshness dataflow and path rules: in both ILogger.write implementers a may-alias analysis tracks "
    "which names can denote the caller's dictionary; no such name may reach a mutating use (an in-place "
    "serializer, Destinations.send, a helper whose parameter-mutation summary says it mutates, subscript store, "
    "update/pop) on any path -- including the path where no serializer is given.  On every path of Logger.write "
    "to the send call the serializer is applied exactly once when present and never otherwise, to the very "
    "object that is sent; _MessageSerializer.serialize applies each declared field's serializer once; nothing "
    "downstream calls a serializer.  The serialization call is inside a catch-all handler that on every path "
    "logs exactly one traceback and one eliot:serialization_failure through the normal path, returns, and "
    "cannot reach send.  Status and serializer agree at each emission site; private keys never reach write."
    '  A per-field application may be skipped only for the identity serializer of a plain Field; every declared key must still be read from the message (that read raises for a missing field).'
)
RULE = ("obligation = rule instance bound to a name/use (alias), a call site, a handler, an emission site; "
        "non-trivial = dataflow state or CFG paths examined")
ASSUMPTIONS = [
    "what user serializers compute is not decided",
    "registered destinations do not mutate the message (documented contract of destinations)",
    "MemoryLogger.validate()'s documented in-place serialization of stored messages happens after write() returned; outside this property's observation point",
]


def mutation_summaries(ctx):
    """{(FuncInfo, param name)}: functions that (transitively) mutate the object bound to a parameter."""
    MUT = {"update", "pop", "popitem", "clear", "setdefault", "append", "extend", "remove", "insert", "__setitem__", "sort"}
    funcs = list(ctx.p.all_funcs())
    mut = set()
    changed = True
    while changed:
        changed = False
        for f in funcs:
            for pn in f.params:
                if (f, pn) in mut:
                    continue
                if stores_to_name(f, pn):
                    continue  # rebound: be optimistic only if never rebound; otherwise skip (handled by alias analysis of callers' own code)
                hit = False
                for n in iter_own_nodes(f.node):
                    if isinstance(n, (ast.Assign, ast.AugAssign, ast.Delete)):
                        tg = n.targets if not isinstance(n, ast.AugAssign) else [n.target]
                        for t in tg:
                            if isinstance(t, ast.Subscript) and isinstance(t.value, ast.Name) and t.value.id == pn:
                                hit = True
                    elif isinstance(n, ast.Call):
                        if isinstance(n.func, ast.Attribute) and isinstance(n.func.value, ast.Name) and n.func.value.id == pn and n.func.attr in MUT:
                            hit = True
                        else:
                            for g in ctx.targets(f, n):
                                gp = g.pos_params if not g.is_lambda else []
                                off = 1 if (g.cls is not None and gp and gp[0] in ("self", "cls", "klass", "_class")) else 0
                                for i, a in enumerate(n.args):
                                    if isinstance(a, ast.Name) and a.id == pn and i + off < len(gp) and (g, gp[i + off]) in mut:
                                        hit = True
                                for k in n.keywords:
                                    if k.arg and isinstance(k.value, ast.Name) and k.value.id == pn and (g, k.arg) in mut:
                                        hit = True
                if hit:
                    mut.add((f, pn))
                    changed = True
    return mut


def is_fresh_copy(e, tainted):
    """expression that yields a new dict even when built from a tainted name"""
    if isinstance(e, ast.Call):
        if isinstance(e.func, ast.Attribute) and e.func.attr in ("copy", "deepcopy") and isinstance(e.func.value, ast.Name):
            return True
        if isinstance(e.func, ast.Name) and e.func.id in ("dict", "deepcopy", "copy"):
            return True
    if isinstance(e, (ast.Dict, ast.DictComp)):
        return True
    return False


def rule_copy(chk):
    ctx = chk.ctx
    mut = mutation_summaries(ctx)
    send = ctx.func("_output", "Destinations.send")
    ser = ctx.func("_validation", "_MessageSerializer.serialize")
    chk.notes.append("mutation summaries: send mutates its message: %s; _MessageSerializer.serialize mutates in place: %s" % (
        (send, send.pos_params[1]) in mut, (ser, ser.pos_params[1]) in mut))
    chk.instances("C13.copy:parameter-mutation summaries", len(mut), 3)
    for q in ("Logger.write", "MemoryLogger.write"):
        f = ctx.func("_output", q)
        cfg = ctx.cfg(f)
        dparam = f.pos_params[1]

        def transfer(n, st, lab):
            if lab == "exc":
                return st
            s = n.ast
            if n.kind == "stmt" and isinstance(s, ast.Assign):
                new = set(st)
                for t in s.targets:
                    if isinstance(t, ast.Name):
                        if isinstance(s.value, ast.Name) and s.value.id in st:
                            new.add(t.id)
                        elif isinstance(s.value, ast.IfExp) and any(isinstance(x, ast.Name) and x.id in st for x in (s.value.body, s.value.orelse)):
                            new.add(t.id)
                        else:
                            new.discard(t.id)
                return frozenset(new)
            return st
        IN = forward(cfg, frozenset([dparam]), transfer, lambda ss: frozenset().union(*ss))
        problems = []
        examined = 0
        for n in cfg.live:
            st = IN.get(n)
            if st is None:
                continue
            # direct mutation
            s = n.ast
            if n.kind == "stmt" and isinstance(s, (ast.Assign, ast.AugAssign, ast.Delete)):
                tg = s.targets if not isinstance(s, ast.AugAssign) else [s.target]
                for t in tg:
                    if isinstance(t, ast.Subscript) and isinstance(t.value, ast.Name) and t.value.id in st:
                        problems.append((n, "stores into the caller's dictionary"))
            for c, m in calls_in_node(n):
                examined += 1
                if isinstance(c.func, ast.Attribute) and isinstance(c.func.value, ast.Name) and c.func.value.id in st \
                        and c.func.attr in ("update", "pop", "popitem", "clear", "setdefault", "__setitem__"):
                    problems.append((n, "%s() on the caller's dictionary" % c.func.attr))
                tg = ctx.targets(f, c)
                for g in tg:
                    gp = g.pos_params if not g.is_lambda else []
                    off = 1 if (g.cls is not None and gp and gp[0] in ("self", "cls")) else 0
                    for i, a in enumerate(c.args):
                        if isinstance(a, ast.Name) and a.id in st and i + off < len(gp) and (g, gp[i + off]) in mut:
                            problems.append((n, "passes the caller's dictionary to %s, which mutates it" % g.fq))
                # foreign in-place serializer
                if isinstance(c.func, ast.Attribute) and c.func.attr == "serialize" and any(isinstance(a, ast.Name) and a.id in st for a in c.args):
                    if not tg:
                        problems.append((n, "passes the caller's dictionary to an in-place serializer"))
        chk.req(not problems, "C13.copy", "%s:caller-dictionary-never-mutated" % q, chk.where(f),
                good="no name that may alias the caller's dictionary reaches a mutating use (%d uses examined)" % examined,
                fail=lambda: "; ".join("line %d %s" % (n.lineno, w) for n, w in problems[:4]) + ": the caller's dictionary is modified (e.g. on the path without a serializer)",
                sites=examined)


def rule_once(chk):
    ctx = chk.ctx
    lw = ctx.func("_output", "Logger.write")
    cfg = ctx.cfg(lw)
    send = ctx.func("_output", "Destinations.send")
    ser = ctx.func("_validation", "_MessageSerializer.serialize")
    sparam = lw.pos_params[2]
    scalls = [(n, c, m) for n in cfg.live for c, m in calls_in_node(n)
              if isinstance(c.func, ast.Attribute) and c.func.attr == "serialize" and isinstance(c.func.value, ast.Name) and c.func.value.id == sparam]
    sends = ctx.calls_to(lw, send)
    chk.need(scalls and sends, "Logger.write: serialize/send call not found")
    problems = []
    if stores_to_name(lw, sparam):
        problems.append("the serializer parameter is rebound")
    # guarded by `serializer is not None`
    none_edges = set()
    for t in cfg.live:
        if t.kind == "test":
            e = t.exprs[0]
            if isinstance(e, ast.Compare) and len(e.ops) == 1 and isinstance(e.left, ast.Name) and e.left.id == sparam \
                    and isinstance(e.comparators[0], ast.Constant) and e.comparators[0].value is None:
                if isinstance(e.ops[0], (ast.IsNot, ast.NotEq)):
                    none_edges.add((t, "false"))
                elif isinstance(e.ops[0], (ast.Is, ast.Eq)):
                    none_edges.add((t, "true"))
    if not none_edges:
        problems.append("no `serializer is not None` test")
    for n, c, m in scalls:
        if not any(cfg.edge_dominates(t, "true" if lab == "false" else "false", n) for t, lab in none_edges):
            problems.append("serialize() is not guarded by the serializer being present")
    quiet = common.quiet_exc_edges(ctx, lw)

    def w(x):
        return sum(1 for n, c, m in scalls if n is x)
    snodes = [n for n, c, m in sends]
    rng_all = cfg.count_range(cfg.entry, snodes, w)
    rng_present = cfg.count_range(cfg.entry, snodes, w, avoid_edges=none_edges)
    if rng_all is None or rng_all[1] != 1 or rng_present != (1, 1):
        problems.append("serializer applications on paths to send: overall %s, when a serializer is present %s (must be exactly 1)" % (rng_all, rng_present))
    # the object serialized is the object sent
    for n, c, m in scalls:
        a = c.args[0] if c.args else None
        for sn, sc, sm in sends:
            b = sc.args[0] if sc.args else None
            if not (isinstance(a, ast.Name) and isinstance(b, ast.Name) and a.id == b.id):
                problems.append("the object serialized (%s) is not the object sent (%s)" % (a is not None and unparse(a), b is not None and unparse(b)))
            else:
                # not rebound between
                between = cfg.reach([s for s, l in n.succ if l != "exc"], avoid=set(snodes))
                for x in between:
                    if isinstance(x.ast, ast.Assign) and any(isinstance(t, ast.Name) and t.id == a.id for t in x.ast.targets):
                        problems.append("%s is rebound between serialization and send" % a.id)
    chk.req(not problems, "C13.once", "Logger.write:serialized-exactly-once-and-sent", chk.where(lw),
            good="exactly one serialize() on the path with a serializer, none without, same object sent", fail="; ".join(problems), sites=len(cfg.live))
    # per-field: one application per declared key
    scfg = ctx.cfg(ser)
    mparam = ser.pos_params[1]
    loops = [n for n in scfg.live if n.kind == "for_next"]
    okf = len(loops) == 1 and unparse(loops[0].ast.iter) in ("self.fields.items()",)
    detail = ""
    if okf:
        head = loops[0]
        key, fld = [e.id for e in head.ast.target.elts] if isinstance(head.ast.target, ast.Tuple) else (None, None)
        region = common.loop_region(scfg, head)
        fcalls = [(n, c) for n in region for c, m in calls_in_node(n) if isinstance(c.func, ast.Attribute) and c.func.attr == "serialize"]
        body0 = [s for s, l in head.succ if l == "body"][0]
        rng = scfg.count_range(body0, [head], lambda x: sum(1 for n, c in fcalls if n is x))
        # an application may be skipped only for a field whose serializer is known to be the identity function (then the value logged
        # is the value given); the test must also pin the field's class, or a subclass overriding serialize() is bypassed
        ident_edges = set()
        if rng == (0, 1):
            vm_ = ser.module
            for t in region:
                if t.kind != "test":
                    continue
                for lab in ("true", "false"):
                    facts = X.atomic_facts(t.exprs[0], lab)
                    is_ident = any(truth and isinstance(e_, ast.Compare) and len(e_.ops) == 1 and isinstance(e_.ops[0], ast.Is) and unparse(e_.left) == "%s._serializer" % fld
                                   and isinstance(e_.comparators[0], ast.Name) and e_.comparators[0].id in vm_.funcs and _is_identity(vm_.funcs[e_.comparators[0].id]) for e_, truth in facts)
                    pins = any(truth and isinstance(e_, ast.Compare) and len(e_.ops) == 1 and isinstance(e_.ops[0], ast.Is) and unparse(e_.left) in ("%s.__class__" % fld, "type(%s)" % fld)
                               and unparse(e_.comparators[0]) == "Field" for e_, truth in facts)
                    if is_ident and pins:
                        ident_edges.add((t, lab))
            rng_rest = scfg.count_range(body0, [head], lambda x: sum(1 for n, c in fcalls if n is x), avoid_edges=ident_edges) if ident_edges else rng
            if ident_edges and rng_rest == (1, 1):
                rng = (1, 1)
        okf = rng == (1, 1)
        for n, c in fcalls:
            st = n.ast
            arg_ = X.inline(ser, c.args[0]) if len(c.args) == 1 else None
            okf = okf and isinstance(st, ast.Assign) and isinstance(st.targets[0], ast.Subscript) and unparse(st.targets[0]) == "%s[%s]" % (mparam, key) \
                and isinstance(c.func.value, ast.Name) and c.func.value.id == fld and arg_ is not None and unparse(arg_) == "%s[%s]" % (mparam, key)
        # every declared key is READ from the message on every iteration: for a missing one that read is what raises (KeyError), and the
        # containment path in Logger.write then reports it instead of delivering an incomplete message
        reads = [n for n in region if any(isinstance(x_, ast.Subscript) and isinstance(x_.ctx, ast.Load) and unparse(x_) == "%s[%s]" % (mparam, key)
                                           for e_ in (list(n.exprs) if n.kind in ("test", "for_next", "with_enter") else ([n.ast] if isinstance(n.ast, ast.AST) else [])) for x_ in ast.walk(e_))]
        okr, witr = scfg.must_pass([body0], [head], reads, skip_labels=("exc",))
        chk.req(bool(reads) and okr, "C13.once", "_MessageSerializer.serialize:every-declared-field-is-read", chk.where(ser),
                good="message[key] is read for every declared field (a missing field raises KeyError inside the contained region)",
                fail="an iteration can finish without reading %s[%s]: a message that lacks a declared field is then delivered incomplete, with no traceback and no serialization-failure report"
                     % (mparam, key))
        ok_total, _n, _s = common.loop_is_total(scfg, head, common.quiet_exc_edges(ctx, ser))
        detail = "range %s" % (rng,)
    chk.req(okf, "C13.once", "_MessageSerializer.serialize:each-declared-field-once", chk.where(ser),
            good="message[key] = field.serialize(message[key]) once per declared field", fail="per-field serialization is not one application per declared key (%s)" % detail)
    # nothing downstream serializes
    fser = ctx.func("_validation", "Field.serialize")
    down = [send, ctx.func("_output", "FileDestination.__call__"), ctx.func("_output", "BufferingDestination.__call__")]
    bad = []
    for g in down:
        for s in ctx.cg.sites[g]:
            if any(t in (ser, fser) for t in s.repo_targets()) or (s.call is not None and isinstance(s.call.func, ast.Attribute) and s.call.func.attr == "serialize"):
                bad.append(s)
    chk.req(not bad, "C13.once", "output-stage:no-second-serialization", chk.where(send),
            good="send and the bundled destinations call no serializer", fail="serializers are applied again downstream: %s" % [s.where for s in bad])


def rule_fail(chk):
    ctx = chk.ctx
    lw = ctx.func("_output", "Logger.write")
    cfg = ctx.cfg(lw)
    send = ctx.func("_output", "Destinations.send")
    wt = ctx.func("_traceback", "write_traceback")
    lm = ctx.func("_action", "log_message")
    sparam = lw.pos_params[2]
    handlers = []
    for n in cfg.live:
        if n.kind == "dispatch":
            tr = n.ast
            body_has = any(isinstance(x, ast.Call) and isinstance(x.func, ast.Attribute) and x.func.attr == "serialize"
                           for st in tr.body for x in ast.walk(st))
            if body_has:
                for h in tr.handlers:
                    hn = [x for x in cfg.live if x.kind == "handler" and x.ast is h]
                    if hn:
                        handlers.append((tr, h, hn[0]))
    chk.need(handlers, "Logger.write: the serialization call is not inside a try any more (C07.local reports the containment side)")
    for tr, h, hn in handlers:
        problems = []
        if not handler_catches_all_exceptions(h):
            problems.append("handler catches less than Exception")
        elif h.type is not None and unparse(h.type) != "BaseException":
            # "if a serializer raises ... the logging call returns normally": a serializer failing with a BaseException that is not an
            # Exception (asyncio.CancelledError from a cancelled future, GeneratorExit, an application's own BaseException subclass)
            # is a raising serializer too; the pinned code contains it with a bare except
            problems.append("the handler is `except %s`: a serializer raising a BaseException outside Exception (e.g. asyncio.CancelledError) escapes the logging call and neither "
                            "diagnostic message is logged" % unparse(h.type))
        quiet = common.quiet_exc_edges(ctx, lw)
        wtc = [(n, c) for n, c, m in ctx.calls_to(lw, wt)]
        lmc = [(n, c) for n, c, m in ctx.calls_to(lw, lm)]
        sn = [n for n, c, m in ctx.calls_to(lw, send)]
        r = cfg.reach([hn], avoid_edges=quiet)
        if any(x in r for x in sn):
            problems.append("the failed message can still be delivered (send reachable from the handler)")
        for lst, what in ((wtc, "write_traceback"), (lmc, "log_message")):
            rng = cfg.count_range(hn, [cfg.exit, cfg.raise_exit], lambda x: sum(1 for n, c in lst if n is x), avoid_edges=quiet)
            if rng != (1, 1):
                problems.append("%s calls per failure range %s" % (what, rng))
        for n, c in lmc:
            first = c.args[0] if c.args else next((k.value for k in c.keywords if k.arg == "message_type"), None)
            if not (isinstance(first, ast.Constant) and first.value == "eliot:serialization_failure"):
                problems.append("report type is %s" % (first is not None and unparse(first)))
            kws = {k.arg: k.value for k in c.keywords}
            if "message" not in kws:
                problems.append("report does not describe the failed message")
        if cfg.raise_exit in r:
            problems.append("the handler can raise")
        chk.req(not problems, "C13.fail", "Logger.write:failure-path", chk.where(lw, h.lineno),
                good="one traceback + one eliot:serialization_failure, then return; send unreachable", fail="; ".join(problems), sites=len(r))
    # a missing declared field raises inside the same try: message[key] subscript is inside serialize (only called there)
    ser = ctx.func("_validation", "_MessageSerializer.serialize")
    callers = {s.func.fq for s in ctx.cg.callers_of(ser) if s.func in set(ctx.p.all_funcs())}
    chk.req(callers <= {"_output:Logger.write", "_output:MemoryLogger._validate_message", "_output:MemoryLogger.serialize"}, "C13.fail",
            "_MessageSerializer.serialize:callers", chk.where(ser), good="called only from %s" % sorted(callers),
            fail="unexpected callers of the in-place serializer: %s" % sorted(callers))


def rule_attach(chk):
    ctx = chk.ctx
    p = ctx.p
    act = p.mod("_action")
    AS = p.fold_global(act, "ACTION_STATUS_FIELD")
    STATUS = {p.fold_global(act, "STARTED_STATUS"): "start", p.fold_global(act, "SUCCEEDED_STATUS"): "success", p.fold_global(act, "FAILED_STATUS"): "failure"}
    from . import c02
    for q in ("Action._start", "Action.finish"):
        f = ctx.func("_action", q)
        cfg = ctx.cfg(f)
        _c, wcalls = c02._write_call(chk, f)
        sername = wcalls[0][1].args[1].id if len(wcalls[0][1].args) > 1 and isinstance(wcalls[0][1].args[1], ast.Name) else None
        chk.need(sername, "%s: serializer argument of write is not a simple name" % q)
        status_nodes = []
        for n in cfg.live:
            if isinstance(n.ast, ast.Assign):
                for t in n.ast.targets:
                    if isinstance(t, ast.Subscript) and ctx.try_fold(f, t.slice) == (True, AS):
                        ok, v = ctx.try_fold(f, n.ast.value)
                        status_nodes.append((n, v if ok else None))
        ser_nodes = []
        for n in cfg.live:
            if isinstance(n.ast, ast.Assign) and any(isinstance(t, ast.Name) and t.id == sername for t in n.ast.targets):
                v = n.ast.value
                if isinstance(v, ast.Attribute) and common.is_self_attr(v.value, "_serializers"):
                    ser_nodes.append((n, v.attr))
        problems = []
        if q == "Action.finish":
            # the serializer choice follows exactly the None-ness of the exception parameter (the same test that selects the status)
            ep = f.pos_params[1]
            is_exc = lambda x: isinstance(x, ast.Name) and x.id == ep
            for sn, kind in ser_nodes:
                br = {X.none_branch(t.exprs[0], lab, is_exc) for t, lab in cfg.guards_of(sn) if t.kind == "test" and any(isinstance(y, ast.Name) and y.id == ep for y in ast.walk(t.exprs[0]))}
                tests_on_exc = [t for t, lab in cfg.guards_of(sn) if t.kind == "test" and any(isinstance(y, ast.Name) and y.id == ep for y in ast.walk(t.exprs[0]))]
                want_br = {"success": "none", "failure": "notnone"}.get(kind)
                if tests_on_exc and want_br and br != {want_br}:
                    problems.append("serializer .%s is selected under `%s`, which is not the test `%s is%s None`: an exception that is falsy (or any other mismatch with the status test) gets the "
                                    "other kind's serializer" % (kind, unparse(tests_on_exc[0].exprs[0]), ep, " not" if kind == "failure" else ""))
        for sn, kind in ser_nodes:
            # the status stored on the same arm
            same = []
            for stn, val in status_nodes:
                g1 = {(t.id, lab) for t, lab in cfg.guards_of(sn) if t.kind == "test" and "_serializers" not in unparse(t.exprs[0])}
                g2 = {(t.id, lab) for t, lab in cfg.guards_of(stn) if t.kind == "test"}
                if g2 <= g1 or not g2:
                    same.append(val)
            want = [k for k, v in STATUS.items() if v == kind]
            if not same:
                chk.skip("C13.attach", "%s:status-and-serializer-agree(.%s)" % (q, kind), chk.where(f), "the status of this arm is not stored in %s itself (helper): not evaluated" % q)
                continue
            if any(STATUS.get(v) != kind for v in same):
                problems.append("serializer .%s is attached where the status is %s" % (kind, same))
        if not ser_nodes:
            problems.append("no serializer selected from self._serializers")
        chk.req(not problems, "C13.attach", "%s:status-and-serializer-agree" % q, chk.where(f),
                good="serializers %s chosen on the arm of the matching status" % sorted(k for _, k in ser_nodes), fail="; ".join(problems))
    # MessageType.log attaches its own serializer; Action.log pops the private keys
    ml = ctx.func("_validation", "MessageType.log")
    okm = False
    for n in iter_own_nodes(ml.node):
        if isinstance(n, ast.Assign) and isinstance(n.targets[0], ast.Subscript) and isinstance(n.targets[0].slice, ast.Constant) \
                and n.targets[0].slice.value == "__eliot_serializer__" and common.is_self_attr(n.value, "_serializer"):
            okm = True
    chk.req(okm, "C13.attach", "MessageType.log:attaches-own-serializer", chk.where(ml), good="__eliot_serializer__ = self._serializer",
            fail="MessageType.log does not attach the type's own serializer")
    # Message.write (deprecated API, still the path of MessageType(...).write and of tracebacks)
    mw = ctx.func("_message", "Message.write")
    mcfg = ctx.cfg(mw)
    stores = [n for n in mcfg.live if isinstance(n.ast, ast.Assign) and isinstance(n.ast.targets[0], ast.Subscript) and isinstance(n.ast.targets[0].slice, ast.Constant)
              and n.ast.targets[0].slice.value == "__eliot_serializer__" and common.is_self_attr(n.ast.value, "_serializer")]
    lm_ = ctx.func("_action", "log_message")
    al_ = ctx.func("_action", "Action.log")
    sinks = [n for n, c, m in ctx.calls_to(mw, lm_)] + [n for n in mcfg.live for c, m in calls_in_node(n) if isinstance(c.func, ast.Attribute) and c.func.attr == "log"
                                                          and any(k.arg is None for k in c.keywords)]
    none_false = {(t, "false") for t in mcfg.live if t.kind == "test" and unparse(t.exprs[0]) == "self._serializer is not None"} | \
                 {(t, "true") for t in mcfg.live if t.kind == "test" and unparse(t.exprs[0]) == "self._serializer is None"}
    okw = bool(stores) and bool(sinks) and mcfg.must_pass([mcfg.entry], sinks, stores, avoid_edges=none_false)[0]
    chk.req(okw, "C13.attach", "Message.write:attaches-serializer-on-every-path", chk.where(mw),
            good="a message with a serializer carries it to log_message and to action.log alike",
            fail="on some path (e.g. write(action=...)) a typed message is logged without its serializer: declared fields are not serialized and failing serializers go unreported")
    alog = ctx.func("_action", "Action.log")
    _c, wcalls = c02._write_call(chk, alog)
    for n, c, m in wcalls:
        st = common.must_keys(ctx, alog, c.args[0].id, c)
        okp = st is not None and {"__eliot_logger__", "__eliot_serializer__"} <= set(st.absent)
        chk.req(okp, "C13.attach", "Action.log:private-keys-never-written", chk.where(alog, c.lineno),
                good="__eliot_logger__ and __eliot_serializer__ are popped before write", fail="a private key can reach destinations (absent set: %s)" % (st and sorted(st.absent)))
        # the popped serializer is the one handed to write
        a2 = c.args[1] if len(c.args) > 1 else None
        okv = isinstance(a2, ast.Call) and isinstance(a2.func, ast.Attribute) and a2.func.attr == "pop" and a2.args and isinstance(a2.args[0], ast.Constant) \
            and a2.args[0].value == "__eliot_serializer__"
        if not okv and isinstance(a2, ast.Name):
            vals = assigned_values(alog, a2.id)
            okv = len(vals) == 1 and isinstance(vals[0], ast.Call) and "__eliot_serializer__" in unparse(vals[0]) and ".pop(" in unparse(vals[0])
        chk.req(okv, "C13.attach", "Action.log:uses-the-attached-serializer", chk.where(alog, c.lineno), good="write(fields, <popped serializer>)",
                fail="the serializer attached to the message is not the one passed to write")



def action_type_field_lists(ctx):
    """What ActionType.__init__ declares for each message kind, independent of how the lists are named or built:
    {kind: {"params": constructor parameters whose (user-declared) fields are included,
            "fields": {implicit key: constant value | "<type>" | "<field>"}}}  or None when the construction is not recognised."""
    import copy
    p = ctx.p
    at = ctx.func("_validation", "ActionType.__init__")
    fv = set()
    fcls = ctx.cls("_validation", "Field")
    for nm in ("forValue", "for_value"):
        m = fcls.find_method(nm)
        if m is not None:
            fv.add(m)
    ctor = None
    for n in iter_own_nodes(at.node):
        if isinstance(n, ast.Call) and {k.arg for k in n.keywords} >= {"start", "success", "failure"}:
            ctor = n
    if ctor is None:
        return None
    env = X.single_assignments(at)
    params = at.pos_params
    rebinds = {}
    for n in iter_own_nodes(at.node):
        if isinstance(n, ast.Assign) and len(n.targets) == 1 and isinstance(n.targets[0], ast.Name) and n.targets[0].id in params:
            rebinds.setdefault(n.targets[0].id, []).append(n.value)

    def pieces(e, seen):
        """flatten a list-valued expression into elements / ("param", name)"""
        if isinstance(e, ast.BinOp) and isinstance(e.op, ast.Add):
            return pieces(e.left, seen) + pieces(e.right, seen)
        if isinstance(e, (ast.List, ast.Tuple)):
            out = []
            for x in e.elts:
                if isinstance(x, ast.Starred):
                    out += pieces(x.value, seen)
                else:
                    out.append(x)
            return out
        if isinstance(e, ast.Call) and isinstance(e.func, ast.Name) and e.func.id == "list" and len(e.args) == 1:
            return pieces(e.args[0], seen)
        if isinstance(e, ast.Name):
            if e.id in env and e.id not in seen:
                return pieces(env[e.id], seen | {e.id})
            if e.id in params:
                rb = rebinds.get(e.id, [])
                if len(rb) == 1 and e.id not in seen:
                    return pieces(rb[0], seen | {e.id})
                if not rb or e.id in seen:
                    return [("param", e.id)]
        return [("unknown", unparse(e))]

    def field_of(f, e, subst, depth=0):
        """(key, value) declared by a Field-valued expression"""
        if depth > 4:
            return None
        if isinstance(e, ast.Name):
            if e.id in subst:
                return field_of(f, subst[e.id], {}, depth + 1)
            if f is at and e.id in env:
                return field_of(f, env[e.id], subst, depth + 1)
            r = p.resolve_name(f.module, f, e.id)
            if r[0] == "modvar":
                vals = [x for x in r[1].assigns.get(r[2], []) if isinstance(x, ast.Call)]
                if len(vals) == 1 and vals[0].args:
                    ok, k = ctx.try_fold(r[1], vals[0].args[0]) if hasattr(r[1], "short") else (False, None)
                    if not ok:
                        try:
                            k = p.fold_global(r[1], unparse(vals[0].args[0]))
                            ok = True
                        except Exception:
                            ok = False
                    if ok:
                        return (k, "<field>")
            return None
        if isinstance(e, ast.Call):
            tg = ctx.targets(f, e)
            if tg and all(t in fv for t in tg) and len(e.args) >= 2:
                k = e.args[0]
                v = e.args[1]
                if isinstance(k, ast.Name) and k.id in subst:
                    k = subst[k.id]
                if isinstance(v, ast.Name) and v.id in subst:
                    v = subst[v.id]
                okk, kk = ctx.try_fold(f if not subst else at, k)
                if not okk:
                    okk, kk = ctx.try_fold(at, k)
                if not okk:
                    return None
                if isinstance(v, ast.Name) and v.id == params[1] and not rebinds.get(params[1]):
                    return (kk, "<type>")
                okv, vv = ctx.try_fold(at, v)
                return (kk, vv if okv else None)
            # a local helper returning a Field
            for g in tg:
                if g.parent is at or g.module is at.module:
                    rets = [r for r in iter_own_nodes(g.node) if isinstance(r, ast.Return) and r.value is not None]
                    if g.is_lambda:
                        rets = [ast.Return(value=g.node.body)]
                    if len(rets) == 1:
                        sub = dict(zip(g.pos_params, e.args))
                        return field_of(g, rets[0].value, sub, depth + 1)
        return None

    out = {}
    for k in ctor.keywords:
        if k.arg not in ("start", "success", "failure"):
            continue
        v = X.inline(at, k.value, env)
        if not (isinstance(v, ast.Call) and v.args):
            return None
        info = {"params": set(), "fields": {}, "unknown": []}
        for el in pieces(v.args[0], set()):
            if isinstance(el, tuple):
                if el[0] == "param":
                    info["params"].add(el[1])
                else:
                    info["unknown"].append(el[1])
                continue
            kv = field_of(at, el, {})
            if kv is None:
                info["unknown"].append(unparse(el))
            else:
                info["fields"][kv[0]] = kv[1]
        out[k.arg] = info
    return out


def rule_wiring(chk):
    """Field.serialize applies the field's serializer once; ActionType hands its own
    serializers and type to the action; each message kind gets the serializer built
    from its own field list."""
    ctx = chk.ctx
    fs = ctx.func("_validation", "Field.serialize")
    cfg = ctx.cfg(fs)
    calls = [(n, c) for n in cfg.live for c, m in calls_in_node(n) if common.is_self_attr(c.func, "_serializer")]
    rng = cfg.count_range(cfg.entry, [cfg.exit], lambda x: sum(1 for n, c in calls if n is x))
    okf = rng == (1, 1) and all(len(c.args) == 1 and isinstance(c.args[0], ast.Name) and c.args[0].id == fs.params[1] for n, c in calls) \
        and all(any(r.ast.value is c for n, c in calls) for r in common.returns_of(cfg)) and not [x for x in cfg.live for c, m in calls_in_node(x) if (x, c) not in calls and c not in [cc for _, cc in calls]]
    chk.req(okf, "C13.once", "Field.serialize:serializer-applied-once", chk.where(fs), good="return self._serializer(input)", fail="Field.serialize does not apply the field's serializer exactly once to the value and return the result")
    at = ctx.func("_validation", "ActionType.__init__")
    lists = action_type_field_lists(ctx)
    ap = at.pos_params
    okm = lists is not None and set(lists) == {"start", "success", "failure"} and lists["start"]["params"] == {ap[2]} and lists["success"]["params"] == {ap[3]} \
        and lists["failure"]["params"] == set() and not any(v["unknown"] for v in lists.values())
    chk.req(okm, "C13.attach", "ActionType.__init__:each-kind-gets-its-own-field-list", chk.where(at), good="start/success/failure serializers built from startFields/successFields/failureFields",
            fail="the start/success/failure serializers are not built from their own field lists")
    for q, callee in (("ActionType.__call__", "_start_action"), ("ActionType.as_task", "_startTask")):
        f = ctx.func("_validation", q)
        okc = False
        for n in iter_own_nodes(f.node):
            if isinstance(n, ast.Call) and common.is_self_attr(n.func, callee) and len(n.args) == 3:
                okc = isinstance(n.args[0], ast.Name) and n.args[0].id == f.params[1] and common.is_self_attr(n.args[1], "action_type") and common.is_self_attr(n.args[2], "_serializers") \
                    and any(k.arg is None and isinstance(k.value, ast.Name) and k.value.id == f.node.args.kwarg.arg for k in n.keywords)
        chk.req(okc, "C13.attach", "%s:passes-own-type-and-serializers" % q, chk.where(f), good="(logger, self.action_type, self._serializers, **fields)",
                fail="%s does not start the action with its own action_type and serializers" % q)
    st = {"_start_action": "start_action", "_startTask": "startTask"}
    atc = ctx.cls("_validation", "ActionType")
    okh = all(unparse(atc.attrs.get(k, ast.Constant(value=None))) == "staticmethod(%s)" % v for k, v in st.items())
    chk.req(okh, "C13.attach", "ActionType:start-hooks-are-start_action/startTask", chk.where(atc), good="_start_action = staticmethod(start_action); _startTask = staticmethod(startTask)",
            fail="ActionType's start hooks are not start_action / startTask")


def rule_serializer_flow(chk):
    """The serializers given to start_action/startTask/continue_task/child reach the
    action object unchanged (a typed action must not silently become untyped)."""
    ctx = chk.ctx
    init = ctx.func("_action", "Action.__init__")
    child = ctx.func("_action", "Action.child")
    ip = init.pos_params
    oki = any(isinstance(n, ast.Assign) and common.is_self_attr(n.targets[0], "_serializers") and isinstance(n.value, ast.Name) and n.value.id == ip[5]
              for n in iter_own_nodes(init.node)) and not stores_to_name(init, ip[5])
    chk.req(oki, "C13.attach", "Action.__init__:keeps-the-given-serializers", chk.where(init), good="self._serializers = serializers", fail="Action.__init__ does not keep the serializers it is given")

    def ctor_passes(f, pname, what):
        ok = False
        from . import c02 as _c02
        builders = _c02.root_builders(ctx)
        for n in iter_own_nodes(f.node):
            if isinstance(n, ast.Call) and init in ctx.targets(f, n) and len(n.args) >= 5:
                ok = isinstance(n.args[4], ast.Name) and n.args[4].id == pname and not stores_to_name(f, pname)
            elif isinstance(n, ast.Call) and ctx.targets(f, n) and all(t in builders for t in ctx.targets(f, n)):
                # a private root-builder helper: the serializers must be handed to it and it must hand them to Action(...)
                for g in ctx.targets(f, n):
                    passed = [i for i, a in enumerate(n.args) if isinstance(a, ast.Name) and a.id == pname] + \
                             [g.pos_params.index(k.arg) for k in n.keywords if k.arg in g.pos_params and isinstance(k.value, ast.Name) and k.value.id == pname]
                    okg = False
                    for i in passed:
                        if i < len(g.pos_params):
                            gp = g.pos_params[i]
                            for r in builders[g]:
                                if isinstance(r, ast.Call) and len(r.args) >= 5 and isinstance(r.args[4], ast.Name) and r.args[4].id == gp and not stores_to_name(g, gp):
                                    okg = True
                    ok = okg and not stores_to_name(f, pname)
        chk.req(ok, "C13.attach", "%s:passes-serializers-to-the-action" % f.qualname, chk.where(f), good="%s handed to Action(...)" % pname,
                fail="%s constructs the action without the serializers it was given (%s): typed fields are neither serialized nor validated" % (f.qualname, what))
    ctor_passes(ctx.func("_action", "startTask"), "_serializers", "start_task / ActionType.as_task")
    ctor_passes(ctx.func("_action", "Action.continue_task"), "_serializers", "continue_task")
    ctor_passes(child, child.pos_params[3], "every nested action")
    sa = ctx.func("_action", "start_action")
    ok = False
    for n in iter_own_nodes(sa.node):
        if isinstance(n, ast.Call) and child in ctx.targets(sa, n):
            ok = len(n.args) == 3 and [getattr(a, "id", None) for a in n.args] == sa.params[:3] and not any(stores_to_name(sa, q) for q in sa.params[:3])
    chk.req(ok, "C13.attach", "start_action:nested-action-gets-logger-type-serializers", chk.where(sa), good="parent.child(logger, action_type, _serializers)",
            fail="a nested action is created without the logger/type/serializers given to start_action: typed actions started inside another action are not serialized or validated")
    st = ctx.func("_action", "startTask")
    ok2 = False
    for n in iter_own_nodes(sa.node):
        if isinstance(n, ast.Call) and st in ctx.targets(sa, n):
            ok2 = [getattr(a, "id", None) for a in n.args] == sa.params[:3] and any(k.arg is None for k in n.keywords)
    chk.req(ok2, "C13.attach", "start_action:task-arm-passes-everything", chk.where(sa), good="startTask(logger, action_type, _serializers, **fields)", fail="the no-parent arm of start_action drops an argument")


def rule_message_copies(chk):
    """A Message never shares its contents dictionary with the caller or with messages bound from it."""
    ctx = chk.ctx
    rule_write_fresh(chk)
    init = ctx.func("_message", "Message.__init__")
    cp = init.params[1]
    ok = any(isinstance(n, ast.Assign) and common.is_self_attr(n.targets[0], "_contents") and common._fresh_container(n.value) and cp in unparse(n.value) for n in iter_own_nodes(init.node))
    chk.req(ok, "C13.copy", "Message.__init__:copies-the-given-contents", chk.where(init), good="self._contents = contents.copy()", fail="Message keeps the caller's dictionary itself: later changes by either side show up in the other")
    for q in ("Message.bind", "Message.contents", "Message.write"):
        f = ctx.func("_message", q)
        uses = [n for n in ast.walk(f.node) if common.is_self_attr(n, "_contents")]
        parents = {}
        for n in ast.walk(f.node):
            for ch in ast.iter_child_nodes(n):
                parents[id(ch)] = n
        bad = []
        for u in uses:
            par = parents.get(id(u))
            gp = parents.get(id(par)) if par is not None else None
            okuse = (isinstance(par, ast.Attribute) and par.attr == "copy" and isinstance(gp, ast.Call)) or \
                    (isinstance(par, ast.Call) and isinstance(par.func, ast.Name) and par.func.id in ("dict",) and u in par.args) or \
                    (isinstance(par, ast.Call) and unparse(par.func).split(".")[-1] == "ChainMap" and par.args and u is not par.args[0] and common._fresh_container(par))
            # (a ChainMap over the contents reads them and stores into its own first mapping, as long as that one is fresh and the contents come later)
            if not okuse:
                bad.append(unparse(par) if par is not None else "?")
        chk.req(uses and not bad, "C13.copy", "%s:works-on-a-copy-of-the-contents" % q, chk.where(f), good="every use of self._contents is a copy",
                fail="%s hands out / mutates the message's own contents dictionary (%s)" % (q, bad))
    common.rule_instance_state(chk, "C13", [("_validation", "_MessageSerializer"), ("_message", "Message")])
    common.rule_defaults(chk, "C13", modules=("_validation", "_message", "_output"))


def _is_identity(g):
    """def f(x): return x"""
    body = [st for st in g.node.body if not (isinstance(st, ast.Expr) and isinstance(st.value, ast.Constant))]
    return len(g.pos_params) == 1 and len(body) == 1 and isinstance(body[0], ast.Return) and isinstance(body[0].value, ast.Name) and body[0].value.id == g.pos_params[0]


def rule_write_fresh(chk):
    """The dictionary Message.write hands to log_message / Action.log is built afresh on every call: it receives per-write
    routing keys (logger, serializer), which must not survive into the next write of the same Message."""
    ctx = chk.ctx
    mw = ctx.func("_message", "Message.write")
    lm_ = ctx.func("_action", "log_message")
    names = set()
    bad = []
    n_splats = 0
    for n in iter_own_nodes(mw.node):
        if isinstance(n, ast.Call) and any(k.arg is None for k in n.keywords) and (lm_ in ctx.targets(mw, n) or (isinstance(n.func, ast.Attribute) and n.func.attr == "log")):
            for k in n.keywords:
                if k.arg is None:
                    n_splats += 1
                    if isinstance(k.value, ast.Name):
                        names.add(k.value.id)
                    elif not common._fresh_container(k.value):
                        bad.append("**%s" % unparse(k.value))
    chk.need(n_splats, "Message.write: the **fields splat into log_message / action.log not found")
    for nm in sorted(names):
        vals = assigned_values(mw, nm)
        for v in vals:
            if v is None or not common._fresh_container(v):
                why_ = ""
                if isinstance(v, ast.Call) and unparse(v.func).split(".")[-1] == "ChainMap":
                    why_ = " -- stores into a ChainMap land in its first mapping, here the message's own contents"
                bad.append("%s = %s%s" % (nm, unparse(v) if v is not None else "<unpacked>", why_))
    chk.req(not bad, "C13.copy", "Message.write:fields-built-afresh-per-write", chk.where(mw),
            good="the splatted dictionary is a fresh copy made in this call", fail="the dictionary written is not made afresh in this call (%s): keys stored for one write (logger, serializer) leak into later writes" % "; ".join(bad))


def rule_field_guard(chk):
    """Justifies the receiver-type convention `field -> Field` (sa/callgraph.py)."""
    ctx = chk.ctx
    init = ctx.func("_validation", "_MessageSerializer.__init__")
    ok = False
    for n in iter_own_nodes(init.node):
        if isinstance(n, ast.If) and "isinstance" in unparse(n.test) and "Field" in unparse(n.test) and any(isinstance(x, ast.Raise) for x in n.body):
            ok = True
    chk.req(ok, "C13.once", "_MessageSerializer.__init__:fields-are-Fields", chk.where(init), good="non-Field entries are rejected with TypeError",
            fail="_MessageSerializer no longer rejects non-Field entries (receiver-type convention of the analyser unjustified)")


def run(chk):
    rule_copy(chk)
    from . import c07
    c07.rule_contain(chk, only=("eliot.Logger.write", "eliot.write_traceback", "eliot.Action.finish"))  # the failure report itself may not fail: a second failure inside it doubles / replaces the reports
    rule_once(chk)
    rule_fail(chk)
    rule_attach(chk)
    rule_wiring(chk)
    rule_serializer_flow(chk)
    rule_message_copies(chk)
    rule_field_guard(chk)
    common.rule_forwarding(chk, "C13", keys=[("_action", "start_action"), ("_action", "startTask"), ("_action", "Action.child"), ("_action", "Action.continue_task"), ("_action", "Action.__init__"), ("_action", "Action.log"), ("_action", "log_message"), ("_validation", "ActionType.__call__"), ("_validation", "ActionType.as_task"), ("_validation", "MessageType.log"), ("_validation", "MessageType.__call__"), ("_message", "Message.write"), ("_message", "Message.__init__"), ("_output", "Logger.write"), ("_output", "MemoryLogger.write")])
