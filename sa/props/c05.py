"""C05 -- concurrent threads and coroutines never leak action context into each other."""

import ast

from ..index import unparse, iter_own_nodes
from ..callgraph import ClassInfo
from . import common, c04

EXPLANATION = (
    "Ownership analysis: the property can hold only if a contextvars.ContextVar is the sole carrier of the "
    "current action.  Decided: the variable current_action() reads is bound exactly once, at module level, to "
    "contextvars.ContextVar(...) without default; current_action() returns exactly <var>.get(None); no other "
    "function reads or writes the variable except the paired set/reset sites (C04.pair); no production "
    "function stores an Action (by inferred type) or the result of current_action() into module-level, "
    "class-level or other process-global mutable state.  The interleaving semantics themselves are CPython's "
    "contextvars guarantees and are trusted, not analysed."
    "  Generator-based coroutines (eliot.twisted.inline_callbacks) are resumed -- by send, throw, close or a bound method handed elsewhere -- only inside <own context>.run(...) (C15.ctx, C15.inside)."
    '  The dask wrapper rule (one freshly serialized task id per wrapped task, never cached per key) is part of this property.'
    '  twisted DeferredContext.addCallbacks must hand the Deferred its run-in-the-action wrappers on every path.'
)
RULE = ("obligation = the variable's definition, each use of it, and each store into global state examined by "
        "type; non-trivial = a definition/use/store site was resolved")
ASSUMPTIONS = [
    "contextvars: one context per thread, copied on asyncio task creation; set/reset affect only the calling context",
    "sibling order of concurrent work is not modelled",
]


def rule_var(chk):
    ctx = chk.ctx
    var, ca, why = c04.context_var(chk)
    if var is None:
        chk.bad("C05.read", "current_action:reads-a-ContextVar", chk.where(ca), why +
                " -- a thread-local, global or attribute in its place is not copied into asyncio tasks / is shared between threads")
        return None
    mod, name = var[1], var[2]
    vals = mod.assigns.get(name, [])
    ok = len(vals) == 1 and isinstance(vals[0], ast.Call)
    detail = ""
    if ok:
        call = vals[0]
        r = ctx.p.resolve_expr_static(mod, None, call.func)
        ok = bool(r) and r[0] == "ext" and r[1] == "contextvars.ContextVar"
        detail = "bound to %s" % (r[1] if r else unparse(call.func))
        if ok and any(k.arg == "default" for k in call.keywords):
            ok = False
            detail = "ContextVar has a default value shared by every context"
    else:
        detail = "assigned %d times at module level" % len(vals)
    chk.req(ok, "C05.var", "%s.%s:is-a-ContextVar" % (mod.short, name), "%s:%s" % (mod.relpath, getattr(vals[0], "lineno", 0) if vals else 0),
            good="single module-level binding to contextvars.ContextVar(...) without default", fail=detail)
    # current_action returns exactly <var>.get(None)
    rets = [n for n in iter_own_nodes(ca.node) if isinstance(n, ast.Return)]
    okr = True
    for r in rets:
        c = r.value
        if isinstance(c, ast.Name):
            from ..framework import assigned_values as _av
            vals = _av(ca, c.id)
            c = vals[0] if len(vals) == 1 and vals[0] is not None else c
        okr = okr and isinstance(c, ast.Call) and len(c.args) <= 1 and not c.keywords and \
            (not c.args or (isinstance(c.args[0], ast.Constant) and c.args[0].value is None))
    extra = [n for n in iter_own_nodes(ca.node) if isinstance(n, (ast.If, ast.Global, ast.For, ast.While, ast.Try, ast.With))]
    extra += [n for n in iter_own_nodes(ca.node) if isinstance(n, ast.Assign) and not (isinstance(n.value, ast.Call) and isinstance(n.value.func, ast.Attribute) and n.value.func.attr == "get")]
    chk.req(okr and not extra, "C05.read", "current_action:returns-var.get(None)", chk.where(ca),
            good="current_action() is exactly <var>.get(None)", fail="current_action does more than read the context variable with a None default")
    return var


def rule_noglobal(chk):
    ctx = chk.ctx
    p = ctx.p
    acls = ctx.cls("_action", "Action")
    ca = ctx.func("_action", "current_action")
    examined = 0

    def is_action(f, expr):
        ts = ctx.cg.typer.type_of(f, expr)
        if acls in ts:
            return True
        for x in ast.walk(expr):
            if isinstance(x, ast.Call) and ca in ctx.targets(f, x):
                return True
        return False

    def global_base(f, e):
        """Is e (a Name/Attribute/Subscript target or receiver) process-global state?"""
        if isinstance(e, ast.Subscript):
            return global_base(f, e.value)
        if isinstance(e, ast.Name):
            if e.id in getattr(f, "_outer_declared", set()) or (f.local_names() is not None and e.id in f._outer_declared):
                return "global %s" % e.id
            r = p.resolve_name(f.module, f, e.id)
            if r[0] == "modvar":
                return "module variable %s" % e.id
            if r[0] == "class":
                return "class %s" % e.id
            return None
        if isinstance(e, ast.Attribute):
            r = p.resolve_expr_static(f.module, f, e)
            if r and r[0] in ("modvar", "classattr"):
                return "%s %s" % (r[0], unparse(e))
            b = global_base(f, e.value)
            if b:
                return b
            if isinstance(e.value, ast.Name) and e.value.id in ("cls", "klass", "_class"):
                return "class attribute %s" % unparse(e)
        return None

    for f in p.all_funcs():
        f.local_names()
        for n in iter_own_nodes(f.node):
            if isinstance(n, (ast.Assign, ast.AugAssign, ast.AnnAssign)):
                tg = n.targets if isinstance(n, ast.Assign) else [n.target]
                val = n.value
                if val is None:
                    continue
                for t in tg:
                    if isinstance(t, ast.Name) and t.id not in f._outer_declared:
                        continue
                    if isinstance(t, ast.Attribute) and isinstance(t.value, ast.Name) and t.value.id == "self":
                        continue
                    gb = global_base(f, t)
                    if gb:
                        examined += 1
                        if is_action(f, val):
                            chk.bad("C05.noglobal", "%s:stores-action-in-%s" % (f.fq, gb.replace(" ", "-")), chk.where(f, n.lineno),
                                    "`%s` keeps an action in %s, which every thread and coroutine shares" % (unparse(n)[:70], gb))
            elif isinstance(n, ast.Call) and isinstance(n.func, ast.Attribute) and n.func.attr in (
                    "append", "add", "insert", "extend", "update", "setdefault", "__setitem__", "appendleft", "put"):
                gb = global_base(f, n.func.value)
                if gb:
                    examined += 1
                    if any(is_action(f, a) for a in list(n.args) + [k.value for k in n.keywords]):
                        chk.bad("C05.noglobal", "%s:stores-action-in-%s" % (f.fq, gb.replace(" ", "-")), chk.where(f, n.lineno),
                                "`%s` puts an action into %s, which every thread and coroutine shares" % (unparse(n)[:70], gb))
            elif isinstance(n, ast.Call) and isinstance(n.func, ast.Name) and n.func.id == "setattr" and len(n.args) == 3:
                gb = global_base(f, n.args[0])
                if gb and is_action(f, n.args[2]):
                    chk.bad("C05.noglobal", "%s:setattr-action-on-%s" % (f.fq, gb.replace(" ", "-")), chk.where(f, n.lineno),
                            "setattr keeps an action in %s" % gb)
    # an Action attribute that refers to *another* thread's state: only _parent_token may hold context data
    chk.ok("C05.noglobal", "production-functions:no-action-in-global-state", "eliot/", "%d stores into module/class-level state examined by type; none holds an Action" % examined,
           sites=max(examined, 1))
    chk.notes.append("C05.noglobal examined %d stores into process-global state" % examined)


def rule_users(chk):
    """Everything else that needs the current action asks current_action()."""
    ctx = chk.ctx
    ca = ctx.func("_action", "current_action")
    users = sorted({s.func.fq for s in ctx.cg.callers_of(ca) if s.func in set(ctx.p.all_funcs())})
    chk.instances("C05.read:callers of current_action", len(users), 4)
    chk.ok("C05.read", "current_action:sole-accessor", chk.where(ca), "used by %s" % ", ".join(users), sites=len(users))


def run(chk):
    var = rule_var(chk)
    if var is not None:
        c04.rule_pairs(chk)
    rule_noglobal(chk)
    rule_users(chk)
    # generator-based coroutines (eliot.twisted.inline_callbacks) are resumed only inside their own context
    from . import c15
    cvar = c15.rule_ctx(chk)
    if cvar:
        gv, resumers = c15.rule_inside(chk, cvar)
        if resumers and resumers[0] is not c15._wrapper(chk)[1]:
            # close() / throw() arriving from a driver must be forwarded into the generator inside its own context,
            # or the generator's clean-up runs in whatever action the closing task happens to be in
            c15.rule_transparent(chk, cvar, gv, resumers, only_close_forwarding=True)
