"""C14 -- test-time validation accepts exactly the messages matching their declared types (partial)."""

import ast

from ..index import unparse, iter_own_nodes, AnalysisError
from ..cfg import calls_in_node
from ..contain import protecting_handler
from ..framework import stores_to_name, assigned_values
from . import common
from .. import exprs as X

EXPLANATION = (
    "PARTIAL.  Not decided: the 'iff' over all values (what each user validator accepts).  Decided: "
    "RESERVED_FIELDS folds to exactly {task_level, task_uuid, timestamp} and the allowed set of the no-extras "
    "rule is the declared fields united with exactly that set (any widening or narrowing is a violation, "
    "whatever its spelling); additional fields are allowed at exactly two construction sites (failure "
    "serializer of ActionType, TRACEBACK_MESSAGE); validate() checks every declared field (no early exit), "
    "raises on absence, validates each value, and its only normal exits are after the no-extras loop or the "
    "early return guarded by allow_additional_fields; Field.validate runs the serializer and then the extra "
    "validator; emitter/validator table agreement (library-added keys are the implicit fields of the matching "
    "serializer or reserved); _validate_message reaches the JSON dump on every normal path and turns its "
    "failure into TypeError; MemoryLogger.write validates a copy and records failures, validate() re-raises; "
    "check_for_errors raises for unflushed tracebacks before validating; capture_logging registers the "
    "restoring swap_logger(previous) as a cleanup before the test runs; swap_logger is the only writer of the "
    "default logger."
    "  C13.attach is included: the serializer must travel with the message on every path of Message.write / MessageType.log / Action._start / finish, or the message is never validated."
    "  C03.failfields (the failed end message carries the status / exception / reason computed by finish over the extractor's fields, decided on the ordered layers of the dict construction) is part of this property."
    '  When capture_logging keeps the previous logger elsewhere than in a local, the restore must still be a registered cleanup or a finally; a restore that runs only after the assertion returns is a violation.'
    '  An allowed-key set kept on the serializer is followed to its class-level value and per-instance extension; |= on a class-level mutable set is shared state.'
)
RULE = "obligation = rule instance bound to a constant / loop / call site of _validation.py, _output.py, testing.py; non-trivial = expressions or CFG paths examined"
ASSUMPTIONS = ["what each user-supplied validator accepts is not decided", "unittest runs registered cleanups for pass, fail, error and skip"]

STATED_RESERVED = {"task_level", "task_uuid", "timestamp"}  # enumerated in the property statement


def rule_reserved(chk):
    ctx = chk.ctx
    p = ctx.p
    vm = p.mod("_validation")
    rf = set(p.fold_global(vm, "RESERVED_FIELDS"))
    chk.req(rf == STATED_RESERVED, "C14.reserved", "RESERVED_FIELDS:exactly-the-three-placement-fields", "%s:1" % vm.relpath,
            good="RESERVED_FIELDS = %s" % sorted(rf), fail="RESERVED_FIELDS folds to %s; the always-allowed extra fields are exactly %s" % (sorted(rf), sorted(STATED_RESERVED)))
    v = ctx.func("_validation", "_MessageSerializer.validate")
    cfg = ctx.cfg(v)
    # the membership test of the no-extras loop
    tests = [t for t in cfg.live if t.kind == "test" and isinstance(t.exprs[0], ast.Compare) and isinstance(t.exprs[0].ops[0], (ast.NotIn, ast.In)) and isinstance(t.exprs[0].left, ast.Name)]
    loops = [n for n in cfg.live if n.kind == "for_next" and isinstance(n.ast.iter, ast.Name) and n.ast.iter.id == v.params[1]]
    chk.need(loops, "_MessageSerializer.validate: loop over the message's keys not found")
    head = loops[0]
    region = common.loop_region(cfg, head)
    tests = [t for t in tests if t in region and t.exprs[0].left.id == head.ast.target.id]
    allowed_parts = None
    if len(tests) != 1:
        # `key not in A and key not in B` (one test or nested tests): the raise is reached exactly when the key is in none of them
        kv = head.ast.target.id if isinstance(head.ast.target, ast.Name) else None
        raises_ = [n for n in region if n.kind == "raise_stmt"]
        if len(raises_) == 1 and kv:
            facts = []
            gts = [(t, lab) for t, lab in cfg.guards_of(raises_[0]) if t.kind == "test" and t in region]
            for t, lab in gts:
                facts += X.atomic_facts(t.exprs[0], lab)
            mem = [e.comparators[0] for e, truth in facts if isinstance(e, ast.Compare) and len(e.ops) == 1 and isinstance(e.ops[0], ast.In)
                   and isinstance(e.left, ast.Name) and e.left.id == kv and truth is False]
            if facts and len(mem) == len(facts):
                allowed_parts = mem
                tests = [gts[0][0]]
    chk.need(len(tests) == 1, "_MessageSerializer.validate: `key not in <allowed>` test not found")
    allowed = tests[0].exprs[0].comparators[0] if allowed_parts is None else None

    shared = []

    def operands(e):
        e2 = e
        if isinstance(e2, ast.Name):
            vals = assigned_values(v, e2.id)
            if len(vals) == 1 and vals[0] is not None:
                e2 = vals[0]
        if common.is_self_attr(e2) and e2.attr != "fields":
            # a set kept on the serializer: the class-level starting value, extended per instance in __init__
            cls_ = v.cls
            v0 = cls_.attrs.get(e2.attr)
            init_ = cls_.find_method("__init__")
            ups = [x for x in iter_own_nodes(init_.node) if isinstance(x, (ast.AugAssign, ast.Assign))
                   and any(common.is_self_attr(t_, e2.attr) for t_ in ([x.target] if isinstance(x, ast.AugAssign) else x.targets))] if init_ is not None else []
            other_writers = [m_ for m_ in set(cls_.methods.values()) if m_ is not init_ and any(
                isinstance(x, ast.Attribute) and isinstance(x.ctx, (ast.Store, ast.Del)) and common.is_self_attr(x, e2.attr) for x in ast.walk(m_.node))]
            if other_writers:
                raise AnalysisError("_MessageSerializer.%s is also written by %s (not modelled)" % (e2.attr, [m_.name for m_ in other_writers]))
            out = []
            if isinstance(v0, ast.AST):
                mutable0 = isinstance(v0, (ast.Set, ast.SetComp)) or (isinstance(v0, ast.Call) and isinstance(v0.func, ast.Name) and v0.func.id == "set")
                for u_ in ups:
                    if isinstance(u_, ast.AugAssign) and mutable0:
                        shared.append((e2.attr, u_))
                inner = v0.args[0] if isinstance(v0, ast.Call) and isinstance(v0.func, ast.Name) and v0.func.id in ("frozenset", "set", "tuple") and len(v0.args) == 1 else v0
                out += [inner]
            for u_ in ups:
                if isinstance(u_, ast.AugAssign) and isinstance(u_.op, ast.BitOr):
                    out += operands(u_.value)
                elif isinstance(u_, ast.Assign):
                    out += [o_ for o_ in operands(u_.value) if not common.is_self_attr(o_, e2.attr)]
                else:
                    raise AnalysisError("_MessageSerializer.__init__ updates %s with %s (not modelled)" % (e2.attr, unparse(u_)[:40]))
            if out:
                return out
        if isinstance(e2, ast.BinOp) and isinstance(e2.op, ast.BitOr):
            return operands(e2.left) + operands(e2.right)
        if isinstance(e2, ast.Call) and isinstance(e2.func, ast.Attribute) and e2.func.attr == "union":
            out = operands(e2.func.value)
            for a in e2.args:
                out += operands(a)
            return out
        return [e2]
    ops = operands(allowed) if allowed_parts is None else [o for a_ in allowed_parts for o in operands(a_)]
    declared = 0
    const = set()
    unknown = []
    for o in ops:
        txt = unparse(o)
        if txt in ("set(self.fields)", "self.fields", "set(self.fields.keys())", "self.fields.keys()", "frozenset(self.fields)"):
            declared += 1
            continue
        ok, val = ctx.try_fold(v, o)
        if ok and isinstance(val, (set, frozenset, tuple, list)):
            const |= set(val)
        else:
            unknown.append(txt)
    for attr_, u_ in shared:
        chk.bad("C14.reserved", "_MessageSerializer.%s:per-serializer" % attr_, chk.where(v.cls.find_method("__init__"), u_.lineno),
                "`%s` updates in place the ONE set object created at class level (`%s = %s`): every serializer in the process then shares one ever-growing allowed set, and a message with an "
                "undeclared field is accepted whenever any other type declares a field of that name" % (unparse(u_)[:50], attr_, unparse(v.cls.attrs.get(attr_))[:40]))
    chk.req(declared >= 1 and const == STATED_RESERVED and not unknown, "C14.reserved", "_MessageSerializer.validate:allowed-set-is-declared-plus-reserved", chk.where(v, tests[0].lineno),
            good="allowed = declared fields | %s" % sorted(const),
            fail="the no-extras rule allows declared fields %s plus %s%s; it must be declared | %s exactly" % ("(missing!)" if not declared else "", sorted(const), (" plus " + str(unknown)) if unknown else "", sorted(STATED_RESERVED)))
    return head, tests[0]


def rule_extras(chk):
    ctx = chk.ctx
    sites = []
    ms = ctx.cls("_validation", "_MessageSerializer")
    for f in list(ctx.p.all_funcs()):
        for n in iter_own_nodes(f.node):
            if isinstance(n, ast.Call) and any(k.arg == "allow_additional_fields" and not (isinstance(k.value, ast.Constant) and k.value.value is False) for k in n.keywords):
                sites.append((f.fq, n.lineno))
            if isinstance(n, ast.Assign) and any(isinstance(t, ast.Attribute) and t.attr == "allow_additional_fields" for t in n.targets) and f.qualname != "_MessageSerializer.__init__":
                sites.append((f.fq, n.lineno))
    for m in ctx.p.prod_modules():
        for st in m.tree.body:
            if isinstance(st, ast.Assign) and any(isinstance(t, ast.Attribute) and t.attr == "allow_additional_fields" for t in st.targets):
                sites.append((m.short + ":<module>:" + unparse(st.targets[0]), st.lineno))
            for n in ast.walk(st) if isinstance(st, (ast.Assign, ast.Expr)) else []:
                if isinstance(n, ast.Call) and any(k.arg == "allow_additional_fields" for k in n.keywords):
                    sites.append((m.short + ":<module>", n.lineno))
    expected = {"_validation:ActionType.__init__", "_traceback:<module>:TRACEBACK_MESSAGE._serializer.allow_additional_fields"}
    got = {s for s, _ in sites}
    chk.req(got == expected, "C14.extras", "allow_additional_fields:exactly-two-sites", "eliot/_validation.py",
            good="additional fields allowed only for failed-action and traceback messages", fail="allow_additional_fields is enabled at %s (expected %s)" % (sorted(got), sorted(expected)), sites=len(sites))
    # the ActionType site is the failure serializer only
    at = ctx.func("_validation", "ActionType.__init__")
    okf = False
    for n in iter_own_nodes(at.node):
        if isinstance(n, ast.Call) and any(k.arg in ("start", "success", "failure") for k in n.keywords):
            kw = {k.arg: k.value for k in n.keywords}
            def allows(e):
                return isinstance(e, ast.Call) and any(k.arg == "allow_additional_fields" for k in e.keywords)
            okf = allows(kw.get("failure")) and not allows(kw.get("start")) and not allows(kw.get("success"))
    chk.req(okf, "C14.extras", "ActionType.__init__:only-the-failure-serializer-allows-extras", chk.where(at), good="failure serializer only", fail="start/success serializers allow additional fields (or failure does not)")
    # default false
    init = ctx.func("_validation", "_MessageSerializer.__init__")
    d = dict(zip(reversed(init.pos_params), reversed(init.node.args.defaults)))
    d.update({a.arg: v for a, v in zip(init.node.args.kwonlyargs, init.node.args.kw_defaults) if v is not None})
    chk.req("allow_additional_fields" in d and isinstance(d["allow_additional_fields"], ast.Constant) and d["allow_additional_fields"].value is False, "C14.extras",
            "_MessageSerializer.__init__:extras-off-by-default", chk.where(init), good="default False", fail="allow_additional_fields does not default to False")


def rule_shape(chk, head2, test2):
    ctx = chk.ctx
    v = ctx.func("_validation", "_MessageSerializer.validate")
    cfg = ctx.cfg(v)
    mparam = v.params[1]
    loops = [n for n in cfg.live if n.kind == "for_next" and unparse(n.ast.iter) in ("self.fields.items()",)]
    chk.need(len(loops) == 1, "_MessageSerializer.validate: loop over the declared fields not found")
    head = loops[0]
    key, fld = [e.id for e in head.ast.target.elts]
    region = common.loop_region(cfg, head)
    problems = []
    if any(n.kind in ("break", "continue", "return") for n in region):
        problems.append("the declared-fields loop can stop or skip before all fields were checked")


    def absent_label(t):
        """the branch label of test t that means: the declared key is absent from the message (or None)"""
        e, lab = X.strip_not(t.exprs[0], "true")
        op = X.compare_of(e, lambda x: isinstance(x, ast.Name) and x.id == key, lambda x: isinstance(x, ast.Name) and x.id == mparam)
        if isinstance(e, ast.Compare) and len(e.ops) == 1 and isinstance(e.left, ast.Name) and e.left.id == key and isinstance(e.comparators[0], ast.Name) and e.comparators[0].id == mparam:
            if isinstance(e.ops[0], ast.NotIn):
                return lab
            if isinstance(e.ops[0], ast.In):
                return "false" if lab == "true" else "true"
        return None
    # `v = message.get(key, <sentinel>)` + `v is <sentinel>`: absence, exactly, when the sentinel is a private object(); with None as the
    # default a field that is present with the value None looks absent
    getvars = {}
    for n_ in region:
        a_ = n_.ast
        if isinstance(a_, ast.Assign) and n_.kind != "test" and len(a_.targets) == 1 and isinstance(a_.targets[0], ast.Name) and isinstance(a_.value, ast.Call) \
                and isinstance(a_.value.func, ast.Attribute) and a_.value.func.attr == "get" and isinstance(a_.value.func.value, ast.Name) and a_.value.func.value.id == mparam \
                and a_.value.args and isinstance(a_.value.args[0], ast.Name) and a_.value.args[0].id == key:
            getvars[a_.targets[0].id] = a_.value.args[1] if len(a_.value.args) > 1 else None
    _absent_label0 = absent_label

    def absent_label(t):
        r_ = _absent_label0(t)
        if r_ is not None:
            return r_
        e, lab = X.strip_not(t.exprs[0], "true")
        if isinstance(e, ast.Compare) and len(e.ops) == 1 and isinstance(e.ops[0], (ast.Is, ast.IsNot)) and isinstance(e.left, ast.Name) and e.left.id in getvars:
            dflt = getvars[e.left.id]
            other = e.comparators[0]
            is_sentinel = False
            if dflt is not None and isinstance(dflt, ast.Name) and isinstance(other, ast.Name) and other.id == dflt.id:
                vals_ = [x for x in v.module.assigns.get(dflt.id, []) if isinstance(x, ast.AST)]
                is_sentinel = len(vals_) == 1 and isinstance(vals_[0], ast.Call) and unparse(vals_[0]) == "object()"
            if is_sentinel:
                return lab if isinstance(e.ops[0], ast.Is) else ("false" if lab == "true" else "true")
            if (dflt is None or (isinstance(dflt, ast.Constant) and dflt.value is None)) and isinstance(other, ast.Constant) and other.value is None:
                problems.append("absence of a declared field is tested as `%s` after `%s.get(%s)`: a field that is PRESENT with the value None (legal for a field that accepts None) "
                                "is reported as missing, so a conforming message fails validation" % (unparse(t.exprs[0]), mparam, key))
                return lab if isinstance(e.ops[0], ast.Is) else ("false" if lab == "true" else "true")
        return None
    absent = [t for t in region if t.kind == "test" and absent_label(t) is not None]
    problems[:] = list(dict.fromkeys(problems))
    raises = [n for n in region if n.kind == "raise_stmt" and "ValidationError" in unparse(n.ast)]
    absent_lab = absent_label(absent[0]) if absent else None
    if not absent or not raises or not all(cfg.edge_dominates(absent[0], absent_lab, r) for r in raises) \
            or not cfg.must_pass([s_ for s_, l in absent[0].succ if l == absent_lab], [head, cfg.exit], raises, skip_labels=("exc",))[0]:
        problems.append("a missing declared field does not raise ValidationError")
    vcalls = [(n, c) for n in region for c, m in calls_in_node(n) if isinstance(c.func, ast.Attribute) and c.func.attr == "validate" and isinstance(c.func.value, ast.Name) and c.func.value.id == fld]
    body = [s for s, l in head.succ if l == "body"][0]
    rng = cfg.count_range(body, [head], lambda x: sum(1 for n, c in vcalls if n is x), avoid_edges={(absent[0], absent_lab)} if absent else ())
    if rng != (1, 1) or not all(len(c.args) == 1 and (unparse(c.args[0]) == "%s[%s]" % (mparam, key) or (isinstance(c.args[0], ast.Name) and c.args[0].id in getvars)) for n, c in vcalls):
        problems.append("each present declared field's value is not validated exactly once (range %s)" % (rng,))
    chk.req(not problems, "C14.shape", "_MessageSerializer.validate:every-declared-field-present-and-valid", chk.where(v), good="for every declared field: present, and field.validate(value)", fail="; ".join(problems), sites=len(region))
    # exits: early return only under allow_additional_fields; otherwise through the no-extras loop
    rets = common.returns_of(cfg)
    problems = []


    def allow_edge(t, lab):
        """taking this branch means allow_additional_fields is true"""
        e, lab2 = X.strip_not(t.exprs[0], lab)
        return common.is_self_attr(e, "allow_additional_fields") and lab2 == "true"
    allow_edges = {(t, lab) for t in cfg.live if t.kind == "test" for lab in ("true", "false") if allow_edge(t, lab)}
    for r in rets:
        if not any(allow_edge(t, lab) for t, lab in cfg.guards_of(r) if t.kind == "test"):
            problems.append("return at line %d is not guarded by allow_additional_fields" % r.lineno)
    # when extras are not allowed (no allow-edge is taken) every normal path runs the no-extras loop
    ok, wit = cfg.must_pass([cfg.entry], [cfg.exit], [head2], avoid_edges=allow_edges, skip_labels=("exc",))
    if not ok or not allow_edges:
        problems.append("validate can finish without running the no-extras check: %s" % cfg.fmt_path(wit))
    if not cfg.precedes([head], [head2] + rets)[0]:
        problems.append("the declared-fields check does not come first")
    r2 = common.loop_region(cfg, head2)
    rs = [n for n in r2 if n.kind == "raise_stmt" and "ValidationError" in unparse(n.ast)]
    if isinstance(test2.exprs[0], ast.Compare):
        notin = isinstance(test2.exprs[0].ops[0], ast.NotIn)
    else:
        # a conjunction / disjunction of membership tests: the raising branch is the one that dominates the raise
        notin = bool(rs) and all(cfg.edge_dominates(test2, "true", n) for n in rs)
    declared_edge = (test2, "false" if notin else "true")     # the branch taken for a declared / reserved key
    body2 = [s_ for s_, l in head2.succ if l == "body"]
    every_undeclared_raises = bool(rs) and cfg.must_pass(body2, [head2, cfg.exit], rs, avoid_edges={declared_edge}, skip_labels=("exc",))[0]
    if not every_undeclared_raises or not all(cfg.edge_dominates(test2, "true" if notin else "false", n) for n in rs) or any(n.kind in ("break", "return") for n in r2):
        problems.append("an undeclared field does not always raise ValidationError")
    chk.req(not problems, "C14.shape", "_MessageSerializer.validate:no-extras-unless-allowed", chk.where(v), good="exits: after the no-extras loop, or the early return under allow_additional_fields", fail="; ".join(problems))
    # Field.validate / forValue / forTypes
    fv = ctx.func("_validation", "Field.validate")
    fcfg = ctx.cfg(fv)
    ip = fv.params[1]
    sc = [n for n in fcfg.live for c, m in calls_in_node(n) if common.is_self_attr(c.func, "_serializer") and len(c.args) == 1 and unparse(c.args[0]) == ip]
    ec = [n for n in fcfg.live for c, m in calls_in_node(n) if common.is_self_attr(c.func, "_extraValidator") and len(c.args) == 1 and unparse(c.args[0]) == ip]
    okfv = bool(sc) and bool(ec) and fcfg.must_pass([fcfg.entry], [fcfg.exit], sc)[0] and fcfg.precedes(sc, ec)[0] \
        and any(t.kind == "test" and unparse(t.exprs[0]) == "self._extraValidator is not None" and lab == "true" for t, lab in fcfg.guards_of(ec[0])) \
        and fcfg.must_pass([fcfg.entry], [fcfg.exit], ec, avoid_edges={(t, "false") for t in fcfg.live if t.kind == "test" and unparse(t.exprs[0]) == "self._extraValidator is not None"})[0]
    chk.req(okfv, "C14.shape", "Field.validate:serializer-then-extra-validator", chk.where(fv), good="serializer(input) always; extraValidator(input) when present", fail="Field.validate does not run the serializer and then the extra validator (when present) on the value")


    def installed_validator(outer):
        """the nested function handed to the Field constructor as its extra validator (4th positional / extraValidator=) on the single return"""
        rets = [n for n in iter_own_nodes(outer.node) if isinstance(n, ast.Return)]
        if len(rets) != 1 or not isinstance(rets[0].value, ast.Call):
            return None
        call = rets[0].value
        cand = None
        for k in call.keywords:
            if k.arg == "extraValidator":
                cand = k.value
        if cand is None and len(call.args) >= 4:
            cand = call.args[3]
        cand = X.inline(outer, cand) if cand is not None else None
        if isinstance(cand, ast.Name):
            for g in outer.nested.values():
                if not g.is_lambda and g.name == cand.id:
                    return g
        return None

    def raises_validation_error_unless(g, accept):
        """g raises ValidationError exactly on the branch where accept(test expr, label) says the check failed; returns list of problems"""
        cfg = ctx.cfg(g)
        raises = [n for n in cfg.live if n.kind == "raise_stmt" and n.ast.exc is not None and "ValidationError" in unparse(n.ast.exc.func if isinstance(n.ast.exc, ast.Call) else n.ast.exc)]
        if not raises:
            return ["the validator never raises ValidationError"]
        out = []
        for rn in raises:
            gs = [(X.inline(g, t.exprs[0]), lab) for t, lab in cfg.guards_of(rn) if t.kind == "test"]
            if not any(accept(*X.strip_not(e, lab)) for e, lab in gs):
                out.append("ValidationError raised under %s" % [(unparse(e)[:40], lab) for e, lab in gs])
        # and the failing branch cannot reach the normal exit without raising
        for t in [t for t in cfg.live if t.kind == "test"]:
            for lab in ("true", "false"):
                if accept(*X.strip_not(X.inline(g, t.exprs[0]), lab)):
                    for s_, l in t.succ:
                        if l == lab and cfg.exit in cfg.reach([s_], skip_labels=("exc",)):
                            out.append("a value failing the check can pass without ValidationError")
        return out

    fvo = ctx.func("_validation", "Field.forValue")
    fval = installed_validator(fvo)
    chk.req(fval is not None, "C14.shape", "Field.forValue:fixed-value-check-is-installed", chk.where(fvo), good="the Field is built with the fixed-value validator", fail="forValue does not install its fixed-value validator")
    if fval is not None:
        vparam = fvo.pos_params[2]
        cp = fval.pos_params[0]

        def differs(e, lab):
            op = X.compare_of(e, lambda x: isinstance(x, ast.Name) and x.id == cp, lambda x: isinstance(x, ast.Name) and x.id == vparam)
            return (op is ast.NotEq and lab == "true") or (op is ast.Eq and lab == "false")
        pr = raises_validation_error_unless(fval, differs)
        chk.req(not pr and not stores_to_name(fvo, vparam), "C14.shape", "Field.forValue:validator-compares-with-the-fixed-value", chk.where(fval), good="raise unless checked == value", fail="forValue's validator: %s" % "; ".join(pr))
    outer = ctx.func("_validation", "Field.forTypes")
    ft = installed_validator(outer)
    chk.req(ft is not None, "C14.shape", "Field.forTypes:type-check-is-always-installed", chk.where(outer),
            good="the Field is built with extraValidator=<the isinstance check> (which then calls the caller's validator)",
            fail="the isinstance type check is not (always) the Field's validator: with a caller-supplied extra validator wrong-typed values are accepted")
    okft = False
    if ft is None:
        ft = outer
    else:
        cparam = outer.pos_params[2]
        vp = ft.pos_params[0]
        tnames = set()

        def not_instance(e, lab):
            if isinstance(e, ast.Call) and isinstance(e.func, ast.Name) and e.func.id == "isinstance" and len(e.args) == 2 and isinstance(e.args[0], ast.Name) and e.args[0].id == vp \
                    and isinstance(e.args[1], ast.Name):
                tnames.add(e.args[1].id)
                return lab == "false"
            return False
        pr = raises_validation_error_unless(ft, not_instance)
        # the class tuple is the given classes with None -> NoneType, nothing dropped
        okt = False
        ocfg = ctx.cfg(outer)
        for tn in tnames:
            vals = [v for v in assigned_values(outer, tn) if v is not None]
            # last binding: tuple(<list name>) or a comprehension over the classes parameter
            for v in vals:
                if isinstance(v, ast.Call) and isinstance(v.func, ast.Name) and v.func.id in ("tuple", "list") and len(v.args) == 1:
                    src = v.args[0]
                    if isinstance(src, (ast.GeneratorExp, ast.ListComp)) and len(src.generators) == 1 and not src.generators[0].ifs \
                            and isinstance(src.generators[0].iter, ast.Name) and src.generators[0].iter.id == cparam and "type(None)" in unparse(src.elt):
                        okt = True
                    if isinstance(src, ast.Name):
                        lname = src.id
                        loops = [n for n in ocfg.live if n.kind == "for_next" and isinstance(n.ast.iter, ast.Name) and n.ast.iter.id == cparam and isinstance(n.ast.target, ast.Name)]
                        for lp in loops:
                            kv = lp.ast.target.id
                            region = common.loop_region(ocfg, lp)
                            all_apps = [(n, c) for n in region for c, _m in calls_in_node(n) if isinstance(c.func, ast.Attribute) and c.func.attr == "append" and isinstance(c.func.value, ast.Name)
                                        and c.func.value.id == lname and len(c.args) == 1 and isinstance(c.args[0], ast.Name)]
                            # the element appended: the loop variable itself (re-bound to NoneType where it is None), or a second name
                            # bound to NoneType where the loop variable is None and to the loop variable otherwise
                            elem = {c.args[0].id for n, c in all_apps}
                            en = elem.pop() if len(elem) == 1 else None
                            apps = [n for n, c in all_apps] if en is not None else []

                            def none_guard(n):
                                return any(t.kind == "test" and X.none_branch(t.exprs[0], lab, lambda x: isinstance(x, ast.Name) and x.id == kv) == "none" for t, lab in ocfg.guards_of(n))
                            none_fix = [n for n in region if isinstance(n.ast, ast.Assign) and isinstance(n.ast.targets[0], ast.Name) and n.ast.targets[0].id == en and unparse(n.ast.value) == "type(None)"
                                        and none_guard(n)]
                            if en is not None and en != kv:
                                others = [n for n in region if isinstance(n.ast, ast.Assign) and isinstance(n.ast.targets[0], ast.Name) and n.ast.targets[0].id == en and n not in none_fix]
                                if not others or not all(isinstance(n.ast.value, ast.Name) and n.ast.value.id == kv for n in others):
                                    apps = []
                            body = [s_ for s_, l in lp.succ if l == "body"]
                            if apps and none_fix and ocfg.must_pass(body, [lp], apps, skip_labels=("exc",))[0] and not any(n.kind in ("break", "continue") for n in region):
                                okt = True
        okft = not pr and okt
    chk.req(okft, "C14.shape", "Field.forTypes:isinstance-of-exactly-the-given-classes", chk.where(ft), good="isinstance(value, <given classes, None -> NoneType>)", fail="forTypes' validator is not an isinstance test against exactly the given classes")


def rule_emit(chk):
    """Emitter <-> validator table agreement."""
    ctx = chk.ctx
    p = ctx.p
    act, msg = p.mod("_action"), p.mod("_message")
    AT, AS = p.fold_global(act, "ACTION_TYPE_FIELD"), p.fold_global(act, "ACTION_STATUS_FIELD")
    ST = {k: p.fold_global(act, k) for k in ("STARTED_STATUS", "SUCCEEDED_STATUS", "FAILED_STATUS")}
    MT, RE, EX = p.fold_global(msg, "MESSAGE_TYPE_FIELD"), p.fold_global(msg, "REASON_FIELD"), p.fold_global(msg, "EXCEPTION_FIELD")
    reserved = set(p.fold_global(p.mod("_validation"), "RESERVED_FIELDS"))
    at = ctx.func("_validation", "ActionType.__init__")
    from . import c13
    raw = c13.action_type_field_lists(ctx) or {}
    names = {"start": "startFields", "success": "successFields", "failure": "failureFields"}
    lists = {names[k]: dict(v["fields"], **({"<unrecognised>": v["unknown"]} if v["unknown"] else {})) for k, v in raw.items()}
    want = {"startFields": {AT: "<type>", AS: ST["STARTED_STATUS"]}, "successFields": {AT: "<type>", AS: ST["SUCCEEDED_STATUS"]},
            "failureFields": {AT: "<type>", AS: ST["FAILED_STATUS"], RE: "<field>", EX: "<field>"}}
    chk.req(lists == want, "C14.emit", "ActionType.__init__:implicit-fields-per-message-kind", chk.where(at), good="start/success/failure serializers declare action_type + the matching status (+ reason, exception)",
            fail="implicit fields are %s, expected %s" % (lists, want))
    # library-added keys at the emission sites are covered
    from . import c02
    for q, kind in (("Action._start", "startFields"), ("Action.finish", None), ("Action.log", "message")):
        f = ctx.func("_action", q)
        cfg, wcalls = c02._write_call(chk, f)
        for n, c, m in wcalls:
            st = common.must_keys(ctx, f, c.args[0].id, c)
            libkeys = set(st.present) if st else set()
            if kind == "startFields":
                allowed = set(want["startFields"]) | reserved
            elif kind == "message":
                allowed = {MT} | reserved
            else:
                allowed = set(want["failureFields"]) | reserved
            chk.req(libkeys <= allowed and (kind != "startFields" or set(want["startFields"]) <= libkeys), "C14.emit", "%s:library-keys-are-implicit-or-reserved" % q, chk.where(f, c.lineno),
                    good="library-added keys %s are implicit fields of the kind's serializer or reserved" % sorted(libkeys),
                    fail="the emitter certainly adds %s, but the matching serializer only knows %s: correct use would fail validation" % (sorted(libkeys - allowed), sorted(allowed)))
    mt = ctx.func("_validation", "MessageType.__init__")
    okmt = False
    for n in iter_own_nodes(mt.node):
        if isinstance(n, ast.Call) and isinstance(n.func, ast.Attribute) and n.func.attr in ("forValue", "for_value") and len(n.args) >= 2 \
                and ctx.try_fold(mt, n.args[0]) == (True, MT) and isinstance(n.args[1], ast.Name) and n.args[1].id == mt.pos_params[1]:
            okmt = True
    chk.req(okmt, "C14.emit", "MessageType.__init__:implicit-message_type-field", chk.where(mt), good="message_type is an implicit fixed-value field", fail="MessageType no longer declares the implicit message_type field")


def rule_json(chk):
    ctx = chk.ctx
    vm = ctx.func("_output", "MemoryLogger._validate_message")
    cfg = ctx.cfg(vm)
    dumps = [(n, c) for n in cfg.live for c, m in calls_in_node(n) if isinstance(c.func, ast.Name) and c.func.id in ("_dumps_unicode", "_dumps_bytes")]
    problems = []
    if not dumps:
        problems.append("no JSON dump")
    else:
        quiet = common.quiet_exc_edges(ctx, vm)
        ok, wit = cfg.must_pass([cfg.entry], [cfg.exit], [n for n, c in dumps])
        if not ok:
            problems.append("a message can pass validation without having been JSON-encoded: %s" % cfg.fmt_path(wit))
        for n, c in dumps:
            ph = [e for e in ctx.cg.ctxmaps[vm].get(id(c), []) if e[1] == "body"]
            okh = bool(ph) and any(any(isinstance(x, ast.Raise) and x.exc is not None and "TypeError" in unparse(x.exc) for x in ast.walk(ast.Module(body=h.body, type_ignores=[]))) for h in ph[-1][0].handlers)
            if not okh:
                problems.append("a JSON encoding failure is not converted into TypeError")
            kw = {k.arg: k.value for k in c.keywords}
            if not (c.args and isinstance(c.args[0], ast.Name) and c.args[0].id == vm.params[1] and common.is_self_attr(kw.get("default"), "_json_default")):
                problems.append("the dump is not of the message with the logger's json_default")
    nonstr = [n for n in cfg.live if n.kind == "raise_stmt" and "TypeError" in unparse(n.ast) and "not unicode" in unparse(n.ast)]
    if not nonstr:
        problems.append("non-str field names are not rejected")
    vcalls = [n for n in cfg.live for c, m in calls_in_node(n) if isinstance(c.func, ast.Attribute) and c.func.attr == "validate" and isinstance(c.func.value, ast.Name) and c.func.value.id == vm.params[2]]
    if not vcalls or not cfg.must_pass([cfg.entry], [cfg.exit], vcalls, avoid_edges={(t, "false") for t in cfg.live if t.kind == "test" and unparse(t.exprs[0]) == "%s is not None" % vm.params[2]})[0]:
        problems.append("a message with a serializer can pass without serializer.validate")
    chk.req(not problems, "C14.json", "MemoryLogger._validate_message:typed-validation-and-JSON-encodability", chk.where(vm), good="serializer.validate (when typed), str keys, JSON dump -> TypeError on failure, on every normal path", fail="; ".join(problems), sites=len(cfg.live))
    w = ctx.func("_output", "MemoryLogger.write")
    wcfg = ctx.cfg(w)
    calls = ctx.calls_to(w, vm)
    problems = []
    for n, c, m in calls:
        a = c.args[0] if c.args else None
        if not (isinstance(a, ast.Call) and isinstance(a.func, ast.Attribute) and a.func.attr == "copy" and isinstance(a.func.value, ast.Name) and a.func.value.id == w.params[1]):
            problems.append("write validates the stored dictionary itself, not a copy")
    if not calls or not wcfg.must_pass([wcfg.entry], [wcfg.exit], [n for n, c, m in calls])[0]:
        problems.append("a write can skip validation")
    rec = [n for n in wcfg.live for c, m in calls_in_node(n) if isinstance(c.func, ast.Attribute) and c.func.attr == "append" and common.is_self_attr(c.func.value, "_failed_validations")]
    hn = [n for n in wcfg.live if n.kind == "handler"]
    okrec = bool(rec) and bool(hn)
    for h in hn:
        inf = common.infeasible_edges(wcfg, w, start=h)
        okrec = okrec and wcfg.must_pass([h], [wcfg.exit], rec, avoid_edges=inf)[0]
    if not okrec:
        problems.append("a validation failure at write time is not recorded")
    chk.req(not problems, "C14.json", "MemoryLogger.write:validates-a-copy-and-records-failures", chk.where(w), good="validate(copy) on every write; failures recorded", fail="; ".join(problems))
    vd = ctx.func("_output", "MemoryLogger.validate")
    vcfg = ctx.cfg(vd)
    loops = [n for n in vcfg.live if n.kind == "for_next"]
    okv = len(loops) == 1 and unparse(loops[0].ast.iter) == "zip(self.messages, self.serializers)"
    if okv:
        region = common.loop_region(vcfg, loops[0])
        cs = [n for n in region for c, m in calls_in_node(n) if vm in ctx.targets(vd, c)]
        rs = [n for n in region if n.kind == "raise_stmt"]
        hs = [n for n in region if n.kind == "handler"]
        okv = bool(cs) and bool(rs) and bool(hs) and all("TypeError" in " ".join(h.info["classes"]) and "ValidationError" in " ".join(h.info["classes"]) for h in hs) \
            and vcfg.must_pass(hs, [loops[0], vcfg.exit], rs)[0] and not any(n.kind in ("break", "continue", "return") for n in region)
    chk.req(okv, "C14.json", "MemoryLogger.validate:revalidates-every-message-and-raises", chk.where(vd), good="every stored (message, serializer) pair re-validated; failure re-raised", fail="validate() does not re-validate every stored message and raise on failure")


def rule_order_and_restore(chk):
    ctx = chk.ctx
    cfe = ctx.func("testing", "check_for_errors")
    cfg = ctx.cfg(cfe)
    lp = cfe.params[0]
    tests = [t for t in cfg.live if t.kind == "test" and unparse(t.exprs[0]) == "%s.tracebackMessages" % lp]
    rs = [n for n in cfg.live if n.kind == "raise_stmt" and "UnflushedTracebacks" in unparse(n.ast)]
    vs = [n for n in cfg.live for c, m in calls_in_node(n) if isinstance(c.func, ast.Attribute) and c.func.attr == "validate" and isinstance(c.func.value, ast.Name) and c.func.value.id == lp]
    ok = bool(tests) and bool(rs) and bool(vs) and cfg.precedes(tests, vs)[0] and all(cfg.edge_dominates(tests[0], "true", r) for r in rs) \
        and cfg.must_pass([s for s, l in tests[0].succ if l == "true"], [cfg.exit, cfg.raise_exit], rs)[0] \
        and len([t for t, lab in cfg.guards_of(rs[0]) if t.kind == "test"]) == 1 \
        and cfg.must_pass([cfg.entry], [cfg.exit], vs)[0]
    chk.req(ok, "C14.order", "check_for_errors:tracebacks-first-then-validate", chk.where(cfe), good="unflushed tracebacks raise unconditionally before validate() is consulted; validate() on every other path",
            fail="check_for_errors does not raise UnflushedTracebacks (unconditionally, first) for unflushed tracebacks, or can skip validate()")
    # capture_logging
    cl = ctx.func("testing", "capture_logging")
    sw = ctx.func("testing", "swap_logger")
    ws = [g for g in ctx.p.mod("testing").funcs.values() if g.qualname.startswith("capture_logging.") and g.name == "wrapper"]
    chk.need(len(ws) == 1, "capture_logging: wrapper not found")
    w = ws[0]
    wcfg = ctx.cfg(w)
    problems = []
    inst = [(n, c) for n, c, m in ctx.calls_to(w, sw)]
    inline_direct = []
    if len(inst) == 1:
        # addCleanup(swap_logger, swap_logger(logger)): the installing call's result goes straight into the restoring cleanup
        inline_direct = [n for n in wcfg.live for c, m in calls_in_node(n) if isinstance(c.func, ast.Attribute) and c.func.attr == "addCleanup" and len(c.args) == 2
                         and isinstance(c.args[0], ast.Name) and c.args[0].id == sw.name and c.args[1] is inst[0][1]]
    if inline_direct:
        fcalls = [n for n in wcfg.live for c, m in calls_in_node(n) if isinstance(c.func, ast.Name) and c.func.id == "function"]
        if not fcalls or not wcfg.precedes(inline_direct, fcalls)[0]:
            problems.append("the restoring cleanup is not registered with addCleanup before the test function is called")
    elif len(inst) != 1 or not isinstance(inst[0][0].ast, ast.Assign):
        problems.append("the wrapper does not install the logger with exactly one swap_logger(logger) whose result is kept")
    elif not isinstance(inst[0][0].ast.targets[0], ast.Name):
        # the previous logger is kept somewhere else than in a local: who restores it, and is that guaranteed?
        has_cleanup = any(isinstance(c.func, ast.Attribute) and c.func.attr == "addCleanup" for n in wcfg.live for c, m in calls_in_node(n))
        has_finally = any(isinstance(x, ast.Try) and x.finalbody for x in iter_own_nodes(w.node))
        if has_cleanup or has_finally:
            raise AnalysisError("capture_logging: the previous logger is kept in %s and restored by a cleanup / finally the analyser does not model" % unparse(inst[0][0].ast.targets[0])[:40])
        fam = [g for g in ctx.p.mod("testing").funcs.values() if g.qualname.startswith("capture_logging.") and g is not w]
        restorers = [g for g in fam if any(isinstance(x, ast.Call) and sw in ctx.targets(g, x) for x in iter_own_nodes(g.node))]
        witness = None
        for r_ in restorers:
            for g in fam:
                if g is r_:
                    continue
                gcfg = ctx.cfg(g)
                rcalls = [n for n in gcfg.live for c, m in calls_in_node(n) if isinstance(c.func, ast.Name) and c.func.id == r_.name]
                if not rcalls or any(isinstance(x, ast.Try) and x.finalbody for x in iter_own_nodes(g.node)):
                    continue
                before = [(n, c) for n in gcfg.live for c, m in calls_in_node(n) if n not in rcalls and not (isinstance(c.func, ast.Name) and c.func.id == r_.name)
                          and gcfg.precedes([n], rcalls)[0] is not None and n in gcfg.reach([gcfg.entry]) and any(rc in gcfg.reach([n]) for rc in rcalls)]
                if before:
                    witness = (g, r_, before[0][1])
        if witness is not None:
            g, r_, c = witness
            problems.append("the wrapper registers no cleanup and has no finally; the previous logger is put back by %s(), which %s calls only after %s returns: when that call raises "
                            "(a failing assertion), the test's MemoryLogger stays installed as the default logger for every later test" % (r_.name, g.name, unparse(c)[:50]))
        else:
            raise AnalysisError("capture_logging: the previous logger is kept in %s; how it is restored is not modelled" % unparse(inst[0][0].ast.targets[0])[:40])
    else:
        prev = inst[0][0].ast.targets[0].id
        direct = [n for n in wcfg.live for c, m in calls_in_node(n) if isinstance(c.func, ast.Attribute) and c.func.attr == "addCleanup" and len(c.args) == 2
                  and isinstance(c.args[0], ast.Name) and sw in [t for t in [ctx.p.resolve_name(w.module, w, c.args[0].id)] if False] + ([sw] if c.args[0].id == sw.name else [])
                  and isinstance(c.args[1], ast.Name) and c.args[1].id == prev]
        restorers = [g for g in w.nested.values() if any(isinstance(x, ast.Call) and sw in ctx.targets(g, x) and len(x.args) == 1 and isinstance(x.args[0], ast.Name) and x.args[0].id == prev for x in ast.walk(g.node))]
        if direct and len(stores_to_name(w, prev)) == 1:
            fcalls = [n for n in wcfg.live for c, m in calls_in_node(n) if isinstance(c.func, ast.Name) and c.func.id == "function"]
            if not fcalls or not wcfg.precedes(direct, fcalls)[0]:
                problems.append("the restoring cleanup is not registered with addCleanup before the test function is called")
            if not wcfg.must_pass([inst[0][0]], [wcfg.exit, wcfg.raise_exit], direct, avoid_edges=common.quiet_exc_edges(ctx, w))[0]:
                problems.append("a path installs the logger without registering the restoring cleanup")
        elif not restorers or len(stores_to_name(w, prev)) != 1:
            problems.append("no cleanup restores exactly the logger returned by the installing swap_logger call")
        else:
            rg = restorers[0]
            extra = [x for x in ast.walk(rg.node) if isinstance(x, (ast.If, ast.Try, ast.Return, ast.Raise))]
            if extra:
                problems.append("the restoring cleanup is conditional")
            regs = [n for n in wcfg.live for c, m in calls_in_node(n) if isinstance(c.func, ast.Attribute) and c.func.attr == "addCleanup" and c.args and isinstance(c.args[0], ast.Name) and c.args[0].id == rg.name]
            fcalls = [n for n in wcfg.live for c, m in calls_in_node(n) if isinstance(c.func, ast.Name) and c.func.id == "function"]
            if not regs or not fcalls or not wcfg.precedes(regs, fcalls)[0]:
                problems.append("the restoring cleanup is not registered with addCleanup before the test function is called")
            if regs and not wcfg.must_pass([inst[0][0]], [wcfg.exit, wcfg.raise_exit], regs, avoid_edges=common.quiet_exc_edges(ctx, w))[0]:
                problems.append("a path installs the logger without registering the restoring cleanup")
    chk.req(not problems, "C14.restore", "capture_logging:previous-logger-restored-by-cleanup", chk.where(w), good="previous = swap_logger(logger); addCleanup(restore previous) before the test runs", fail="; ".join(problems))
    # validate_logging registers check_for_errors before calling the test
    vws = [g for g in ctx.p.mod("testing").funcs.values() if g.qualname.startswith("validateLogging.") and g.name == "wrapper"]
    chk.need(len(vws) == 1, "validateLogging: wrapper not found")
    vw = vws[0]
    vcfg = ctx.cfg(vw)
    regs = [n for n in vcfg.live for c, m in calls_in_node(n) if isinstance(c.func, ast.Attribute) and c.func.attr == "addCleanup" and c.args and isinstance(c.args[0], ast.Name) and c.args[0].id == "check_for_errors"]
    fcalls = [n for n in vcfg.live for c, m in calls_in_node(n) if isinstance(c.func, ast.Name) and c.func.id == "function"]
    okv = bool(regs) and bool(fcalls) and vcfg.precedes(regs, fcalls)[0] and vcfg.must_pass([vcfg.entry], fcalls, regs)[0]
    chk.req(okv, "C14.restore", "validate_logging:check_for_errors-registered-before-the-test", chk.where(vw), good="addCleanup(check_for_errors, logger) precedes the test call", fail="check_for_errors is not registered as a cleanup before the test runs")
    # swap_logger is the only writer of the default logger
    writers = []
    for f in ctx.p.all_funcs():
        for n in iter_own_nodes(f.node):
            if isinstance(n, ast.Assign) and any("_DEFAULT_LOGGER" in unparse(t) for t in n.targets):
                writers.append(f.fq)
            if isinstance(n, ast.Global) and "_DEFAULT_LOGGER" in n.names:
                writers.append(f.fq)
    chk.req(set(writers) == {"testing:swap_logger"}, "C14.restore", "_DEFAULT_LOGGER:written-only-by-swap_logger", chk.where(sw), good="single writer", fail="the default logger is written by %s" % sorted(set(writers)))
    scfg = ctx.cfg(sw)
    t = [unparse(s) for s in sw.node.body if not (isinstance(s, ast.Expr) and isinstance(s.value, ast.Constant))]
    oks = len(t) == 3 and t[0].endswith("= _output._DEFAULT_LOGGER") and t[1] == "_output._DEFAULT_LOGGER = %s" % sw.params[0] and t[2] == "return %s" % t[0].split(" = ")[0]
    chk.req(oks, "C14.restore", "swap_logger:returns-previous-installs-given", chk.where(sw), good="previous = current; current = given; return previous", fail="swap_logger is %s" % t)


def run(chk):
    head2, test2 = rule_reserved(chk)
    rule_extras(chk)
    rule_shape(chk, head2, test2)
    rule_emit(chk)
    rule_json(chk)
    rule_order_and_restore(chk)
    from . import c13
    c13.rule_serializer_flow(chk)  # a typed action whose serializers are dropped on the way is never validated
    c13.rule_wiring(chk)
    from . import c03
    c03.rule_failfields(chk)  # the failed end message that is validated carries the computed status/exception/reason, not an extractor's overrides
    c13.rule_attach(chk)  # validation is driven by the serializer that travels with each message: a path that drops it is never validated
    common.rule_forwarding(chk, "C14", keys=[("_action", "start_action"), ("_action", "startTask"), ("_action", "Action.child"), ("_action", "Action.continue_task"), ("_action", "Action.__init__"), ("_action", "Action.log"), ("_action", "log_message"), ("_validation", "ActionType.__call__"), ("_validation", "ActionType.as_task"), ("_validation", "MessageType.log"), ("_validation", "MessageType.__call__"), ("_message", "Message.write"), ("_message", "Message.__init__"), ("_output", "Logger.write"), ("_output", "MemoryLogger.write")])
