"""C01 -- emitted logs parse back to exactly the action tree the program executed (partial)."""

import ast

from ..index import unparse, iter_own_nodes
from . import common, c02, c03, c04, c06, c08, c09, c10, c13

EXPLANATION = (
    "PARTIAL.  Not decided: round-trip EQUALITY of trees and field values over all programs and JSON values "
    "(runtime-value property; JSON fidelity is orjson's behaviour).  Decided -- necessary structural conditions "
    "of 'nothing is lost, duplicated, re-parented or re-ordered': (keys) writer/reader key-table agreement: the "
    "must-key-sets of the three emission sites contain, by folded value, every key the parser, WrittenMessage "
    "and WrittenAction dispatch on, start messages carry the started status, end messages a status the parser "
    "accepts, plain messages carry message_type and not action_type; (alloc) one position per emission "
    "(C02.alloc); (pipe) no filter between emission and the file: Logger.write always reaches send or the "
    "failure path, the fan-out covers every destination, one line per message (C13.once, C08.fanout, C10.line); "
    "(count) the parser's completeness arithmetic matches the writer's two own positions per action; (scope) "
    "the current-action scoping that decides parentage is paired set/reset (C04.pair); (dispatch) the parser "
    "classifies action vs message by presence of action_type and start vs end by the started status."
    "  The threaded writer's own rules (C19: unregister before the stop marker is queued, reader leaves only on the marker, a destination failure is contained inside the loop, one delivery per dequeued item) are part of this property as well."
)
RULE = "obligation = rule instance bound to an emission site / reader access / referenced rule; non-trivial = dataflow state or CFG paths examined"
ASSUMPTIONS = [
    "equality of field values after the JSON round trip is not decided",
    "parser confluence is C09's undecided part",
]


def reader_keys(chk):
    """Constant keys the parser side reads from message dictionaries."""
    ctx = chk.ctx
    p = ctx.p
    out = {}
    funcs = [f for f in p.mod("parse").funcs.values()] + [f for f in p.mod("_message").funcs.values() if f.qualname.startswith("WrittenMessage.")] \
        + [f for f in p.mod("_action").funcs.values() if f.qualname.startswith("WrittenAction.")]
    for f in funcs:
        for n in iter_own_nodes(f.node):
            key = None
            if isinstance(n, ast.Subscript) and isinstance(n.ctx, ast.Load) and isinstance(n.slice, (ast.Name, ast.Constant)):
                base = unparse(n.value)
                if any(s in base for s in ("message_dict", "_logged_dict", "contents")):
                    key = n.slice
            elif isinstance(n, ast.Call) and isinstance(n.func, ast.Attribute) and n.func.attr in ("get", "discard") and n.args \
                    and any(s in unparse(n.func.value) for s in ("message_dict", "_logged_dict", "contents")):
                key = n.args[0]
            if key is not None:
                ok, v = ctx.try_fold(f, key)
                if ok and isinstance(v, str):
                    out.setdefault(v, []).append("%s:%d" % (f.fq, n.lineno))
    return out


def rule_keys(chk):
    ctx = chk.ctx
    p = ctx.p
    act, msg = p.mod("_action"), p.mod("_message")
    TS, UU, TL, MT = (p.fold_global(msg, k) for k in ("TIMESTAMP_FIELD", "TASK_UUID_FIELD", "TASK_LEVEL_FIELD", "MESSAGE_TYPE_FIELD"))
    AT, AS = p.fold_global(act, "ACTION_TYPE_FIELD"), p.fold_global(act, "ACTION_STATUS_FIELD")
    STARTED, SUCC, FAIL = (p.fold_global(act, k) for k in ("STARTED_STATUS", "SUCCEEDED_STATUS", "FAILED_STATUS"))
    EX, RE = p.fold_global(msg, "EXCEPTION_FIELD"), p.fold_global(msg, "REASON_FIELD")
    rk = reader_keys(chk)
    chk.instances("C01.keys:reader key accesses", sum(len(v) for v in rk.values()), 10)
    writer_keys = {TS, UU, TL, MT, AT, AS, EX, RE}
    stray = {k: v for k, v in rk.items() if k not in writer_keys}
    chk.req(not stray, "C01.keys", "parser:reads-only-keys-the-writer-stores", "eliot/parse.py",
            good="reader dispatches on %s" % sorted(rk), fail="the parser side reads keys the emitters never store under that name: %s" % stray, sites=len(rk))
    needed = {UU, TL, TS, AT, AS}
    chk.req(needed <= set(rk), "C01.keys", "parser:reads-all-placement-keys", "eliot/parse.py", good="task_uuid, task_level, timestamp, action_type, action_status all consulted",
            fail="the parser side no longer consults %s" % sorted(needed - set(rk)))
    # writer side facts
    for q in c02.EMISSION:
        f = ctx.func("_action", q)
        cfg, wcalls = c02._write_call(chk, f)
        for n, c, m in wcalls:
            st = common.must_keys(ctx, f, c.args[0].id, c)
            chk.need(st is not None, "%s: write unreachable" % q)
            pres = st.present
            if q == "Action._start":
                v = pres.get(AS)
                chk.req({UU, TL, TS, AT, AS} <= set(pres) and v is not None and v[1] is not None and ctx.try_fold(f, v[1]) == (True, STARTED),
                        "C01.keys", "%s:start-message-keys" % q, chk.where(f, c.lineno), good="start carries uuid, level, timestamp, action_type and status=%r" % STARTED,
                        fail="the start message does not certainly carry the placement keys and status %r (state: %s)" % (STARTED, sorted(pres)))
            elif q == "Action.finish":
                chk.req({UU, TL, TS, AT, AS} <= set(pres), "C01.keys", "%s:end-message-keys" % q, chk.where(f, c.lineno),
                        good="end carries uuid, level, timestamp, action_type and a status", fail="the end message lacks placement keys (state: %s)" % sorted(pres))
            else:
                chk.req({UU, TL, TS, MT} <= set(pres) and AT not in pres, "C01.keys", "%s:message-keys" % q, chk.where(f, c.lineno),
                        good="message carries uuid, level, timestamp, message_type and no library-set action_type",
                        fail="a plain message does not certainly carry message_type / carries action_type (state: %s)" % sorted(pres))
    # statuses the parser accepts at the end = the two the writer stores
    wend = ctx.func("_action", "WrittenAction._end")
    accepted = None
    for n in iter_own_nodes(wend.node):
        if isinstance(n, ast.Compare) and isinstance(n.ops[0], ast.NotIn):
            ok, v = ctx.try_fold(wend, n.comparators[0])
            if ok:
                accepted = set(v)
    chk.req(accepted == {SUCC, FAIL}, "C01.keys", "WrittenAction._end:accepts-exactly-the-writer's-end-statuses", chk.where(wend),
            good="end statuses %s" % sorted(accepted or []), fail="the parser accepts end statuses %s, the writer stores %s" % (accepted, {SUCC, FAIL}))
    wstart = ctx.func("_action", "WrittenAction._start")
    okst = any(isinstance(n, ast.Compare) and ctx.try_fold(wstart, n.comparators[0]) == (True, STARTED) and AS in [ctx.try_fold(wstart, a)[1] for a in (n.left.args if isinstance(n.left, ast.Call) else [])]
               for n in iter_own_nodes(wstart.node))
    chk.req(okst, "C01.keys", "WrittenAction._start:requires-the-started-status", chk.where(wstart), good="start accepted iff status == %r" % STARTED,
            fail="WrittenAction._start does not test action_status against %r" % STARTED)


def run(chk):
    rule_keys(chk)
    c02.rule_alloc(chk, prefix="C01")
    c02.rule_who(chk)
    c13.rule_once(chk)
    c08.rule_fanout(chk)
    c10.rule_line(chk, prefix="C01", flush=False)
    c09.rule_never_early(chk, prefix="C01")
    c09.rule_add_dispatch(chk)
    c09.rule_upward(chk)
    from . import c19
    c19.rule_writer(chk)    # the emitted stream through the threaded writer: nothing accepted is dropped, nothing delivered after the stop
    c04.rule_pairs(chk)
    c03.rule_start(chk)
    c03.rule_once(chk)
    c03.rule_truthful(chk)  # 'outcome statuses' of the emitted tree are those of the executed actions
    c03.rule_failfields(chk)
    from . import c18
    c18.rule_args(chk)  # log_call's action carries the arguments of the call actually made; a binding failure loses the action
    c03.rule_builtin_extractors(chk, prefix="C01")  # a failed action whose end message the encoder rejects stays 'started' in the parsed tree
    c06.rule_reserve_and_codec(chk)  # remote sub-tasks continue at the reserved position
    c09.rule_model(chk, prefix="C01")
    c09.rule_orderings(chk, prefix="C01")
    c02.rule_uuid(chk)  # one task per top-level action: every root gets a uuid4() of its own
    common.rule_forwarding(chk, "C01")
