"""C07 -- logging never raises into, or alters, the application."""

import ast

from ..index import AnalysisError, unparse, iter_own_nodes
from ..contain import reentry_edges, failure_sites, protecting_handler, narrow_handlers
from ..cfg import calls_in_node
from ..framework import stores_to_name, assigned_values
from . import common

EXPLANATION = (
    "Effect (exception-containment) analysis over the whole-program call graph: for every public "
    "logging entry point derived from eliot.__all__ the set U(entry) of raise sources (foreign calls: "
    "destinations, serializers, validators, extractors, str()/repr() of logged objects, JSON dumps, "
    "file writes; and explicit raise statements) that can propagate out of it is computed as a least "
    "fixed point; a source is contained only by a try whose handler catches at least Exception and does "
    "not re-raise.  U(entry) must be empty apart from the confirmed table of API-misuse errors and of "
    "application callables run on the caller's behalf.  Every failure handler that re-enters logging "
    "(call-graph cycle through an except body or a deferred error loop) must have a recognised cut."
    "  Keyword splats (C07.splat): a dictionary whose keys are chosen at run time (message fields, extractor results; key-domain analysis CONST/KW/DATA with an interprocedural fixed point over **kw parameters) is passed as **kwargs only to callees none of whose already-bound keyword-passable parameters it can name.  Generator-based application code: the wrapper's value/exception transparency rules of C15 are included."
    '  C07.excinfo: what write_traceback / _write_extractor_traceback unpack must be a (type, value, traceback) triple on every path (one element of sys.exc_info() is None when no exception is being handled).'
)
RULE = ("obligation = (entry point, escaping source) | (core foreign site, containing handler) | "
        "(failure re-entry edge, cut); distinct = distinct constructs; non-trivial = at least one call "
        "path / handler examined")
ASSUMPTIONS = [
    "implicit operations on library-owned data (KeyError on the library's own dicts, attribute access) do not raise",
    "warnings.warn does not raise (no -W error configuration)",
    "formatting/comparison operators applied to field values ('%s' % x, ==) are not analysed; only calls are",
    "user-supplied ILogger implementations are foreign; the repo's implementers Logger and MemoryLogger are analysed",
    "traceback.format_exception / inspect.stack / contextvars are total (trusted stdlib table in sa/callgraph.py)",
]

# --- confirmed table of sources that may intentionally leave an entry point -----------
# key: (function that contains the source, kind, descriptor)  -> reason
ALLOWED = {
    ("_action:Action.continue_task", "raise", "RuntimeError"): "API misuse: task_id not supplied",
    ("_action:Action.continue_task", "raise", "ValueError"): "API misuse: malformed task id (the pinned code raises ValueError for it as well, from unpacking the split / int())",
    ("_action:preserve_context.restore_eliot_context", "raise", "TooManyCalls"): "documented single-use error",
    ("_action:log_call", "raise", "ValueError"): "decoration-time: include_args names unknown parameter",
    ("_output:FileDestination.__new__", "raise", "RuntimeError"): "construction-time: file not writable",
    ("_output:_json_default_from_encoder_and_json_default", "raise", "RuntimeError"): "construction-time: both encoder and default given",
    ("_output:_json_default_from_encoder_and_json_default", "foreign", "encoder"): "construction-time: instantiates the caller's encoder class",
    ("_output:FileDestination.__new__", "foreign", "file.writable"): "construction-time probe of the caller's file",
    ("_output:FileDestination.__new__", "foreign", "file.write"): "construction-time probe of the caller's file",
    ("_validation:_MessageSerializer.__init__", "raise", "TypeError"): "type-definition error",
    ("_validation:_MessageSerializer.__init__", "raise", "ValueError"): "type-definition error",
    ("_validation:Field.forTypes", "raise", "TypeError"): "type-definition error",
    # application callables run on the caller's behalf: their exceptions must propagate unchanged
    ("_action:Action.run", "foreign", "f"): "application function",
    ("_action:preserve_context.restore_eliot_context", "foreign", "f"): "application function",
    ("_action:log_call.logging_wrapper", "foreign", "wrapped_function"): "application function",
    ("_action:log_call.logging_wrapper", "foreign", "getcallargs"): "argument binding raises TypeError exactly like the undecorated call",
    ("_action:log_call", "foreign", "signature"): "decoration-time",
    ("_traceback:writeFailure", "foreign", "failure.getBriefTraceback"): "Twisted Failure API (third party, trusted)",
}

# test-time / validation API of the typed-message classes: raising is their purpose (C14)
NON_LOGGING_METHODS = {
    "MemoryLogger": {"validate", "serialize", "flushTracebacks", "flush_tracebacks", "reset"},
    "Field": {"validate", "serialize"},
}


def entry_points(chk):
    """Public logging entry points, derived from eliot/__init__.py::__all__."""
    p = chk.ctx.p
    init = p.mod("__init__")
    names = None
    for vals in [init.assigns.get("__all__", [])]:
        for v in vals:
            if isinstance(v, ast.AST):
                ok, folded = p.try_fold(init, v)
                if ok:
                    names = list(folded)
    chk.need(names, "eliot.__all__ not found / not foldable")
    entries = {}
    for name in names:
        r = p.resolve_global(init, name)
        if r[0] == "func":
            entries[r[1]] = "eliot.%s" % name
        elif r[0] == "boundmethod":
            entries[r[2]] = "eliot.%s" % name
        elif r[0] == "class":
            ci = r[1]
            for mname, m in ci.methods.items():
                if mname in NON_LOGGING_METHODS.get(ci.name, ()):
                    continue
                if mname.startswith("_") and mname not in ("__init__", "__new__", "__call__", "__enter__", "__exit__", "_start"):
                    continue
                if ci.name == "FileDestination" and mname == "__call__":
                    continue  # a destination callable: its exceptions are contained by Destinations.send (C08)
                entries[m] = "eliot.%s.%s" % (name, mname)
    # closures handed back to the application by entry points
    for f in list(entries):
        for nested in f.nested.values():
            if nested.is_lambda:
                continue
            for n in iter_own_nodes(f.node):
                if isinstance(n, ast.Return) and isinstance(n.value, ast.Name) and n.value.id == nested.name:
                    entries[nested] = entries[f] + " -> " + nested.name
    return entries


def source_descriptor(src):
    if src.kind == "raise":
        return src.detail.split(".")[-1]
    c = src.node
    return unparse(c.func) if isinstance(c, ast.Call) else src.text


def _optional_argument_validation(ctx, src):
    """`raise TypeError/ValueError(...)` reached only through tests of keyword-only parameters that have a default, before the
    function has called anything: the check of an optional configuration argument (never of what is being logged -- fields and
    message types are not passed that way), surfaced at the call site like Python's own argument-binding TypeError."""
    if src.kind != "raise" or src.detail.split(".")[-1] not in ("TypeError", "ValueError"):
        return False
    f = src.func
    a = f.node.args
    optional = {x.arg for x, d in zip(a.kwonlyargs, a.kw_defaults) if d is not None}
    if not optional:
        return False
    cfg = ctx.cfg(f)
    rn = [n for n in cfg.live if n.kind == "raise_stmt" and n.lineno == src.lineno]
    if len(rn) != 1:
        return False
    guards = [t for t, lab in cfg.guards_of(rn[0]) if t.kind == "test"]
    if not guards:
        return False
    pure = {"isinstance", "str", "bytes", "int", "float", "bool", "type", "len", "callable", "tuple", "list"}
    for t in guards:
        names = {x.id for x in ast.walk(t.exprs[0]) if isinstance(x, ast.Name)}
        if not (names & optional) or not names <= optional | pure | {"None"}:
            return False
    # nothing has been called before the raise, apart from those tests
    before = [n for n in cfg.live if n is not rn[0] and n not in guards and rn[0] in cfg.reach([n]) and any(True for c, m in calls_in_node(n))]
    return not before


def rule_contain(chk, only=None):
    """only: iterable of entry labels (e.g. "eliot.log_call") to restrict the rule to, for properties that depend on the
    containment of a few entry points only"""
    ctx = chk.ctx
    ct = ctx.contain
    # the containment analysis rests on the fan-out loop of Destinations.send (each destination call wrapped, failures reported after the
    # loop, the report's own recursion cut by the message-type guard): if that loop is not there in a recognisable form, nothing below is
    # meaningful -- not evaluated rather than a list of spurious escapes
    from . import c08
    c08.fanout_anchor(ctx)
    entries = entry_points(chk)
    if only is not None:
        entries = {f: l for f, l in entries.items() if l in set(only)}
        chk.need(entries, "C07.contain: none of the entry points %s exists" % sorted(only))
    else:
        chk.instances("C07.contain:entry-points", len(entries), 40)
    for f, label in sorted(entries.items(), key=lambda kv: kv[1]):
        esc = ct.escaping(f)
        bad = []
        for src, path in esc:
            fq_ = src.func.fq
            if fq_.startswith("_action:preserve_context.") and not src.func.is_lambda:
                fq_ = "_action:preserve_context.restore_eliot_context"   # whichever nested function of preserve_context runs the application's f / rejects the repeat call
            key = (fq_, src.kind if src.kind != "unknown" else "foreign", source_descriptor(src))
            if key in ALLOWED:
                continue
            if _optional_argument_validation(ctx, src):
                continue
            if src.kind == "raise" and isinstance(src.node, ast.Raise) and src.node.exc is None and src.func.fq == "_action:log_call.logging_wrapper":
                continue  # a bare `raise` in a handler of the wrapper hands the application's own exception on unchanged
            if src.func.fq == "_action:log_call.logging_wrapper" and src.kind != "raise" and any(
                    w_ in source_descriptor(src) for w_ in ("signature", ".bind", "apply_defaults", "getcallargs")):
                continue  # argument binding: raises TypeError exactly when the undecorated call would
            bad.append((src, path))
        if not bad:
            chk.ok("C07.contain", label, chk.where(f), "U(entry) has %d source(s), all in the confirmed table" % len(esc),
                   sites=max(1, len(ctx.cg.sites.get(f, []))))
        for src, path in bad:
            why = ""
            if isinstance(src.node, ast.AST):
                c = ctx.cg.ctxmaps[src.func].get(id(src.node), [])
                nar = narrow_handlers(c)
                if nar:
                    why = " (enclosing handler at line %d is narrower than Exception)" % nar[0].handlers[0].lineno
            chk.bad("C07.contain", "%s<-%s" % (label, src.key), src.where,
                    "exception can propagate out of %s: %s%s" % (label, ct.fmt_path(f, src, path), why),
                    sites=len(path) + 1)


def rule_exc_info_shape(chk):
    """write_traceback / _write_extractor_traceback unpack a (type, value, traceback) triple.  What they unpack must be a triple on every
    path: the whole result of sys.exc_info(), a 3-tuple, or the caller's exc_info argument.  One element of sys.exc_info() is None
    whenever no exception is being handled (a call after the except block ended, from a finally, a callback, a fresh thread), and
    unpacking None raises TypeError into the application."""
    ctx = chk.ctx
    n_sites = 0
    for q in ("write_traceback", "_write_extractor_traceback"):
        f = ctx.func("_traceback", q)
        cfg = ctx.cfg(f)
        params = set(f.params)

        def classify(e, depth=0):
            if isinstance(e, ast.Call) and unparse(e.func) in ("sys.exc_info", "exc_info"):
                return "triple"
            if isinstance(e, ast.Tuple) and len(e.elts) == 3:
                return "triple"
            if isinstance(e, ast.Subscript) and isinstance(e.value, ast.Call) and unparse(e.value.func) in ("sys.exc_info", "exc_info"):
                return "nullable"
            if isinstance(e, ast.Name) and e.id in params and not stores_to_name(f, e.id):
                return "param"
            return "other"
        for u in cfg.live:
            a = u.ast
            if not (isinstance(a, ast.Assign) and len(a.targets) == 1 and isinstance(a.targets[0], ast.Tuple) and len(a.targets[0].elts) == 3 and u.kind != "test"):
                continue
            n_sites += 1
            v = a.value
            if not isinstance(v, ast.Name):
                k = classify(v)
                chk.req(k in ("triple", "param"), "C07.excinfo", "%s:unpacks-a-triple" % q, chk.where(f, u.lineno), good="unpacks %s" % unparse(v)[:40],
                        fail="unpacks %s, which is not a (type, value, traceback) triple on every call" % unparse(v)[:50])
                continue
            defs = [d for d in cfg.live if isinstance(d.ast, ast.Assign) and d.kind != "test" and any(isinstance(t, ast.Name) and t.id == v.id for t in d.ast.targets)]
            bad, unknown = [], []
            if v.id in params:
                pass  # the argument as given: a triple by contract
            for d in defs:
                k = classify(d.ast.value)
                others = {x for x in defs if x is not d}
                dead = common.infeasible_edges(cfg, f, start=d)   # `x = None` directly followed by `if x is None:` -- the other branch cannot be taken
                reaches = u in cfg.reach([s_ for s_, l_ in d.succ if l_ != "exc"], avoid=others, avoid_edges=dead) or any(s_ is u for s_, l_ in d.succ)
                if not reaches:
                    continue
                if k == "nullable":
                    bad.append(d)
                elif k == "other":
                    unknown.append(d)
            if bad:
                chk.bad("C07.excinfo", "%s:unpacks-a-triple" % q, chk.where(f, bad[0].lineno),
                        "`%s` reaches the unpacking at line %d: one element of sys.exc_info() is None whenever no exception is being handled (after the except block, in a finally, a callback, "
                        "a new thread), None is not turned into a triple on that path, and unpacking it raises TypeError into the application" % (unparse(bad[0].ast)[:60], u.lineno))
            elif unknown:
                raise AnalysisError("%s: the unpacked value comes from `%s` (shape not modelled)" % (q, unparse(unknown[0].ast)[:60]))
            else:
                chk.ok("C07.excinfo", "%s:unpacks-a-triple" % q, chk.where(f, u.lineno), "every definition reaching the unpacking is sys.exc_info() / a 3-tuple / the argument")
    chk.need(n_sites >= 2, "_traceback: the (type, value, traceback) unpackings were not found")


def core_sites(chk):
    """The foreign call sites confirmed on the pinned tree; each must exist (anchor) and
    be contained before any logging entry point (checked by rule_contain) -- here we
    additionally require the *local* handler shape the property's mechanism names."""
    ctx = chk.ctx
    p = ctx.p
    out = []

    def site_of(func, pred, what):
        found = [s for s in ctx.cg.sites[func] if s.call is not None and pred(s.call)]
        chk.need(found, "core foreign site vanished: %s in %s" % (what, func.fq))
        return found

    send = ctx.func("_output", "Destinations.send")
    loopvars = set()
    for n in iter_own_nodes(send.node):
        if isinstance(n, ast.For) and "self._destinations" in unparse(n.iter) and isinstance(n.target, ast.Name):
            loopvars.add(n.target.id)
    chk.need(loopvars, "fan-out loop over self._destinations not found in Destinations.send")
    for s in site_of(send, lambda c: isinstance(c.func, ast.Name) and c.func.id in loopvars, "destination call"):
        out.append((send, s, "destination callable"))
    lw = ctx.func("_output", "Logger.write")
    ser = ctx.func("_validation", "_MessageSerializer.serialize")
    for s in site_of(lw, lambda c: ser in ctx.targets(lw, c), "serializer.serialize"):
        out.append((lw, s, "field serializers"))
    gf = ctx.func("_errors", "ErrorExtraction.get_fields_for_exception")
    from ..framework import assigned_values

    def from_registry(c):
        if not isinstance(c.func, ast.Name):
            return False
        vals = assigned_values(gf, c.func.id)

        def ok(v):
            if isinstance(v, ast.Constant) and v.value is None:
                return True  # "nothing registered" placeholder on the not-found arm
            if isinstance(v, ast.Subscript) and unparse(v.value) == "self.registry":
                return True
            if isinstance(v, ast.Call) and isinstance(v.func, ast.Attribute) and v.func.attr == "get" and unparse(v.func.value) == "self.registry":
                return True
            # looked up by a helper method of the same class
            return isinstance(v, ast.Call) and any(t.cls is gf.cls for t in ctx.targets(gf, v))
        if vals and all(v is None for v in vals):
            # `found, extractor = self._lookup(exception)`: unpacked from a helper method of the same class
            tup = [n for n in iter_own_nodes(gf.node) if isinstance(n, ast.Assign) and len(n.targets) == 1 and isinstance(n.targets[0], (ast.Tuple, ast.List))
                   and any(isinstance(e, ast.Name) and e.id == c.func.id for e in n.targets[0].elts)]
            return len(tup) == len(vals) and all(isinstance(n.value, ast.Call) and any(t.cls is gf.cls for t in ctx.targets(gf, n.value)) for n in tup)
        return bool(vals) and all(v is not None and ok(v) for v in vals) and any(not isinstance(v, ast.Constant) for v in vals)
    for s in site_of(gf, from_registry, "extractor call"):
        out.append((gf, s, "exception extractor"))
    su = ctx.func("_util", "safeunicode")
    for s in site_of(su, lambda c: isinstance(c.func, ast.Name) and c.func.id == "str", "str(o)"):
        out.append((su, s, "str() of a logged object"))
    sr = ctx.func("_util", "saferepr")
    for s in site_of(sr, lambda c: isinstance(c.func, ast.Name) and c.func.id == "repr", "repr(o)"):
        out.append((sr, s, "repr() of a logged object"))
    return out


def rule_core(chk):
    sites = core_sites(chk)
    chk.instances("C07.contain:core-foreign-sites", len(sites), 5)
    for func, s, what in sites:
        ph = protecting_handler(s.ctx)
        chk.req(ph is not None, "C07.local", "%s:%s" % (func.fq, what), s.where,
                good="inside try whose handler (line %s) catches >= Exception and does not re-raise" % (ph[1].lineno if ph else "?"),
                fail="call of %s (%s) is not inside a try that catches at least Exception without re-raising" % (what, s.text[:60]))


def rule_mem_validate(chk):
    """MemoryLogger.write: the validation helper (validators, serializers, JSON dump) is
    called only inside a catch-all-Exception try."""
    ctx = chk.ctx
    mw = ctx.func("_output", "MemoryLogger.write")
    vm = ctx.func("_output", "MemoryLogger._validate_message")
    sites = [s for s in ctx.cg.sites[mw] if vm in s.repo_targets()]
    chk.need(sites, "MemoryLogger.write no longer calls _validate_message")
    for s in sites:
        chk.req(protecting_handler(s.ctx) is not None, "C07.local", "MemoryLogger.write:_validate_message", s.where,
                good="validation call contained", fail="validation (user validators/serializers/JSON) can raise out of MemoryLogger.write")


# ---------------------------------------------------------------------------
# failure recursion (E8)

def const_guard_cut(chk, f, site):
    """Context-sensitive search: starting from failure site `site` in f, follow calls,
    tracking parameters bound to literal constants; a call site dominated by a branch
    on such a parameter that evaluates to false is pruned.  Returns (cut?, trace)."""
    ctx = chk.ctx
    seen = set()
    trace = []

    def env_for(callee, call, caller_env):
        env = {}
        if call is None or callee.is_lambda:
            return env
        a = callee.node.args
        pos = [x.arg for x in a.posonlyargs + a.args]
        defaults = dict(zip(reversed(pos), reversed(a.defaults)))
        for k, d in zip(a.kwonlyargs, a.kw_defaults):
            if d is not None:
                defaults[k.arg] = d
        off = 1 if (callee.cls is not None and pos and pos[0] in ("self", "cls")) else 0
        bound = {}
        for i, arg in enumerate(call.args):
            if isinstance(arg, ast.Starred):
                return {}
            if i + off < len(pos):
                bound[pos[i + off]] = arg
        for kw in call.keywords:
            if kw.arg is None:
                return {}
            bound[kw.arg] = kw.value
        for name in callee.params:
            e = bound.get(name, defaults.get(name))
            if isinstance(e, ast.Constant):
                env[name] = e.value
            elif isinstance(e, ast.Name) and e.id in caller_env:
                env[name] = caller_env[e.id]
        # parameters that are rebound inside the callee are not constants
        from ..framework import stores_to_name
        for name in list(env):
            if stores_to_name(callee, name):
                del env[name]
        return env

    def pruned(g, node, env):
        cfg = ctx.cfg(g)
        for t, lab in cfg.guards_of(node):
            if t.kind != "test":
                continue
            val = eval_test(t.exprs[0], env)
            if val is None:
                continue
            if (lab == "true" and val is False) or (lab == "false" and val is True):
                return True
        return False

    def eval_test(e, env):
        if isinstance(e, ast.Name) and e.id in env:
            return bool(env[e.id])
        if isinstance(e, ast.UnaryOp) and isinstance(e.op, ast.Not):
            v = eval_test(e.operand, env)
            return None if v is None else (not v)
        if isinstance(e, ast.Compare) and len(e.ops) == 1 and isinstance(e.left, ast.Name) and e.left.id in env \
                and isinstance(e.comparators[0], ast.Constant):
            l, r = env[e.left.id], e.comparators[0].value
            if isinstance(e.ops[0], (ast.Is, ast.Eq)):
                return l is r or l == r
            if isinstance(e.ops[0], (ast.IsNot, ast.NotEq)):
                return not (l is r or l == r)
        return None

    def visit(g, env, depth):
        key = (g, tuple(sorted((k, repr(v)) for k, v in env.items())))
        if key in seen or depth > 40:
            return False
        seen.add(key)
        cfg = ctx.cfg(g)
        # failure sites of g are re-entry edges of their own and are analysed separately
        fsites = {id(s.call) for s, _how in failure_sites(ctx.cg, g) if s.call is not None}
        for n in cfg.live:
            for c, _m in calls_in_node(n):
                if id(c) in fsites:
                    continue
                tg = ctx.targets(g, c)
                if not tg:
                    continue
                if env and pruned(g, n, env):
                    trace.append("pruned %s in %s under %s" % (unparse(c)[:50], g.fq, env))
                    continue
                for h in tg:
                    if h is f:
                        trace.append("re-entered %s from %s@%d" % (f.fq, g.fq, c.lineno))
                        return True
                    if visit(h, env_for(h, c, env), depth + 1):
                        return True
        return False

    reenters = False
    for h in ctx.contain._callees(site):
        if h is f or visit(h, env_for(h, site.call, {}), 0):
            reenters = True
            break
    return (not reenters), trace


def rule_cycles(chk):
    ctx = chk.ctx
    edges = reentry_edges(ctx.cg, ctx.contain, list(ctx.p.all_funcs()))
    chk.instances("C07.cycles:failure re-entry edges", len(edges), 3)
    from . import c08
    for f, s, how in edges:
        label = "%s->%s" % (f.fq, unparse(s.call.func) if s.call is not None else s.text)
        cut, trace = const_guard_cut(chk, f, s)
        if cut:
            chk.ok("C07.cycles", label, s.where, "constant-argument guard cut: " + "; ".join(trace[-2:]), sites=len(trace) + 1)
            continue
        if how == "deferred-error-loop" and f.qualname == "Destinations.send":
            ok, detail = c08.guard_cut(chk, record=False)
            chk.req(ok, "C07.cycles", label, s.where, good="guard cut (C08.guard): " + detail,
                    fail="destination-failure report recursion has no guard cut: " + detail)
            continue
        if f.qualname == "Logger.write" and f.module.short == "_output":
            ok, detail = totality_cut(chk, f, s)
            chk.req(ok, "C07.cycles", label, s.where, good="totality cut: " + detail,
                    fail="serialization-failure report can fail again without bound: " + detail)
            continue
        chk.bad("C07.cycles", label, s.where,
                "failure handler re-enters the machinery that failed and no cut is recognised (%s); trace: %s"
                % (how, "; ".join(trace[-3:])), sites=len(trace) + 1)


def totality_cut(chk, f, site):
    """Serialization-failure cycle: in the recursive activation of Logger.write the try
    body cannot raise, because the serializer is None or TRACEBACK_MESSAGE's (total)."""
    ctx = chk.ctx
    p = ctx.p
    wt = ctx.func("_traceback", "write_traceback")
    lm = ctx.func("_action", "log_message")
    tg = site.repo_targets()
    if lm in tg:
        # log_message(<type>, ..., no __eliot_serializer__) -> Action.log pops default None
        kws = [k.arg for k in site.call.keywords]
        if None in kws:
            return False, "log_message called with **mapping: serializer key not excluded"
        if "__eliot_serializer__" in kws:
            return False, "report is logged with a serializer"
        alog = ctx.func("_action", "Action.log")
        okpop = False
        for n in iter_own_nodes(alog.node):
            if isinstance(n, ast.Call) and isinstance(n.func, ast.Attribute) and n.func.attr == "pop" and n.args \
                    and isinstance(n.args[0], ast.Constant) and n.args[0].value == "__eliot_serializer__":
                okpop = len(n.args) == 2 and isinstance(n.args[1], ast.Constant) and n.args[1].value is None
        if not okpop:
            return False, "Action.log does not default the serializer to None"
        # with serializer None the only call in the try body is guarded by `serializer is not None`
        return True, "report logged without serializer (serializer=None => try body makes no call)"
    if wt in tg or any(t.module.short == "_traceback" for t in tg):
        # every Field serializer of TRACEBACK_MESSAGE is total
        tb = p.mod("_traceback")
        vals = [v for v in tb.assigns.get("TRACEBACK_MESSAGE", []) if isinstance(v, ast.Call)]
        if len(vals) != 1:
            return False, "TRACEBACK_MESSAGE definition not found"
        call = vals[0]
        if len(call.args) < 2 or not isinstance(call.args[1], (ast.List, ast.Tuple)):
            return False, "TRACEBACK_MESSAGE field list not literal"
        ct = ctx.contain
        n = 0
        for fld in call.args[1].elts:
            if not (isinstance(fld, ast.Call) and len(fld.args) >= 2):
                return False, "unrecognised Field construction %s" % unparse(fld)[:40]
            ser = fld.args[1]
            r = None
            if isinstance(ser, ast.Lambda):
                if any(isinstance(x, ast.Call) for x in ast.walk(ser.body)):
                    return False, "lambda serializer of TRACEBACK_MESSAGE makes a call"
                n += 1
                continue
            r = p.resolve_expr_static(tb, None, ser)
            if not r or r[0] != "func":
                return False, "serializer %s of TRACEBACK_MESSAGE not resolvable" % unparse(ser)
            if ct.U.get(r[1]):
                return False, "serializer %s of TRACEBACK_MESSAGE can raise" % r[1].fq
            n += 1
        return True, "%d field serializers of TRACEBACK_MESSAGE are total (U=empty / call-free lambdas)" % n
    return False, "unrecognised call in the serialization-failure handler"


def rule_builtin_extractors(chk):
    """Extractors the library registers itself return a dict on every path (finish() and
    the traceback writer store into the result unguarded)."""
    ctx = chk.ctx
    p = ctx.p
    n = 0
    for m in p.prod_modules():
        for st in m.tree.body:
            if isinstance(st, ast.Expr) and isinstance(st.value, ast.Call) and unparse(st.value.func).endswith("register_exception_extractor") and len(st.value.args) == 2:
                n += 1
                fx = st.value.args[1]
                ok = False
                detail = unparse(fx)[:60]
                if isinstance(fx, ast.Lambda):
                    ok = isinstance(fx.body, ast.Dict) or (isinstance(fx.body, ast.Call) and unparse(fx.body.func) == "dict")
                else:
                    r = p.resolve_expr_static(m, None, fx)
                    if r and r[0] == "func":
                        g = r[1]
                        cfg = ctx.cfg(g)
                        rets = [x for x in cfg.live if x.kind == "return"]
                        falls = any(pn.kind != "return" and l != "return" for pn, l in cfg.exit.pred)
                        ok = bool(rets) and not falls and all(isinstance(x.ast.value, (ast.Dict, ast.DictComp)) or (isinstance(x.ast.value, ast.Call) and unparse(x.ast.value.func) == "dict") for x in rets)
                        detail = g.fq
                chk.req(ok, "C07.extractors", "%s:built-in-extractor-returns-a-dict-on-every-path(%s)" % (m.short, unparse(st.value.args[0])), "%s:%d" % (m.relpath, st.lineno),
                        good="%s always returns a dict" % detail,
                        fail="the extractor the library registers for %s (%s) can return a non-dict (e.g. None by falling off the end): finish()/write_traceback store into the result and raise TypeError, replacing the application's exception"
                             % (unparse(st.value.args[0]), detail))
    chk.instances("C07.extractors:library-registered extractors", n, 1)



# ---------------------------------------------------------------------------
# keyword splats: a dictionary whose keys are chosen at run time (the fields of a message, the result of an
# exception extractor) is passed as **kwargs only to callees none of whose already-bound parameters it can name

DATA = "DATA"


def _decorators(g):
    return {unparse(d).split(".")[-1] for d in getattr(g.node, "decorator_list", [])}


def _kw_passable(g):
    a = g.node.args
    return [x.arg for x in a.args + a.kwonlyargs]


def rule_splat(chk):
    ctx = chk.ctx
    p = ctx.p
    funcs = [f for f in p.all_funcs()]
    kwdata = {}  # FuncInfo -> True when an internal call site splats run-time-keyed data into its **kw parameter

    def dom(f, e, depth=0, seen=None):
        """CONST frozenset of keys, ("KW", f) or DATA."""
        seen = seen or set()
        if depth > 6:
            return DATA
        if isinstance(e, ast.Dict):
            keys = set()
            for k, v in zip(e.keys, e.values):
                if k is None:
                    d = dom(f, v, depth + 1, seen)
                    if not isinstance(d, frozenset):
                        return DATA
                    keys |= d
                else:
                    ok, val = ctx.try_fold(f, k)
                    if not ok or not isinstance(val, str):
                        return DATA
                    keys.add(val)
            return frozenset(keys)
        if isinstance(e, ast.Call):
            if isinstance(e.func, ast.Name) and e.func.id == "dict" and not e.args:
                if all(k.arg is not None for k in e.keywords):
                    return frozenset(k.arg for k in e.keywords)
                return DATA
            if isinstance(e.func, ast.Name) and e.func.id == "dict" and len(e.args) == 1 and not e.keywords:
                return dom(f, e.args[0], depth + 1, seen)
            if isinstance(e.func, ast.Attribute) and e.func.attr == "copy" and not e.args:
                return dom(f, e.func.value, depth + 1, seen)
            tg = ctx.cg.typer.resolve_call(f, e)
            if tg and all(t.kind == "repo" for t in tg):
                out = frozenset()
                for t in tg:
                    g = t.ref
                    if g in seen:
                        continue
                    rets = [n for n in iter_own_nodes(g.node) if isinstance(n, ast.Return) and n.value is not None]
                    if not rets:
                        return DATA
                    for r in rets:
                        d = dom(g, r.value, depth + 1, seen | {g})
                        if not isinstance(d, frozenset):
                            return DATA
                        out |= d
                return out
            return DATA
        if isinstance(e, ast.Name):
            a = f.node.args
            if a.kwarg is not None and a.kwarg.arg == e.id and not stores_to_name(f, e.id):
                # additions to the **kw dict inside f
                extra = _mutations(f, e.id, depth, seen)
                if extra is DATA:
                    return DATA
                return ("KW", f, extra)
            if e.id in f.params:
                return DATA
            if f.parent is not None and f.local_names() is not None and e.id not in f.local_names():
                return dom(f.parent, e, depth + 1, seen)  # a closure variable of the enclosing function
            vals = assigned_values(f, e.id)
            if not vals or any(v is None for v in vals):
                return DATA
            keys = frozenset()
            for v in vals:
                d = dom(f, v, depth + 1, seen)
                if not isinstance(d, frozenset):
                    return DATA
                keys |= d
            extra = _mutations(f, e.id, depth, seen)
            if extra is DATA:
                return DATA
            return keys | extra
        return DATA

    def _mutations(f, name, depth, seen):
        keys = set()
        for n in iter_own_nodes(f.node):
            if isinstance(n, ast.Subscript) and isinstance(n.ctx, ast.Store) and isinstance(n.value, ast.Name) and n.value.id == name:
                ok, val = ctx.try_fold(f, n.slice)
                if not ok or not isinstance(val, str):
                    return DATA
                keys.add(val)
            if isinstance(n, ast.Call) and isinstance(n.func, ast.Attribute) and isinstance(n.func.value, ast.Name) and n.func.value.id == name:
                if n.func.attr == "update":
                    for a_ in n.args:
                        d = dom(f, a_, depth + 1, seen)
                        if not isinstance(d, frozenset):
                            return DATA
                        keys |= d
                    keys |= {k.arg for k in n.keywords if k.arg}
                    if any(k.arg is None for k in n.keywords):
                        return DATA
                elif n.func.attr == "setdefault" and n.args:
                    ok, val = ctx.try_fold(f, n.args[0])
                    if not ok or not isinstance(val, str):
                        return DATA
                    keys.add(val)
        return frozenset(keys)

    sites = []
    for f in funcs:
        for s_ in ctx.cg.sites[f]:
            n = s_.call
            if n is None or not any(k.arg is None for k in n.keywords):
                continue
            if not s_.targets or any(t.kind not in ("repo", "class") for t in s_.targets):
                continue  # caller-supplied callables: their binding errors are the caller's own
            for t in s_.targets:
                if t.kind == "class":
                    gs = [(g, True) for g in [t.ref.find_method("__init__") or t.ref.find_method("__new__")] if g]
                else:
                    g = t.ref
                    decs = _decorators(g)
                    implicit = g.cls is not None and "staticmethod" not in decs and (t.detail not in ("static", "unbound") or "classmethod" in decs)
                    gs = [(g, implicit)]
                for g, implicit in gs:
                    a = g.node.args
                    pos = [x.arg for x in a.posonlyargs + a.args]
                    npos = len([x for x in n.args if not isinstance(x, ast.Starred)]) + (1 if implicit else 0)
                    if any(isinstance(x, ast.Starred) for x in n.args):
                        npos = len(pos)
                    B = (set(pos[:npos]) | {k.arg for k in n.keywords if k.arg}) & set(_kw_passable(g))
                    for k in n.keywords:
                        if k.arg is None:
                            sites.append((f, n, g, B, k.value))
    # fixed point of "which **kw parameters receive run-time-keyed data from inside the library"
    changed = True
    while changed:
        changed = False
        for f, n, g, B, x in sites:
            if g.node.args.kwarg is None or kwdata.get(g):
                continue
            d = dom(f, x)
            if d is DATA or (isinstance(d, tuple) and kwdata.get(d[1])):
                kwdata[g] = True
                changed = True
    bad = 0
    for f, n, g, B, x in sites:
        d = dom(f, x)
        coll = set()
        if d is DATA:
            coll = set(B)
            what = "a dictionary whose keys are chosen at run time (message fields, extractor results)"
        elif isinstance(d, frozenset):
            coll = set(B) & d
            what = "a dictionary with the keys %s" % sorted(d)
        else:
            if kwdata.get(d[1]):
                coll = (set(B) - set(_kw_passable(d[1]))) | (set(B) & d[2])
            what = "%s's **%s, which receives run-time-keyed fields from inside the library" % (d[1].fq, unparse(x))
        key = "%s:%s->%s" % (f.fq, unparse(n.func), g.qualname)
        if coll:
            bad += 1
            chk.bad("C07.splat", key + ":keyword-splat-cannot-collide", chk.where(f, n.lineno),
                    "`%s` passes %s as **kwargs while %s is already bound in %s: a field of that name makes the logging call raise TypeError into the application"
                    % (unparse(n)[:70], what, sorted(coll), g.fq))
        else:
            chk.ok("C07.splat", key + ":keyword-splat-cannot-collide", chk.where(f, n.lineno),
                   "bound keyword-passable parameters %s cannot be named by the splatted dictionary (%s)" % (sorted(B), "literal keywords of the caller" if isinstance(d, tuple) and not kwdata.get(d[1]) else
                                                                                                      "excluded by the enclosing signature / constant keys / positional-only receiver"))
    chk.instances("C07.splat:keyword splats into repo callees", len(sites), 6)
    chk.notes.append("C07.splat: **kw parameters that receive run-time-keyed data: %s" % sorted(g.fq for g in kwdata))


def run(chk):
    rule_builtin_extractors(chk)
    rule_splat(chk)
    common.rule_defaults(chk, "C07")
    from . import c10
    c10.rule_rich(chk)
    rule_contain(chk)
    rule_exc_info_shape(chk)
    rule_core(chk)
    rule_mem_validate(chk)
    rule_cycles(chk)
    from . import c03
    c03.rule_propagate(chk)
    # "exceptions raised by application code inside actions propagate unchanged and return values are unchanged":
    # for generator-based application code the actions live inside the repo's generator wrapper
    from . import c15
    cvar = c15.rule_ctx(chk)
    if cvar:
        gv, resumers = c15.rule_inside(chk, cvar)
        if resumers and resumers[0] is not c15._wrapper(chk)[1]:
            c15.rule_transparent(chk, cvar, gv, resumers)
