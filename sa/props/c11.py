"""C11 -- a crash loses no acknowledged message and leaves a parseable log (partial)."""

import ast

from ..index import unparse, iter_own_nodes
from ..cfg import calls_in_node
from . import common, c02, c03, c08, c09, c10

EXPLANATION = (
    "PARTIAL.  'Sync before acknowledging' as a must-pass-through chain: every path from the entry of an "
    "emission site (Action._start/finish/log) to its normal return passes through the ILogger.write call "
    "(finish: or through the already-finished early return); every normal path of Logger.write passes through "
    "Destinations.send or the serialization-failure handler; send's fan-out covers every destination; "
    "FileDestination.__call__ writes the fully serialized line in exactly one write call and then flushes "
    "before returning; every link is a plain synchronous call -- no queue, thread, deferred or buffer is "
    "constructed or fed on the chain.  Parser side: an action is never marked complete without its end "
    "message and all children (C09 rules), incomplete tasks are still yielded.  What the OS does with "
    "flushed data on SIGKILL, and error-freedom of the parser on every truncated real output, are NOT decided."
    "  The text/binary probe of FileDestination (C10.mode) is included: a file handed the wrong kind of data rejects every write while the calls still return."
    "  The threaded writer's own rules (C19: unregister before the stop marker is queued, reader leaves only on the marker, a destination failure is contained inside the loop, one delivery per dequeued item) are part of this property as well."
)
RULE = ("obligation = one link of the acknowledgement chain or one parser completeness rule; non-trivial = "
        "CFG paths examined")
ASSUMPTIONS = [
    "after file.flush() returns the bytes are in the kernel and survive the death of the process",
    "the parser never *failing* on truncated output is C09's undecided part",
]

ASYNC_EXT = ("threading.Thread", "queue.", "asyncio.", "concurrent.futures", "twisted.internet.threads", "multiprocessing")


def rule_ack(chk):
    ctx = chk.ctx
    chain = []
    for q in c02.EMISSION:
        f = ctx.func("_action", q)
        cfg, wcalls = c02._write_call(chk, f)
        chk.need(wcalls, "%s no longer writes" % q)
        avoid = set()
        if q == "Action.finish":
            for t, lab in c03._flag_tests(cfg, "_finished"):
                avoid.add((t, "true" if lab == "false" else "false"))
        ok, wit = cfg.must_pass([cfg.entry], [cfg.exit], [n for n, c, m in wcalls], avoid_edges=avoid)
        chk.req(ok, "C11.ack", "%s:returns-only-after-write" % q, chk.where(f), good="every normal return is preceded by the ILogger.write call",
                fail="a logging call can return without having handed the message to the logger: %s" % cfg.fmt_path(wit), sites=len(cfg.live))
        chain.append(f)
    lw = ctx.func("_output", "Logger.write")
    send = ctx.func("_output", "Destinations.send")
    cfg = ctx.cfg(lw)
    sn = [n for n, c, m in ctx.calls_to(lw, send)]
    hn = [n for n in cfg.live if n.kind == "handler"]
    ok, wit = cfg.must_pass([cfg.entry], [cfg.exit], sn + hn)
    chk.req(bool(sn) and ok, "C11.ack", "Logger.write:returns-only-after-send", chk.where(lw),
            good="every normal return passed through Destinations.send (or the serialization-failure path)",
            fail="Logger.write can return without delivering: %s" % cfg.fmt_path(wit), sites=len(cfg.live))
    chain += [lw, send, ctx.func("_output", "FileDestination.__call__")]
    for f in chain:
        bad = []
        for s in ctx.cg.sites[f]:
            for t in s.targets:
                if t.kind == "ext" and any(str(t.ref).startswith(a) or a in str(t.ref) for a in ASYNC_EXT):
                    bad.append(s)
            if s.call is not None and isinstance(s.call.func, ast.Attribute) and s.call.func.attr in ("put", "put_nowait", "submit", "call_soon", "callFromThread", "start"):
                bad.append(s)
        chk.req(not bad, "C11.ack", "%s:synchronous-link" % f.fq, chk.where(f), good="no queue/thread/deferred on this link",
                fail="delivery is deferred on this link (%s): a returned logging call no longer implies the line was written" % [s.text[:40] for s in bad])


def run(chk):
    rule_ack(chk)
    c08.rule_fanout(chk)
    c10.rule_line(chk, prefix="C11")
    c10.rule_mode(chk)          # a file given the wrong kind of data rejects every write: the calls return and nothing is on disk
    from . import c13
    c13.rule_write_fresh(chk)   # a routing key that survives in a legacy Message sends its next write to the old logger: acknowledged, never on disk
    from . import c19
    c19.rule_writer(chk)        # a log written through the threaded writer: a reader thread that dies keeps nothing of what follows
    c09.rule_never_early(chk, prefix="C11")
    c09.rule_tail(chk, prefix="C11")
    c09.rule_orderings(chk, prefix="C11")  # an ordering that raises on a truncated log loses the unfinished actions
    c09.rule_upward(chk)        # every started action appears with the messages logged so far: ancestors are refreshed on every insertion
    c09.rule_add_dispatch(chk)  # an unfinished action must be recognised as a started action, whatever its type
