"""C20 -- bundled readers render every message completely and survive foreign input (partial)."""

import ast
import re

from ..index import unparse, iter_own_nodes, AnalysisError
from ..cfg import calls_in_node
from ..framework import stores_to_name, assigned_values
from .. import exprs as X
from . import common

EXPLANATION = (
    "PARTIAL.  Not decided: the rendered text itself (timestamp digits, pprint layout, indentation).  "
    "Decided: field-table agreement in pretty_format/compact_format -- the skip set folds to exactly the three "
    "header fields plus the first-fields list, the header expression reads those three, the first-fields loop "
    "renders each present first field, and the remaining-fields loop iterates the whole message.items() with no "
    "filter other than the skip set, after the first-fields loop (so no field can be skipped without being "
    "rendered elsewhere); compact_format renders every value with json.dumps without indent and joins with a "
    "space; in the command-line reader the decoded JSON is untrusted until shape-checked: every mapping "
    "operation on it is dominated by an isinstance(dict) test (or lies in a handler) whose failing arm reports "
    "and continues, loads is inside a handler catching ValueError that reports and continues, no fallback arm "
    "returns or raises; eliot.filter performs per line one loads, one evaluation and, unless the result is the "
    "very SKIP object bound for the expression, exactly one write of dumps(result)+newline."
    "  _render_timestamp hands message[timestamp] to the datetime conversion as it is (no arithmetic, splitting or rounding of it, no datetime field set from a computed number); the two field loops are recognised as for statements or comprehensions, in the formatter or a helper."
    "  EliotFilter's dumps options are examined (ensure_ascii=False, allow_nan=False make the write partial); value-keyed caches in front of rendering are violations also in the call form lru_cache(...)(f)."
    '  textwrap.indent in prettyprint.py needs an explicit predicate (its default skips whitespace-only lines).'
)
RULE = "obligation = rule instance bound to a table constant / loop / call of prettyprint.py and filter.py; non-trivial = expressions or CFG paths examined"
ASSUMPTIONS = ["rendered text (value-level) is not decided", "json.dumps without indent emits no newline"]



def _loop_views(cfg, g):
    """The loops of g in one shape, whether written as `for` statements or as comprehensions:
    iter (source text), target, tests (source text of every condition inside), stops, renders(name), node, pos."""
    views = []
    for n in cfg.live:
        if n.kind != "for_next":
            continue
        region = common.loop_region(cfg, n)
        tests = [t for t in region if t.kind == "test"]

        def renders(name, n=n, region=region, tests=tests):
            def uses(x):
                return x.ast is not None and x.kind == "stmt" and name in {y.id for e in x.exprs for y in ast.walk(e) if isinstance(y, ast.Name)} and (
                    isinstance(x.ast, (ast.AugAssign, ast.Assign, ast.Expr)))
            rend = [x for x in region if uses(x)]
            starts = [s_ for t in tests for s_, l in t.succ if l == "true"] or [s_ for s_, l in n.succ if l == "body"]
            return bool(rend) and cfg.must_pass(starts, [n], rend, skip_labels=("exc",))[0]
        views.append({"iter": unparse(n.ast.iter), "target": n.ast.target, "tests": [unparse(t.exprs[0]) for t in tests],
                      "stops": any(x.kind in ("break", "continue", "return") for x in region), "renders": renders, "node": n, "pos": (n.ast.lineno, n.ast.col_offset)})
    for n in cfg.live:
        for e in n.exprs:
            for c in ast.walk(e):
                if isinstance(c, (ast.GeneratorExp, ast.ListComp)) and len(c.generators) == 1:
                    gen = c.generators[0]

                    def renders(name, c=c):
                        return name in {y.id for y in ast.walk(c.elt) if isinstance(y, ast.Name)}
                    views.append({"iter": unparse(gen.iter), "target": gen.target, "tests": [unparse(t) for t in gen.ifs], "stops": False,
                                  "renders": renders, "node": n, "pos": (c.lineno, c.col_offset)})
    return views


def rule_complete(chk):
    ctx = chk.ctx
    p = ctx.p
    pp = p.mod("prettyprint")
    msg, act = p.mod("_message"), p.mod("_action")
    TS, UU, TL = (p.fold_global(msg, k) for k in ("TIMESTAMP_FIELD", "TASK_UUID_FIELD", "TASK_LEVEL_FIELD"))
    skip = set(p.fold_global(pp, "_skip_fields"))
    first = list(p.fold_global(pp, "_first_fields"))
    want = {TS, UU, TL} | set(first)
    chk.req(skip == want, "C20.complete", "prettyprint._skip_fields:equals-header-plus-first-fields", "%s:1" % pp.relpath,
            good="skip set = header fields %s + first fields %s" % (sorted([TS, UU, TL]), first),
            fail="the skip set %s differs from header+first fields %s: %s would be %s" % (sorted(skip), sorted(want), sorted(skip ^ want),
                                                                                        "never rendered" if skip - want else "rendered twice"))
    AT, AS, MT = p.fold_global(act, "ACTION_TYPE_FIELD"), p.fold_global(act, "ACTION_STATUS_FIELD"), p.fold_global(msg, "MESSAGE_TYPE_FIELD")
    chk.req(set(first) == {AT, AS, MT}, "C20.complete", "prettyprint._first_fields:type-and-status-first", "%s:1" % pp.relpath,
            good="first fields = %s" % first, fail="first fields are %s, expected the type/status fields" % first)
    req = set(p.fold_global(pp, "REQUIRED_FIELDS"))
    chk.req(req == {TS, UU, TL}, "C20.cli", "prettyprint.REQUIRED_FIELDS:the-three-header-fields", "%s:1" % pp.relpath,
            good="a line is an Eliot message iff it has %s (exactly what the formatters subscript)" % sorted(req),
            fail="REQUIRED_FIELDS is %s but the formatters subscript %s: a line lacking one of them aborts the command with KeyError" % (sorted(req), sorted([TS, UU, TL])))
    rt = ctx.func("prettyprint", "_render_timestamp")
    for q in ("pretty_format", "compact_format"):
        f = ctx.func("prettyprint", q)
        fcfg = ctx.cfg(f)
        fparam = f.params[0]
        problems = []
        # the two loops live in the formatter itself or in a helper it hands the message to
        cands = [(f, fparam)]
        for s_ in ctx.cg.sites[f]:
            if s_.call is None:
                continue
            for g in s_.repo_targets():
                if g.module is f.module and g is not f and g is not rt and not g.is_lambda and g.parent is None:
                    for i, a_ in enumerate(s_.call.args):
                        if isinstance(a_, ast.Name) and a_.id == fparam and i < len(g.params):
                            cands.append((g, g.params[i]))
        found = None
        for g, mparam in cands:
            cfg = ctx.cfg(g)
            views = _loop_views(cfg, g)
            l1 = [v for v in views if v["iter"] == "_first_fields"]
            l2 = [v for v in views if re.search(r"(?<![\w.])%s\.items\(\)" % re.escape(mparam), v["iter"])]
            if len(l1) == 1 and len(l2) == 1:
                found = (g, mparam, cfg, l1[0], l2[0])
        if found is None:
            raise AnalysisError("%s: the first-fields loop and the loop over the message's items were not found (in the formatter or a helper)" % q)
        g, mparam, cfg, v1, v2 = found
        if v2["iter"] not in ("sorted(%s.items())" % mparam, "%s.items()" % mparam):
            problems.append("the remaining-fields loop iterates %s, not the whole message" % v2["iter"])
        if not cfg.precedes([v1["node"]], [v2["node"]])[0] and not (v1["node"] is v2["node"] and v1["pos"] < v2["pos"]):
            problems.append("the remaining fields are rendered before type/status")
        kv = v2["target"].elts[0].id if isinstance(v2["target"], ast.Tuple) and isinstance(v2["target"].elts[0], ast.Name) else None
        if v2["tests"] != ["%s not in _skip_fields" % kv]:
            problems.append("fields are filtered by %s instead of only `%s not in _skip_fields`" % (v2["tests"], kv))
        if v2["stops"]:
            problems.append("the remaining-fields loop can skip or stop")
        if v2["tests"] and not v2["renders"](kv):
            problems.append("a kept field is not rendered on some path")
        # first loop: each present first field rendered, and only presence decides
        fv = v1["target"].id if isinstance(v1["target"], ast.Name) else None
        if v1["tests"] != ["%s in %s" % (fv, mparam)]:
            problems.append("type/status fields are rendered under %s, not exactly when present in the message (a present but falsy value is dropped, and the skip set keeps the other loop from showing it)"
                            % v1["tests"])
        elif not v1["renders"](fv):
            problems.append("a present first field is not rendered")
        # header reads the three
        rets = common.returns_of(fcfg)
        hdr = " ".join(unparse(X.inline(f, r.ast.value)) for r in rets)
        hdr_reads = set()
        for r in rets:
            for x in ast.walk(X.inline(f, r.ast.value)):
                if isinstance(x, ast.Subscript) and isinstance(x.value, ast.Name) and x.value.id == fparam:
                    okk, kk = ctx.try_fold(f, x.slice)
                    if okk:
                        hdr_reads.add(kk)
        # "{task_uuid} ...".format(**message) / .format_map(message): the template's named fields are read from the message
        import string
        for r in rets:
            for x in ast.walk(X.inline(f, r.ast.value)):
                if isinstance(x, ast.Call) and isinstance(x.func, ast.Attribute) and x.func.attr in ("format", "format_map") \
                        and isinstance(x.func.value, ast.Constant) and isinstance(x.func.value.value, str):
                    try:
                        names = {fld.split(".")[0].split("[")[0] for _t, fld, _s, _c in string.Formatter().parse(x.func.value.value) if fld}
                    except ValueError:
                        raise AnalysisError("%s: header template %r does not parse" % (q, x.func.value.value))
                    explicit = {k.arg for k in x.keywords if k.arg is not None}
                    splat = [k for k in x.keywords if k.arg is None and isinstance(k.value, ast.Name) and k.value.id == fparam]
                    if x.func.attr == "format_map" and len(x.args) == 1 and isinstance(x.args[0], ast.Name) and x.args[0].id == fparam:
                        hdr_reads |= names
                    if splat:
                        hdr_reads |= names - explicit
                        if explicit:
                            problems.append("the header is built with .format(%s, **%s): a message that has a field named %s makes format() raise TypeError (multiple values for a keyword), "
                                            "so such a message cannot be rendered at all" % (", ".join("%s=..." % e for e in sorted(explicit)), fparam, " or ".join(repr(e) for e in sorted(explicit))))
        for k in (UU, TL):
            if k not in hdr_reads:
                problems.append("the header does not show %s" % k)
        if not any(rt in ctx.targets(f, c) and c.args and isinstance(c.args[0], ast.Name) and c.args[0].id == fparam for r in rets for c in ast.walk(r.ast.value) if isinstance(c, ast.Call)):
            problems.append("the header does not show the timestamp")
        chk.req(not problems, "C20.complete", "%s:every-field-rendered" % q, chk.where(f), good="header(3) + first fields + every other item of the message (loops in %s)" % g.fq, fail="; ".join(problems), sites=len(cfg.live))
    # the timestamp value reaches the conversion untouched: no arithmetic, splitting or rounding of it before
    # fromtimestamp (which does the microsecond rounding with carry itself), and no datetime field is set from a
    # computed number (datetime.replace(microsecond=1000000) raises ValueError)
    tainted = set()
    is_ts = lambda e: isinstance(e, ast.Subscript) and ctx.try_fold(rt, e.slice) == (True, TS)
    has_ts = lambda e: any(is_ts(x) or (isinstance(x, ast.Name) and x.id in tainted) for x in ast.walk(e))
    changed = True
    while changed:
        changed = False
        for n in iter_own_nodes(rt.node):
            if isinstance(n, ast.Assign) and has_ts(n.value):
                for t in n.targets:
                    for x in ast.walk(t):
                        if isinstance(x, ast.Name) and x.id not in tainted:
                            tainted.add(x.id); changed = True
    arith = []
    for n in iter_own_nodes(rt.node):
        if isinstance(n, (ast.BinOp, ast.UnaryOp)) and not isinstance(getattr(n, "op", None), ast.Not) and any(is_ts(x) for x in (getattr(n, "left", None), getattr(n, "right", None), getattr(n, "operand", None)) if x is not None):
            arith.append(unparse(n))
        if isinstance(n, ast.Call):
            nm = n.func.id if isinstance(n.func, ast.Name) else (n.func.attr if isinstance(n.func, ast.Attribute) else "")
            args = list(n.args) + [k.value for k in n.keywords]
            if nm in ("divmod", "round", "int", "floor", "ceil", "trunc", "modf") and any(is_ts(a) for a in args):
                arith.append(unparse(n))
            if nm in ("replace", "datetime", "timedelta", "time") and any(not isinstance(a, ast.Constant) and not (isinstance(a, ast.Attribute) or isinstance(a, ast.Name) and a.id in ("tz", "tzinfo", "timezone", "None")) for a in args):
                if any(has_ts(a) or isinstance(a, (ast.Call, ast.BinOp)) for a in args):
                    arith.append(unparse(n))
    n_ts = sum(1 for n in ast.walk(rt.node) if is_ts(n))
    chk.req(not arith and n_ts >= 1, "C20.complete", "_render_timestamp:timestamp-converted-whole", chk.where(rt),
            good="message[timestamp] is handed to the datetime conversion as it is (%d reads); no arithmetic on it" % n_ts,
            fail="the timestamp is taken apart or rounded by hand before the conversion (%s): the hand-made sub-second part can reach 1000000 or lose the carry into the next second, so "
                 "some timestamps raise ValueError or render a different microsecond" % "; ".join(arith[:3]))
    okts = any(isinstance(n, ast.Subscript) and ctx.try_fold(rt, n.slice) == (True, TS) for n in ast.walk(rt.node)) and "isoformat" in " ".join(unparse(s) for s in rt.node.body)
    chk.req(okts, "C20.complete", "_render_timestamp:reads-the-timestamp", chk.where(rt), good="renders message[timestamp] via isoformat (microseconds)", fail="_render_timestamp does not render message[timestamp] with isoformat")


def rule_oneline(chk):
    ctx = chk.ctx
    f = ctx.func("prettyprint", "compact_format")
    problems = []
    joins = [n for n in iter_own_nodes(f.node) if isinstance(n, ast.Call) and isinstance(n.func, ast.Attribute) and n.func.attr == "join"]
    okj = any(isinstance(j.func.value, ast.Constant) and j.func.value.value == " " for j in joins)
    if not okj:
        problems.append("the parts are not joined by a single space")
    dumps = [n for n in ast.walk(f.node) if isinstance(n, ast.Call) and any(t.kind == "ext" and t.ref == "json.dumps" for t in ctx.cg.typer.resolve_call(f, n))]
    if not dumps:
        problems.append("values are not rendered with json.dumps")
    for d in dumps:
        if any(k.arg == "indent" and not (isinstance(k.value, ast.Constant) and k.value.value is None) for k in d.keywords):
            problems.append("json.dumps is given an indent: values can span lines")
    # the value of every key=value part is the dumps of the value
    gens = [n for n in ast.walk(f.node) if isinstance(n, ast.GeneratorExp)]
    okfmt = any(isinstance(g.elt, ast.Call) and isinstance(g.elt.func, ast.Attribute) and g.elt.func.attr == "format" and ctx.try_fold(f, g.elt.func.value) == (True, "{}={}")
                and len(g.elt.args) == 2 and g.elt.args[1] in dumps for g in gens)
    if not okfmt:
        problems.append("parts are not '<key>=<json of value>'")
    chk.req(not problems, "C20.oneline", "compact_format:single-line-key=json", chk.where(f), good="' '.join('{}={}'.format(key, dumps(value)))", fail="; ".join(problems))


def rule_cli(chk):
    ctx = chk.ctx
    f = ctx.func("prettyprint", "_main")
    cfg = ctx.cfg(f)
    loads = [(n, c) for n in cfg.live for c, m in calls_in_node(n) if any(t.kind == "ext" and t.ref == "json.loads" for t in ctx.cg.typer.resolve_call(f, c))]
    chk.need(len(loads) == 1 and isinstance(loads[0][0].ast, ast.Assign), "prettyprint._main: `message = loads(line)` not found")
    ln, lc = loads[0]
    mv = ln.ast.targets[0].id
    problems = []
    # loads inside try whose handler catches ValueError (or wider) and continues
    ctxm = ctx.cg.ctxmaps[f].get(id(lc), [])
    tr = [e[0] for e in ctxm if e[1] == "body"]
    okh = False
    if tr:
        for h in tr[-1].handlers:
            names = ["<bare>"] if h.type is None else ([unparse(e) for e in h.type.elts] if isinstance(h.type, ast.Tuple) else [unparse(h.type)])
            if any(nm in ("ValueError", "Exception", "<bare>", "BaseException") for nm in names):
                hn = [x for x in cfg.live if x.kind == "handler" and x.ast is h][0]
                heads = {x for x in cfg.live if x.kind == "for_next"}
                r = cfg.reach([hn], avoid=heads)
                fmt_nodes = {a for a in cfg.live for b, _m in calls_in_node(a) if isinstance(b.func, ast.Name) and b.func.id == "formatter"}
                # the handler goes on to the next line: nothing but the loop head follows (no exit, no formatting of the bad line)
                next_line = cfg.exit not in r and not any(x.kind in ("return", "raise_stmt", "break") for x in r) and not (r & fmt_nodes) \
                    and any(h_ in cfg.reach([hn]) for h_ in heads)
                writes = any("Not JSON" in unparse(x.ast) for x in r if x.ast is not None and x.kind != "handler")
                okh = next_line and writes
    if not okh:
        problems.append("a line that is not JSON is not reported ('Not JSON') and skipped with continue")
    # typestate: mapping operations on the decoded value are dominated by an isinstance(dict) check
    fmtcalls = [n for n in cfg.live for c, m in calls_in_node(n) if isinstance(c.func, ast.Name) and c.func.id == "formatter"]
    uses = []
    for n in cfg.live:
        if n is ln:
            continue
        for e in n.exprs:
            for x in ast.walk(e):
                if isinstance(x, ast.Attribute) and isinstance(x.value, ast.Name) and x.value.id == mv and x.attr in ("keys", "items", "values", "get"):
                    uses.append((n, x, "." + x.attr))
                if isinstance(x, ast.Subscript) and isinstance(x.value, ast.Name) and x.value.id == mv:
                    uses.append((n, x, "[...]"))
                if isinstance(x, ast.Compare) and any(isinstance(c, ast.Name) and c.id == mv for c in x.comparators) and isinstance(x.ops[0], (ast.In, ast.NotIn)):
                    uses.append((n, x, "in"))
        for c, m in calls_in_node(n):
            if isinstance(c.func, ast.Name) and c.func.id == "formatter" and c.args and isinstance(c.args[0], ast.Name) and c.args[0].id == mv:
                uses.append((n, c, "formatter(message)"))

    def dict_checked(n, x):
        # (a) a dominating branch edge establishes isinstance(mv, dict)
        for t, lab in cfg.guards_of(n):
            if t.kind != "test":
                continue
            e = t.exprs[0]
            if _establishes_dict(e, mv, lab):
                return True
        # (b) same test expression: `not isinstance(m, dict) or <use>` / `isinstance(m, dict) and <use>`
        if n.kind == "test":
            e = n.exprs[0]
            if isinstance(e, ast.BoolOp):
                vals = e.values
                for i, v in enumerate(vals):
                    if any(y is x for y in ast.walk(v)):
                        prev = vals[:i]
                        if isinstance(e.op, ast.Or) and any(_is_not_isinstance_dict(pv, mv) for pv in prev):
                            return True
                        if isinstance(e.op, ast.And) and any(_is_isinstance_dict(pv, mv) for pv in prev):
                            return True
        # (c) inside a handler-protected region that reports and continues
        c = ctx.cg.ctxmaps[f].get(id(x), [])
        for entry in c:
            if entry[1] == "body":
                for h in entry[0].handlers:
                    nm = "<bare>" if h.type is None else unparse(h.type)
                    if any(k in nm for k in ("AttributeError", "TypeError", "Exception", "<bare>")) and any(isinstance(s, ast.Continue) for s in ast.walk(ast.Module(body=h.body, type_ignores=[]))):
                        return True
        return False
    for n, x, what in uses:
        if not dict_checked(n, x):
            problems.append("line %d uses the decoded JSON value as a mapping (%s) without a dominating isinstance(dict) check: an input line holding a JSON scalar, array or null aborts the command" % (n.lineno, what))
            break
    # the not-an-Eliot-message arm reports and continues
    heads_ = {x for x in cfg.live if x.kind == "for_next"}
    fmt_nodes_ = {a for a in cfg.live for b, _m in calls_in_node(a) if isinstance(b.func, ast.Name) and b.func.id == "formatter"}
    reports = [n for n in cfg.live if n.kind == "stmt" and n.ast is not None and "Not an Eliot message" in unparse(n.ast)]
    okarm = False
    for w_ in reports:
        r_ = cfg.reach([w_], avoid=heads_)
        if cfg.exit not in r_ and not any(x.kind in ("return", "raise_stmt", "break") for x in r_) and not (r_ & fmt_nodes_):
            okarm = True
    if not okarm:
        problems.append("messages lacking the required fields are not reported ('Not an Eliot message') and skipped")
    # no fallback arm leaves the loop
    main = [n for n in cfg.live if n.kind == "for_next"]
    if main:
        region = common.loop_region(cfg, main[0])
        if any(n.kind in ("return", "break", "raise_stmt") for n in region):
            problems.append("the per-line loop can be left on bad input")
    chk.req(not problems, "C20.cli", "prettyprint._main:decoded-JSON-shape-checked-before-use", chk.where(f),
            good="loads guarded by a ValueError handler; %d mapping uses all dominated by an isinstance(dict) check; bad lines reported and skipped" % len(uses),
            fail="; ".join(problems), sites=len(uses) + 1)


def _is_isinstance_dict(e, mv):
    return isinstance(e, ast.Call) and isinstance(e.func, ast.Name) and e.func.id == "isinstance" and len(e.args) == 2 and isinstance(e.args[0], ast.Name) \
        and e.args[0].id == mv and unparse(e.args[1]) in ("dict", "(dict,)", "Mapping", "(dict, OrderedDict)")


def _is_not_isinstance_dict(e, mv):
    return isinstance(e, ast.UnaryOp) and isinstance(e.op, ast.Not) and _is_isinstance_dict(e.operand, mv)


def _establishes_dict(e, mv, lab):
    if _is_isinstance_dict(e, mv) and lab == "true":
        return True
    if _is_not_isinstance_dict(e, mv) and lab == "false":
        return True
    if isinstance(e, ast.BoolOp) and isinstance(e.op, ast.Or) and lab == "false":
        return any(_is_not_isinstance_dict(v, mv) for v in e.values)
    if isinstance(e, ast.BoolOp) and isinstance(e.op, ast.And) and lab == "true":
        return any(_is_isinstance_dict(v, mv) for v in e.values)
    return False


def rule_stdlib_corner_cases(chk):
    """Standard-library text helpers whose defaults drop something a field value can contain."""
    ctx = chk.ctx
    m = ctx.p.mod("prettyprint")
    n = 0
    for x in ast.walk(m.tree):
        if isinstance(x, ast.Call) and unparse(x.func).split(".")[-1] == "indent" and ("textwrap" in unparse(x.func) or isinstance(x.func, ast.Name)):
            r = ctx.p.resolve_expr_static(m, None, x.func) if isinstance(x.func, (ast.Name, ast.Attribute)) else None
            if not (r and r[0] == "ext" and str(r[1]).startswith("textwrap")):
                continue
            n += 1
            has_pred = len(x.args) >= 3 or any(k.arg == "predicate" for k in x.keywords)
            chk.req(has_pred, "C20.complete", "prettyprint:textwrap.indent-prefixes-every-line", "%s:%d" % (m.relpath, x.lineno),
                    good="textwrap.indent is given an explicit predicate",
                    fail="`%s`: without a predicate textwrap.indent prefixes only lines that contain non-whitespace characters, so a blank / spaces-only / tab-only line of a multi-line "
                         "value (a traceback of chained exceptions, text with an empty line) is printed without the field's gutter -- it no longer reads as part of that field" % unparse(x)[:60])
    if not n:
        chk.ok("C20.complete", "prettyprint:no-lossy-stdlib-text-helper", m.relpath, "no textwrap.indent call in prettyprint.py")
    # str.rstrip / lstrip / strip take a SET of characters, not a suffix / prefix
    for x in ast.walk(m.tree):
        if isinstance(x, ast.Call) and isinstance(x.func, ast.Attribute) and x.func.attr in ("rstrip", "lstrip", "strip") and len(x.args) == 1 and isinstance(x.args[0], ast.Constant) \
                and isinstance(x.args[0].value, str) and len(x.args[0].value) > 1 and x.args[0].value.strip():
            chk.bad("C20.complete", "prettyprint:%s-of-a-multi-character-string" % x.func.attr, "%s:%d" % (m.relpath, x.lineno),
                    "`%s` removes any run of the CHARACTERS %s, not that string as a suffix/prefix: it keeps eating into the value itself (a rendered time ending in 0 or ':' loses digits -- "
                    "`15:09:10+00:00` becomes `15:09:1`) (str.removesuffix / removeprefix remove the string)" % (unparse(x)[:50], sorted(set(x.args[0].value))))


def rule_filter(chk):
    ctx = chk.ctx
    f = ctx.func("filter", "EliotFilter.run")
    ev = ctx.func("filter", "EliotFilter._evaluate")
    cfg = ctx.cfg(f)
    loops = [n for n in cfg.live if n.kind == "for_next" and unparse(n.ast.iter) == "self.incoming"]
    chk.need(len(loops) == 1, "EliotFilter.run: loop over self.incoming not found")
    head = loops[0]
    body = [s for s, l in head.succ if l == "body"][0]
    region = common.loop_region(cfg, head)
    problems = []
    loads = [n for n in region for c, m in calls_in_node(n) if any(t.kind == "ext" and t.ref == "json.loads" for t in ctx.cg.typer.resolve_call(f, c))]
    evs = [n for n, c, m in ctx.calls_to(f, ev) if n in region]
    writes = [(n, c) for n in region for c, m in calls_in_node(n) if isinstance(c.func, ast.Attribute) and c.func.attr == "write" and common.is_self_attr(c.func.value, "output")]
    for lst, what in ((loads, "loads"), (evs, "evaluation")):
        rng = cfg.count_range(body, [head], lambda x: 1 if x in lst else 0)
        if rng != (1, 1):
            problems.append("%s per input line ranges %s" % (what, rng))
    # skip test
    skips = [t for t in region if t.kind == "test" and isinstance(t.exprs[0], ast.Compare) and isinstance(t.exprs[0].ops[0], (ast.Is, ast.IsNot)) and common.is_self_attr(t.exprs[0].comparators[0], "_SKIP")]
    if len(skips) != 1:
        problems.append("the SKIP test `result is self._SKIP` was not found exactly once")
    else:
        t = skips[0]
        isop = isinstance(t.exprs[0].ops[0], ast.Is)
        keep = "false" if isop else "true"
        rng = cfg.count_range(body, [head], lambda x: sum(1 for n, c in writes if n is x), avoid_edges={(t, "true" if isop else "false")})
        if rng != (1, 1):
            problems.append("writes per non-skipped line range %s" % (rng,))
        rng2 = cfg.count_range(body, [head], lambda x: sum(1 for n, c in writes if n is x), avoid_edges={(t, keep)})
        if rng2 is not None and rng2[1] != 0:
            problems.append("a skipped line is still written")
        other = [x for x in region if x.kind in ("continue", "break", "return") and not any(tt is t for tt, l in cfg.guards_of(x))]
        if other:
            problems.append("lines can also be dropped at line %d, independently of SKIP" % other[0].lineno)
    for n, c in writes:
        a = c.args[0] if c.args else None
        okw = isinstance(a, ast.BinOp) and isinstance(a.op, ast.Add) and isinstance(a.right, ast.Constant) and a.right.value == "\n" and isinstance(a.left, ast.Call) \
            and any(t_.kind == "ext" and t_.ref == "json.dumps" for t_ in ctx.cg.typer.resolve_call(f, a.left))
        if not okw:
            problems.append("what is written is %s, not dumps(result)+newline" % (a is not None and unparse(a)[:50]))
            continue
        # options that make dumps / the write partial for values json.loads can produce
        for k in a.left.keywords:
            okv, v = ctx.try_fold(f, k.value) if k.arg is not None else (False, None)
            if k.arg == "ensure_ascii" and okv and not v:
                problems.append("dumps(..., ensure_ascii=False): the text written is no longer pure ASCII, so whether a line can be written depends on the output stream's encoding; "
                                "a lone surrogate (which json.loads accepts) cannot be encoded by any of them and aborts the run at that line")
            elif k.arg == "allow_nan" and okv and not v:
                problems.append("dumps(..., allow_nan=False) raises ValueError for NaN / Infinity, which json.loads accepts: the run aborts at that line")
            elif k.arg in ("cls", "default", "separators", "sort_keys", "ensure_ascii", "allow_nan", "check_circular"):
                continue
            else:
                raise AnalysisError("EliotFilter.run: dumps option %s is not modelled" % (k.arg or "**"))
    chk.req(not problems, "C20.filter", "EliotFilter.run:one-output-line-per-non-skipped-input-line", chk.where(f), good="loads -> evaluate -> write(dumps(result)+'\\n') unless result is SKIP", fail="; ".join(problems), sites=len(region))
    # the SKIP object bound for the expression is the one compared with; J is the decoded message
    okb = False
    for n in ast.walk(ev.node):
        if isinstance(n, ast.Dict):
            d = {k.value: v for k, v in zip(n.keys, n.values) if isinstance(k, ast.Constant)}
            okb = "SKIP" in d and common.is_self_attr(d["SKIP"], "_SKIP") and "J" in d and isinstance(d["J"], ast.Name) and d["J"].id == ev.params[1]
    chk.req(okb, "C20.filter", "EliotFilter._evaluate:binds-J-and-SKIP", chk.where(ev), good="locals: J = the decoded message, SKIP = self._SKIP", fail="the expression's locals do not bind J to the message and SKIP to the sentinel compared in run()")


def run(chk):
    rule_complete(chk)
    rule_oneline(chk)
    rule_cli(chk)
    rule_filter(chk)
    rule_stdlib_corner_cases(chk)
