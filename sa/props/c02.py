"""C02 -- every message is uniquely and contiguously placed by task_uuid/task_level."""

import ast

from ..index import unparse, iter_own_nodes, AnalysisError
from ..cfg import calls_in_node, INF
from ..framework import stores_to_name, assigned_values
from . import common

EXPLANATION = (
    "Structural premises of the placement induction, each decided on every CFG path: (who) only "
    "Action._start/finish/log hand a message to an ILogger.write; (fields) at each of those write calls a "
    "must-key dataflow proves timestamp=time.time(), task_uuid, task_level=<allocated level>.as_list() and "
    "message_type | action_type+action_status are present and stored after any user-supplied fields; "
    "(alloc) each emission, child creation and serialized id calls the position allocator exactly once on "
    "every path, the allocator is the only writer of the counter and advances it by child()/next_sibling(); "
    "(levels) TaskLevel derivations mutate only fresh copies; (uuid) root actions get uuid4() evaluated at "
    "the construction site; (exit-order) __exit__ resets the context before finish(); (report-path) failure "
    "reports are logged through log_message/write_traceback.  The arithmetic induction from these premises "
    "to run-wide uniqueness/contiguity is documented in DESIGN.md, not machine-checked."
    "  Message.write builds its routing keys in a per-write copy (C13.copy)."
)
RULE = ("obligation = rule instance bound to an emission site / allocation site / TaskLevel method / root "
        "construction; non-trivial = a CFG path or dataflow state was examined")
ASSUMPTIONS = [
    "threads sharing one Action object are excluded (documented single-thread use of an Action)",
    "time.time() returns a float; uuid4() values do not collide",
]

EMISSION = ("Action._start", "Action.finish", "Action.log")


def write_impls(chk):
    ctx = chk.ctx
    return [ctx.func("_output", "Logger.write"), ctx.func("_output", "MemoryLogger.write")]


def emission_sites(chk):
    """[(func, node, call)] of calls that may invoke an ILogger.write implementer."""
    ctx = chk.ctx
    impls = write_impls(chk)
    out = []
    for f in ctx.p.all_funcs():
        for s in ctx.cg.sites[f]:
            if s.call is not None and any(t in impls for t in s.repo_targets()):
                out.append((f, s))
    return out


def rule_who(chk):
    ctx = chk.ctx
    sites = emission_sites(chk)
    chk.instances("C02.who:ILogger.write call sites", len(sites), 3)
    allowed = {"_action:%s" % q for q in EMISSION}
    for f, s in sites:
        chk.req(f.fq in allowed, "C02.who", "%s:calls-ILogger.write" % f.fq, s.where,
                good="one of the three emission sites of Action",
                fail="%s hands a message to a logger directly (%s): it bypasses position allocation" % (f.fq, s.text[:60]))
    # untyped `.write(x, y)` calls elsewhere must be file-like writes in the known output functions
    known_file_writers = {"_output:FileDestination.__new__", "_output:FileDestination.__call__", "prettyprint:_main",
                          "filter:EliotFilter.run", "filter:main"}
    for f in ctx.p.all_funcs():
        for s in ctx.cg.sites[f]:
            c = s.call
            if c is None or not (isinstance(c.func, ast.Attribute) and c.func.attr == "write"):
                continue
            if any(t.kind in ("repo", "class") for t in s.targets):
                continue  # resolved: Message.write etc. or handled above
            if f.fq in known_file_writers or f.fq in allowed:
                continue
            if f.module.short in ("twisted", "dask", "journald", "logwriter", "stdlib", "tai64n", "serializers", "testing"):
                continue
            chk.bad("C02.who", "%s:unresolved-write" % f.fq, s.where,
                    "`%s`: a write on an untyped receiver outside the known file-output functions" % s.text[:60])


def _write_call(chk, f):
    ctx = chk.ctx
    impls = write_impls(chk)
    out = []
    cfg = ctx.cfg(f)
    for n in cfg.live:
        for c, m in calls_in_node(n):
            if any(t in impls for t in ctx.targets(f, c)):
                out.append((n, c, m))
    return cfg, out


def rule_fields(chk):
    ctx = chk.ctx
    p = ctx.p
    msg = p.mod("_message")
    act = p.mod("_action")
    TS = p.fold_global(msg, "TIMESTAMP_FIELD")
    UU = p.fold_global(msg, "TASK_UUID_FIELD")
    TL = p.fold_global(msg, "TASK_LEVEL_FIELD")
    MT = p.fold_global(msg, "MESSAGE_TYPE_FIELD")
    AT = p.fold_global(act, "ACTION_TYPE_FIELD")
    AS = p.fold_global(act, "ACTION_STATUS_FIELD")
    ntl = ctx.func("_action", "Action._nextTaskLevel")
    aslist = ctx.func("_action", "TaskLevel.as_list")
    facts = {}
    for q in EMISSION:
        f = ctx.func("_action", q)
        cfg, wcalls = _write_call(chk, f)
        chk.need(wcalls, "%s no longer calls ILogger.write" % f.fq)
        for n, c, m in wcalls:
            where = chk.where(f, c.lineno)
            chk.need(c.args and isinstance(c.args[0], ast.Name), "%s: written message is not a simple variable" % f.fq)
            var = c.args[0].id
            st = common.must_keys(ctx, f, var, c)
            chk.need(st is not None, "%s: write call unreachable" % f.fq)
            pres = st.present
            facts[q] = st
            # timestamp
            v = pres.get(TS)
            okts = v is not None and isinstance(v[1], ast.Call) and any(
                t.kind == "ext" and t.ref == "time.time" for t in ctx.cg.typer.resolve_call(f, v[1]))
            chk.req(okts, "C02.fields", "%s:timestamp" % q, where, good="%s = time.time() evaluated in the emitting call, after user fields" % TS,
                    fail="%s is not certainly the float time.time() at the write (state: %s)" % (TS, v and v[1] is not None and unparse(v[1])))
            # task_uuid
            v = pres.get(UU)
            okuu = v is not None and v[1] is not None and ("_identification" in unparse(v[1]) or isinstance(v[1], (ast.Name, ast.Subscript)))
            chk.req(okuu, "C02.fields", "%s:task_uuid" % q, where, good="%s certainly present (%s)" % (UU, v and unparse(v[1])[:50]),
                    fail="%s not certainly present after user fields at the write" % UU)
            # task_level = self._nextTaskLevel().as_list()  (possibly through a single-assignment local)
            v = pres.get(TL)
            oktl = False
            if v is not None and isinstance(v[1], ast.Call) and aslist in ctx.targets(f, v[1]):
                inner = v[1].func.value if isinstance(v[1].func, ast.Attribute) else None
                if isinstance(inner, ast.Name) and len(stores_to_name(f, inner.id)) == 1:
                    vals = assigned_values(f, inner.id)
                    inner = vals[0] if len(vals) == 1 else inner
                oktl = isinstance(inner, ast.Call) and ntl in ctx.targets(f, inner)
            chk.req(oktl, "C02.fields", "%s:task_level" % q, where,
                    good="%s = <allocator>().as_list(), stored after user fields" % TL,
                    fail="%s is not the freshly allocated position's list at the write (state: %s)" % (TL, v and v[1] is not None and unparse(v[1])))
            # kind
            if q == "Action.log":
                okk = MT in pres and AT not in pres
                chk.req(okk, "C02.fields", "%s:message_type" % q, where, good="%s certainly present" % MT,
                        fail="message kind key %s not certainly present at the write" % MT)
            else:
                okk = AT in pres and AS in pres
                chk.req(okk, "C02.fields", "%s:action_type+status" % q, where, good="%s and %s certainly present" % (AT, AS),
                        fail="%s/%s not certainly present at the write" % (AT, AS))
    return facts


def rule_alloc(chk, prefix="C02"):
    """One position per emission / child / serialized id; the allocator is sound."""
    ctx = chk.ctx
    ntl = ctx.func("_action", "Action._nextTaskLevel")
    callers = {}
    for s in ctx.cg.callers_of(ntl):
        if s.func.module.short.startswith("test"):
            continue
        if s.func in list(ctx.p.all_funcs()):
            callers.setdefault(s.func, []).append(s)
    # the five sites confirmed on the pinned tree must each take a position
    for q in ("Action.serialize_task_id", "Action._start", "Action.finish", "Action.child", "Action.log"):
        g = ctx.func("_action", q)
        if g not in callers:
            chk.bad("%s.alloc" % prefix, "%s:one-position" % g.fq, chk.where(g),
                    "%s no longer takes a position from the allocator: what it emits/hands out shares its level with another message (duplicate level, or a remote id that collides)" % q)
    chk.instances("%s.alloc:allocation sites" % prefix, len(callers), 3)
    for f, ss in sorted(callers.items(), key=lambda kv: kv[0].fq):
        cfg = ctx.cfg(f)
        calls = ctx.calls_to(f, ntl)

        def w(n):
            return sum(1 for (nn, c, m) in calls if nn is n)
        _cfg, wcalls = _write_call(chk, f)
        quiet = common.quiet_exc_edges(ctx, f)
        if wcalls:
            dsts = [n for n, c, m in wcalls]
            rng = cfg.count_range(cfg.entry, dsts, w, avoid_edges=quiet)
            what = "to the write call"
        else:
            rng = cfg.count_range(cfg.entry, [cfg.exit], w, avoid_edges=quiet)
            what = "to the return"
        mult_ok = all(m == "once" for _, _, m in calls)
        chk.req(rng == (1, 1) and mult_ok, "%s.alloc" % prefix, "%s:one-position" % f.fq, chk.where(f),
                good="exactly one allocator call on every path %s" % what,
                fail="allocator calls on paths %s range %s%s: a position is skipped (gap: parser never completes the action) or reused (duplicate level)"
                     % (what, rng, "" if mult_ok else " (conditional call)"), sites=len(cfg.live))
        if wcalls and calls:
            # nothing is emitted between taking the position and writing the message that carries it
            impls = set(write_impls(chk))
            memo = {}

            def emits(g, depth=0):
                if g in memo:
                    return memo[g]
                memo[g] = False
                if g in impls:
                    memo[g] = True
                    return True
                for s_ in ctx.cg.sites.get(g, []):
                    for h in ctx.contain._callees(s_):
                        if depth < 30 and emits(h, depth + 1):
                            memo[g] = True
                            return True
                return memo[g]
            anodes = [n for n, c, m in calls]
            wnodes = [n for n, c, m in wcalls]
            between = cfg.reach([s_ for a in anodes for s_, l in a.succ if l != "exc"], avoid=set(wnodes)) & {x for x in cfg.live if any(w_ in cfg.reach([x]) for w_ in wnodes)}
            offenders = []
            for x in between:
                if x in anodes or x in wnodes:
                    continue
                for c_, m_ in calls_in_node(x):
                    if any(emits(g) for g in ctx.targets(f, c_)) and not any(c_ is cc for _, cc, _m in calls):
                        offenders.append((x, c_))
            chk.req(not offenders, "%s.alloc" % prefix, "%s:nothing-emitted-between-allocation-and-write" % f.fq, chk.where(f),
                    good="the position is taken immediately before the message is written",
                    fail=lambda: "`%s` (line %d) can log messages after this message's position was taken and before it is written: they get higher positions although they are emitted first (e.g. an end message that is not the last position of its action)"
                                 % (unparse(offenders[0][1])[:50], offenders[0][0].lineno), sites=len(between))
        if wcalls:
            # after the write no further allocation in the same call
            for n, c, m in wcalls:
                after = cfg.count_range(n, [cfg.exit], lambda x: 0 if x is n else w(x), avoid_edges=quiet)
                chk.req(after is None or after[1] == 0, "%s.alloc" % prefix, "%s:no-allocation-after-write" % f.fq, chk.where(f, c.lineno),
                        good="no allocation after the write", fail="a position is consumed after the message was written (range %s)" % (after,))
    # the allocator itself
    cfg = ctx.cfg(ntl)
    cls = ntl.cls
    stores = [n for n in cfg.live if isinstance(n.ast, ast.Assign) and any(common.is_self_attr(t, "_last_child") for t in n.ast.targets)]
    chk.need(stores, "allocator no longer stores self._last_child")
    tchild = ctx.func("_action", "TaskLevel.child")
    tnext = ctx.func("_action", "TaskLevel.next_sibling")
    problems = []
    rng = cfg.count_range(cfg.entry, [cfg.exit], lambda n: 1 if n in stores else 0)
    if rng != (1, 1):
        problems.append("the counter is advanced %s times per call" % (rng,))
    def _is_first(v):
        return isinstance(v, ast.Call) and tchild in ctx.targets(ntl, v) and isinstance(v.func, ast.Attribute) and common.is_self_attr(v.func.value, "_task_level")

    def _is_next(v):
        return isinstance(v, ast.Call) and tnext in ctx.targets(ntl, v) and isinstance(v.func, ast.Attribute) and common.is_self_attr(v.func.value, "_last_child")

    def _none_polarity(e):
        """+1: e is true exactly when no position was handed out yet; -1: the opposite; 0: other"""
        if isinstance(e, ast.UnaryOp) and isinstance(e.op, ast.Not) and common.is_self_attr(e.operand, "_last_child"):
            return 1
        if common.is_self_attr(e, "_last_child"):
            return -1
        if isinstance(e, ast.Compare) and len(e.ops) == 1 and common.is_self_attr(e.left, "_last_child") \
                and isinstance(e.comparators[0], ast.Constant) and e.comparators[0].value is None:
            return 1 if isinstance(e.ops[0], (ast.Is, ast.Eq)) else -1
        return 0
    from .. import exprs as X
    # `previous = self._last_child` read before the store is the same value under another name (matching only)
    snap = {k_: v_ for k_, v_ in X.single_assignments(ntl).items() if common.is_self_attr(v_, "_last_child")}
    snap_ok = all(cfg.precedes([x for x in cfg.live if isinstance(x.ast, ast.Assign) and isinstance(x.ast.targets[0], ast.Name) and x.ast.targets[0].id == k_], stores)[0] for k_ in snap)
    # the stored value may be computed into a local on the two arms and stored once afterwards:
    # `if last: nxt = last.next_sibling() else: nxt = level.child()`; `self._last_child = nxt`; `return nxt`
    arms = []
    stored_names = set()
    for n in list(stores):
        v0 = n.ast.value
        if isinstance(v0, ast.Name) and v0.id not in snap:
            src = [x for x in cfg.live if isinstance(x.ast, ast.Assign) and len(x.ast.targets) == 1 and isinstance(x.ast.targets[0], ast.Name) and x.ast.targets[0].id == v0.id]
            if src and all(isinstance(x.ast.value, ast.Call) for x in src) and cfg.precedes(src, [n])[0]:
                stored_names.add(v0.id)
                arms += [(x, x.ast.value) for x in src]
                continue
        arms.append((n, v0))
    for n, v0 in arms:
        v = X.inline(ntl, v0, snap) if snap_ok else v0
        if isinstance(v, ast.IfExp):
            pol = _none_polarity(v.test)
            first, nxt = (v.body, v.orelse) if pol == 1 else (v.orelse, v.body)
            if pol == 0 or not (_is_first(first) and _is_next(nxt)):
                problems.append("counter set by %s: not `child()` exactly on first use and `next_sibling()` afterwards" % unparse(v)[:70])
            stores_done = True
            continue
        tg = ctx.targets(ntl, v) if isinstance(v, ast.Call) else []
        guards = cfg.guards_of(n)

        def empty_polarity():
            for t, lab in guards:
                if t.kind != "test":
                    continue
                e = X.inline(ntl, t.exprs[0], snap) if snap_ok else t.exprs[0]
                if isinstance(e, ast.UnaryOp) and isinstance(e.op, ast.Not) and common.is_self_attr(e.operand, "_last_child"):
                    return 1 if lab == "true" else -1
                if common.is_self_attr(e, "_last_child"):
                    return -1 if lab == "true" else 1
                if isinstance(e, ast.Compare) and len(e.ops) == 1 and common.is_self_attr(e.left, "_last_child") \
                        and isinstance(e.comparators[0], ast.Constant) and e.comparators[0].value is None:
                    isn = isinstance(e.ops[0], (ast.Is, ast.Eq))
                    return (1 if lab == "true" else -1) * (1 if isn else -1)
            return 0
        pol = empty_polarity()
        if tchild in tg and isinstance(v.func, ast.Attribute) and common.is_self_attr(v.func.value, "_task_level"):
            if pol != 1:
                problems.append("first position (task_level.child()) is not taken exactly when no position was handed out yet")
        elif tnext in tg and isinstance(v.func, ast.Attribute) and common.is_self_attr(v.func.value, "_last_child"):
            if pol != -1:
                problems.append("next_sibling() arm is not taken exactly when a position was already handed out")
        else:
            problems.append("counter set to %s, neither <own level>.child() nor <last>.next_sibling()" % unparse(v)[:60])
    for r in common.returns_of(cfg):
        if isinstance(r.ast.value, ast.Name) and r.ast.value.id in stored_names and cfg.precedes(stores, [r])[0]:
            continue  # the very value that was just stored
        if not (r.ast.value is not None and common.is_self_attr(r.ast.value, "_last_child")):
            problems.append("allocator returns %s, not the position just stored" % (r.ast.value is not None and unparse(r.ast.value)))
    chk.req(not problems, "%s.alloc" % prefix, "Action._nextTaskLevel:advances-by-one", chk.where(ntl),
            good="child() on first use, next_sibling() afterwards, returns the stored position", fail="; ".join(problems), sites=len(cfg.live))
    # ownership of the counter
    writers = []
    for m in set(cls.methods.values()):
        for n in iter_own_nodes(m.node):
            if isinstance(n, (ast.Assign, ast.AugAssign)):
                tg = n.targets if isinstance(n, ast.Assign) else [n.target]
                if any(common.is_self_attr(t, "_last_child") for t in tg):
                    writers.append((m, n))
    bad = [(m, n) for m, n in writers if m is not ntl and not (m.name == "__init__" and isinstance(n.value, ast.Constant) and n.value.value is None)]
    chk.req(not bad and any(m.name == "__init__" for m, n in writers), "%s.alloc" % prefix, "Action._last_child:single-writer", chk.where(ntl),
            good="initialised None in __init__, advanced only by the allocator",
            fail="the position counter is also written by %s" % ", ".join("%s:%d" % (m.fq, n.lineno) for m, n in bad))
    # the child gets exactly the allocated level and the parent's uuid
    child = ctx.func("_action", "Action.child")
    ccfg = ctx.cfg(child)
    ok = False
    for r in common.returns_of(ccfg):
        v = r.ast.value
        if isinstance(v, ast.Call) and len(v.args) >= 3:
            lvl = v.args[2]
            if isinstance(lvl, ast.Name):
                vals = assigned_values(child, lvl.id)
                ok = len(vals) == 1 and isinstance(vals[0], ast.Call) and ntl in ctx.targets(child, vals[0])
            elif isinstance(lvl, ast.Call):
                ok = ntl in ctx.targets(child, lvl)
            ok = ok and "_identification" in unparse(v.args[1])
    chk.req(ok, "%s.alloc" % prefix, "Action.child:level-is-the-allocated-position", chk.where(child),
            good="child built from the parent's uuid and the allocated level", fail="the child action is not built from the allocated position / parent's uuid")


def rule_levels(chk):
    ctx = chk.ctx
    tl = ctx.cls("_action", "TaskLevel")
    FRESH_CALLS = ("list", "copy")

    def fresh(e):
        if isinstance(e, ast.Subscript) and isinstance(e.slice, ast.Slice):
            return True
        if isinstance(e, ast.Call) and isinstance(e.func, ast.Name) and e.func.id == "list":
            return True
        if isinstance(e, ast.Call) and isinstance(e.func, ast.Attribute) and e.func.attr == "copy":
            return True
        if isinstance(e, (ast.List, ast.ListComp)):
            return True
        if isinstance(e, ast.BinOp) and isinstance(e.op, ast.Add):
            return True
        return False

    for mname in ("child", "next_sibling", "parent", "as_list"):
        m = tl.find_method(mname)
        chk.need(m is not None, "TaskLevel.%s vanished" % mname)
        problems = []
        aliases = set()
        for n in iter_own_nodes(m.node):
            if isinstance(n, ast.Assign) and len(n.targets) == 1 and isinstance(n.targets[0], ast.Name):
                if common.is_self_attr(n.value, "_level"):
                    aliases.add(n.targets[0].id)
        for n in iter_own_nodes(m.node):
            # in-place mutation of self._level or of an alias
            tgt = None
            if isinstance(n, ast.Call) and isinstance(n.func, ast.Attribute) and n.func.attr in ("append", "extend", "pop", "insert", "remove", "clear", "sort", "reverse"):
                tgt = n.func.value
            elif isinstance(n, ast.AugAssign):
                tgt = n.target.value if isinstance(n.target, ast.Subscript) else n.target
            elif isinstance(n, ast.Assign):
                for t in n.targets:
                    if isinstance(t, ast.Subscript):
                        tgt = t.value
                    if common.is_self_attr(t, "_level"):
                        tgt = t
            elif isinstance(n, ast.Delete):
                for t in n.targets:
                    if isinstance(t, ast.Subscript):
                        tgt = t.value
            if tgt is not None and (common.is_self_attr(tgt, "_level") or (isinstance(tgt, ast.Name) and tgt.id in aliases)):
                problems.append("line %d mutates the receiver's own level list in place" % n.lineno)
            if isinstance(n, ast.Return) and n.value is not None and mname == "as_list":
                if not fresh(n.value):
                    problems.append("as_list returns the internal list itself (callers' edits would move the action)")
        if mname in ("child", "next_sibling"):
            # value semantics: one derivation step with the constant 1
            names = {}
            for n in iter_own_nodes(m.node):
                if isinstance(n, ast.Assign) and len(n.targets) == 1 and isinstance(n.targets[0], ast.Name):
                    names[n.targets[0].id] = n.value
            step_ok = False
            for n in iter_own_nodes(m.node):
                if mname == "child":
                    if isinstance(n, ast.Call) and isinstance(n.func, ast.Attribute) and n.func.attr == "append" and len(n.args) == 1 \
                            and isinstance(n.args[0], ast.Constant) and n.args[0].value == 1 and isinstance(n.func.value, ast.Name) \
                            and n.func.value.id in names and fresh(names[n.func.value.id]) and "_level" in unparse(names[n.func.value.id]):
                        step_ok = True
                    if isinstance(n, ast.BinOp) and isinstance(n.op, ast.Add) and common.is_self_attr(n.left, "_level") \
                            and isinstance(n.right, ast.List) and len(n.right.elts) == 1 and isinstance(n.right.elts[0], ast.Constant) and n.right.elts[0].value == 1:
                        step_ok = True
                else:
                    if isinstance(n, ast.AugAssign) and isinstance(n.op, ast.Add) and isinstance(n.value, ast.Constant) and n.value.value == 1 \
                            and isinstance(n.target, ast.Subscript) and isinstance(n.target.value, ast.Name) and n.target.value.id in names \
                            and fresh(names[n.target.value.id]) and "_level" in unparse(names[n.target.value.id]) \
                            and isinstance(n.target.slice, ast.UnaryOp) and isinstance(n.target.slice.op, ast.USub) \
                            and isinstance(n.target.slice.operand, ast.Constant) and n.target.slice.operand.value == 1:
                        step_ok = True
                    if isinstance(n, ast.BinOp) and isinstance(n.op, ast.Add) and "self._level[:-1]" in unparse(n.left) \
                            and "self._level[-1] + 1" in unparse(n.right):
                        step_ok = True
            if not step_ok:
                problems.append("%s does not derive the new level as a fresh copy %s" % (mname, "with 1 appended" if mname == "child" else "with the last element + 1"))
            # returns a new TaskLevel built from the derived list
            rets = [n for n in iter_own_nodes(m.node) if isinstance(n, ast.Return)]
            for r in rets:
                if not (isinstance(r.value, ast.Call) and any(t is tl.find_method("__init__") for t in ctx.targets(m, r.value))):
                    problems.append("%s does not return a new TaskLevel" % mname)
            # conditionals in the arithmetic are suspicious: the derivation must be unconditional
            if any(isinstance(n, (ast.If, ast.IfExp, ast.While, ast.For, ast.Try)) for n in iter_own_nodes(m.node)):
                problems.append("%s derives the level conditionally" % mname)
        chk.req(not problems, "C02.levels", "TaskLevel.%s:copy-on-derive" % mname, chk.where(m),
                good="derives on a fresh copy; receiver's list untouched", fail="; ".join(problems))



def is_root_ctor(ctx, f, n):
    """n is a direct construction of a root action: Action(<logger>, <uuid>, TaskLevel(level=[]), ...) -> the uuid expression (or True)"""
    acls = ctx.cls("_action", "Action")
    tlcls = ctx.cls("_action", "TaskLevel")
    init = acls.find_method("__init__")
    if not (isinstance(n, ast.Call) and init in ctx.targets(f, n)):
        return None
    args = list(n.args)
    lvl = args[2] if len(args) > 2 else next((k.value for k in n.keywords if k.arg == "task_level"), None)
    uu = args[1] if len(args) > 1 else next((k.value for k in n.keywords if k.arg == "task_uuid"), None)
    if lvl is None:
        return None
    from .. import exprs as X
    lvl = X.inline(f, lvl)
    ok = isinstance(lvl, ast.Call) and tlcls.find_method("__init__") in ctx.targets(f, lvl)
    if ok:
        a = lvl.keywords[0].value if lvl.keywords else (lvl.args[0] if lvl.args else None)
        okl, lv = ctx.try_fold(f, a) if a is not None else (False, None)
        ok = okl and isinstance(lv, (list, tuple)) and len(lv) == 0
    return (uu if uu is not None else True) if ok else None


def root_builders(ctx):
    """private helper functions every return of which is a root construction -- directly or through another such helper"""
    out = {}
    changed = True
    while changed:
        changed = False
        for g in ctx.p.all_funcs():
            if g in out:
                continue
            rets = [r for r in iter_own_nodes(g.node) if isinstance(r, ast.Return)]
            if not rets:
                continue

            def is_root(v):
                if v is None:
                    return False
                if is_root_ctor(ctx, g, v) is not None:
                    return True
                if isinstance(v, ast.Call):
                    tg = ctx.targets(g, v)
                    return bool(tg) and all(t in out for t in tg)
                return False
            if all(is_root(r.value) for r in rets):
                out[g] = [r.value for r in rets]
                changed = True
    return out


def root_sites(ctx, f):
    """call nodes in f that produce a root action: direct constructions and calls of root builders"""
    rb = root_builders(ctx)
    out = []
    for n in iter_own_nodes(f.node):
        if isinstance(n, ast.Call):
            if is_root_ctor(ctx, f, n) is not None:
                out.append(n)
            else:
                tg = ctx.targets(f, n)
                if tg and all(t in rb for t in tg):
                    out.append(n)
    return out


def rule_uuid(chk, only=None):
    ctx = chk.ctx
    acls = ctx.cls("_action", "Action")
    tlcls = ctx.cls("_action", "TaskLevel")
    init = acls.find_method("__init__")
    n_sites = 0
    rb = root_builders(ctx)
    for f in ctx.p.all_funcs():
        if only and f.qualname not in only and f not in rb:
            continue
        for n in iter_own_nodes(f.node):
            uu = is_root_ctor(ctx, f, n)
            if uu is None:
                continue
            uu = None if uu is True else uu
            n_sites += 1
            fresh = False
            if uu is not None:
                for x in ast.walk(uu):
                    if isinstance(x, ast.Call) and any(t.kind == "ext" and t.ref == "uuid.uuid4" for t in ctx.cg.typer.resolve_call(f, x)):
                        fresh = True
            shared_rng = None
            if uu is not None and not fresh:
                # 128 random bits formatted as a version-4 UUID: as good as uuid4() when the generator is private to eliot (seeded from the OS,
                # out of the application's reach); the process-wide `random` generator can be re-seeded or restored by the application
                for x in ast.walk(uu):
                    if isinstance(x, ast.Call) and isinstance(x.func, (ast.Attribute, ast.Name)) and (x.func.attr if isinstance(x.func, ast.Attribute) else x.func.id) == "getrandbits":
                        recv = x.func.value if isinstance(x.func, ast.Attribute) else x.func
                        r_ = ctx.p.resolve_expr_static(f.module, f, recv) if isinstance(recv, (ast.Name, ast.Attribute)) else None
                        if r_ and r_[0] == "modvar":
                            vals_ = [v for v in r_[1].assigns.get(r_[2], []) if isinstance(v, ast.Call)]
                            if len(vals_) == 1 and unparse(vals_[0].func).split(".")[-1] in ("Random", "SystemRandom") and not vals_[0].args:
                                fresh = True
                        elif r_ and r_[0] == "ext" and str(r_[1]).startswith("random"):
                            shared_rng = unparse(x)
            if shared_rng:
                chk.bad("C02.uuid", "%s:fresh-uuid-per-root" % f.fq, chk.where(f, n.lineno),
                        "the task uuid is made from `%s`, the process-wide generator of the random module: an application that calls random.seed(<constant>) per experiment / per worker, or "
                        "restores a saved state with random.setstate(), makes later tasks repeat earlier task uuids -- two messages then share (task_uuid, task_level)" % shared_rng[:50])
                continue
            chk.req(fresh, "C02.uuid", "%s:fresh-uuid-per-root" % f.fq, chk.where(f, n.lineno),
                    good="task_uuid = %s evaluated at the construction" % (uu is not None and unparse(uu)),
                    fail="a root action is created with task_uuid %s, which is not a uuid4() evaluated at this construction: two trees can share a uuid" % (uu is not None and unparse(uu)))
    # start_task always begins a new tree: its Action is built at the empty root level
    st_ = ctx.func("_action", "startTask")
    roots = len(root_sites(ctx, st_))
    chk.req(roots == 1, "C02.uuid", "startTask:root-level-is-empty", chk.where(st_), good="Action(..., TaskLevel(level=[]), ...)",
            fail="start_task does not build its action at the empty root level: the task's start message is not at position [1] and the parser never completes it")
    if not only:
        chk.instances("C02.uuid:root constructions", n_sites, 1)
    return n_sites


def rule_exit_order(chk):
    ctx = chk.ctx
    ex = ctx.func("_action", "Action.__exit__")
    fin = ctx.func("_action", "Action.finish")
    cfg = ctx.cfg(ex)
    fins = [n for n, c, m in ctx.calls_to(ex, fin)]
    chk.need(fins, "__exit__ no longer calls finish")
    from . import c04
    var, _, _ = c04.context_var(chk)
    resets = []
    if var is not None:
        uses = c04.var_uses(chk, var)
        restoring = {f for f, n, k, c in uses if k == "reset" and f is not ex and f.name not in ("__enter__", "run", "context")}
        for f, n, k, c in uses:
            if f is ex and k == "reset":
                nn, _m = common.node_of_call(cfg, c)
                if nn is not None:
                    resets.append(nn)
            elif f is ex and k == "set" and c.args and not (isinstance(c.args[0], ast.Name) and c.args[0].id == "self"):
                # putting another action back by value also ends this action's being current
                nn, _m = common.node_of_call(cfg, c)
                if nn is not None:
                    resets.append(nn)
        # a helper method of the class that restores the context counts as the reset
        for g in restoring:
            resets += [n for n, c, m in ctx.calls_to(ex, g)]
    ok, wit = (cfg.precedes(resets, fins) if resets else (False, None))
    chk.req(bool(resets) and ok, "C02.exit-order", "Action.__exit__:reset-before-finish", chk.where(ex),
            good="context reset precedes finish() on every path",
            fail="the end message is written while the action is still current: reports about it land inside the finished action (after its end). %s"
                 % (cfg.fmt_path(wit) if wit else "no reset in __exit__"), sites=len(cfg.live))


def rule_report_path(chk):
    ctx = chk.ctx
    lw = ctx.func("_output", "Logger.write")
    send = ctx.func("_output", "Destinations.send")
    lm = ctx.func("_action", "log_message")
    bad = []
    from ..contain import in_handler
    for s in ctx.cg.sites[lw]:
        if in_handler(s.ctx) and s.call is not None:
            tg = s.repo_targets()
            if send in tg or any(t.qualname.endswith(".__call__") for t in tg):
                bad.append(s)
    chk.req(not bad, "C02.report-path", "Logger.write:failure-report-through-normal-path", chk.where(lw),
            good="serialization-failure reports go through write_traceback/log_message",
            fail="failure report bypasses position allocation: %s" % [s.text[:40] for s in bad])


def run(chk):
    rule_who(chk)
    rule_fields(chk)
    rule_alloc(chk)
    rule_levels(chk)
    rule_uuid(chk)
    rule_exit_order(chk)
    rule_report_path(chk)
    from . import c03, c06
    c03.rule_start(chk)
    c03.rule_once(chk)
    common.rule_instance_state(chk, "C02", [("_action", "Action")])
    common.rule_defaults(chk, "C02", modules=("_action", "_message", "_output"))
    c06.rule_once(chk)  # a serialized position continued twice duplicates every level below it
    from . import c13
    c13.rule_message_copies(chk)  # Message.write builds its routing keys (logger, serializer) in a per-write copy: kept in the Message they divert later writes, whose levels then never reach the destinations (a gap)
    c13.rule_copy(chk)  # what a destination received is a private copy: a dict reused by a later emission cannot turn a delivered message into a duplicate
    from . import c08
    c08.rule_fanout(chk)   # what a destination that accepted every message observes while others fail
    c08.rule_report_path(chk)
    c08.rule_report_logger(chk)
    from . import integration
    integration.dask_continuation(chk, chk.pid)  # eliot.dask hands one serialized id to each wrapped task
