"""C18 -- log_call is transparent: same result, same exceptions, faithful argument log (partial)."""

import ast

from ..index import unparse, iter_own_nodes, AnalysisError
from ..cfg import calls_in_node
from ..framework import stores_to_name, assigned_values
from .. import exprs as X
from . import common

EXPLANATION = (
    "PARTIAL.  Binding rules for all signatures are delegated to inspect.getcallargs (trusted); a parameter "
    "named like a reserved message key cannot appear under its own name (format-inherent, documented).  "
    "Decided on log_call.logging_wrapper: the wrapped function is called exactly once on every path with "
    "*args/**kwargs exactly as received (never rebound or filtered); every normal exit returns the result of "
    "that call, on both arms of include_result; the wrapper has no except clause and the call runs inside a "
    "`with <action>` whose __exit__ does not swallow; the start fields are the result of "
    "getcallargs(wrapped_function, *args, **kwargs) with at most `self` removed and the include_args "
    "restriction; a user-keyed mapping is never splatted (**) into a callee with named parameters; "
    "add_success_fields(result=<the result>) is called iff include_result; metadata via boltons wraps; default "
    "action type from __module__ and __qualname__; the decorator-factory arm passes its options through."
    "  C07.contain restricted to log_call, Action.finish and Action.__exit__ is part of this property (the wrapper's own code may not raise into the call)."
    '  Binding through inspect.signature(f).bind without follow_wrapped=False is a violation (signature follows __wrapped__); other binding mechanisms are not modelled (exit 2).'
    "  A positional fast path dict(zip(names, args)) is decided by the facts that make it equal to Python's binding (plain function, no *args/**kwargs/keyword-only, no keywords, as many positionals as names)."
)
RULE = "obligation = rule instance bound to a call site / return / decorator of log_call; non-trivial = CFG paths examined"
ASSUMPTIONS = [
    "inspect.getcallargs binds arguments exactly as the call itself would",
    "boltons.funcutils.wraps preserves name, docstring and signature",
]


def _lw(chk):
    ctx = chk.ctx
    lc = ctx.func("_action", "log_call")
    ws = [g for g in lc.nested.values() if not g.is_lambda]
    chk.need(len(ws) == 1, "log_call: wrapper not found")
    return lc, ws[0]


def rule_transparent(chk):
    ctx = chk.ctx
    lc, w = _lw(chk)
    cfg = ctx.cfg(w)
    fparam = lc.params[0]
    va, kw = w.node.args.vararg, w.node.args.kwarg
    chk.need(va is not None and kw is not None, "logging_wrapper no longer takes *args, **kwargs")
    calls = [(n, c, m) for n in cfg.live for c, m in calls_in_node(n) if isinstance(c.func, ast.Name) and c.func.id == fparam]
    chk.need(calls, "logging_wrapper no longer calls the wrapped function")
    problems = []
    quiet = common.quiet_exc_edges(ctx, w)
    rng = cfg.count_range(cfg.entry, [cfg.exit], lambda x: sum(1 for n, c, m in calls if n is x))
    if rng != (1, 1) or any(m != "once" for n, c, m in calls):
        problems.append("the wrapped function is called %s times on some normal path" % (rng,))
    for n, c, m in calls:
        okargs = len(c.args) == 1 and isinstance(c.args[0], ast.Starred) and isinstance(c.args[0].value, ast.Name) and c.args[0].value.id == va.arg \
            and len(c.keywords) == 1 and c.keywords[0].arg is None and isinstance(c.keywords[0].value, ast.Name) and c.keywords[0].value.id == kw.arg
        if not okargs:
            problems.append("the wrapped function is called as %s, not with exactly (*%s, **%s)" % (unparse(c), va.arg, kw.arg))
    if stores_to_name(w, va.arg) or stores_to_name(w, kw.arg) or stores_to_name(lc, fparam) or stores_to_name(w, fparam):
        problems.append("the received arguments (or the wrapped function) are rebound before the call")
    for nm in (va.arg, kw.arg):
        for x in iter_own_nodes(w.node):
            if isinstance(x, ast.Call) and isinstance(x.func, ast.Attribute) and isinstance(x.func.value, ast.Name) and x.func.value.id == nm \
                    and x.func.attr in ("pop", "update", "clear", "setdefault", "popitem", "append", "remove"):
                problems.append("the received %s are mutated (%s)" % (nm, unparse(x)[:40]))
            if isinstance(x, (ast.Assign, ast.Delete)):
                for t in (x.targets if isinstance(x, (ast.Assign, ast.Delete)) else []):
                    if isinstance(t, ast.Subscript) and isinstance(t.value, ast.Name) and t.value.id == nm:
                        problems.append("the received %s are mutated" % nm)
    # returns
    resvars = {n.ast.targets[0].id for n, c, m in calls if isinstance(n.ast, ast.Assign) and n.ast.value is c and isinstance(n.ast.targets[0], ast.Name)}
    good_rets = []
    for r in common.returns_of(cfg):
        v = r.ast.value
        if isinstance(v, ast.Name) and v.id in resvars and len(stores_to_name(w, v.id)) == 1:
            good_rets.append(r)
        elif any(v is c for n, c, m in calls):
            good_rets.append(r)
        else:
            problems.append("line %d returns %s instead of the wrapped function's result" % (r.lineno, v is not None and unparse(v)))
    ok, wit = cfg.must_pass([cfg.entry], [cfg.exit], good_rets, avoid_edges=quiet)
    if not ok:
        problems.append("a normal exit does not return the wrapped function's result (returns None): %s" % cfg.fmt_path(wit))
    if any(isinstance(x, ast.Try) and x.handlers for x in iter_own_nodes(w.node)):
        problems.append("the wrapper contains an except clause: exceptions of the wrapped function may not propagate unchanged")
    enters = [x for x in cfg.live if x.kind == "with_enter"]
    acls = ctx.cls("_action", "Action")
    inside = False
    for e in enters:
        ts = ctx.cg.typer.type_of(w, e.info["item"].context_expr)
        if acls in ts and all(cfg.precedes([e], [n])[0] for n, c, m in calls):
            inside = True
    if not inside:
        problems.append("the call does not run inside `with <the logged action>`")
    chk.req(not problems, "C18.transparent", "log_call.logging_wrapper:same-call-same-result", chk.where(w),
            good="one call with (*args, **kwargs) unchanged; its result returned on every normal exit; no handler", fail="; ".join(problems), sites=len(cfg.live))
    return resvars


def _positional_fast_path(chk, lc, w, cfg, stmt, v, va, kw):
    """`callargs = dict(zip(<names>, args))` instead of getcallargs for purely positional calls.  It binds like the call itself exactly when
    <names> are ALL the parameters of a plain function that has no *args, no **kwargs and no keyword-only parameters, and the call has no
    keyword arguments and as many positional arguments as there are names.  True: all of that is established; str: what is missing;
    None: not this shape."""
    ctx = chk.ctx
    if not (isinstance(v, ast.Call) and isinstance(v.func, ast.Name) and v.func.id == "dict" and len(v.args) == 1 and isinstance(v.args[0], ast.Call)
            and isinstance(v.args[0].func, ast.Name) and v.args[0].func.id == "zip" and len(v.args[0].args) == 2):
        return None
    names_e, args_e = v.args[0].args
    if not (isinstance(args_e, ast.Name) and args_e.id == va):
        return None
    defs, real = [], []
    if isinstance(names_e, ast.Name):
        # where the names come from (decoration time, in log_call)
        defs = [d for d in iter_own_nodes(lc.node) if isinstance(d, ast.Assign) and any(isinstance(t, ast.Name) and t.id == names_e.id for t in d.targets)]
        real = [d for d in defs if not (isinstance(d.value, ast.Constant) and d.value.value is None)]
        if len(real) != 1:
            return None
        src = real[0].value
        inner = src.args[0] if isinstance(src, ast.Call) and isinstance(src.func, ast.Name) and src.func.id in ("tuple", "list") and len(src.args) == 1 else src
    else:
        inner = names_e
    if not (isinstance(inner, ast.Attribute) and inner.attr == "args" and isinstance(inner.value, ast.Name)):
        return None
    spec = inner.value.id
    spec_vals = [x for x in assigned_values(lc, spec) if x is not None]
    fparam = lc.params[0]
    if not (len(spec_vals) == 1 and isinstance(spec_vals[0], ast.Call) and unparse(spec_vals[0].func).split(".")[-1] == "getfullargspec"
            and len(spec_vals[0].args) == 1 and isinstance(spec_vals[0].args[0], ast.Name) and spec_vals[0].args[0].id == fparam):
        return None
    lcfg = ctx.cfg(lc)
    facts = []
    if real:
        dn = [n for n in lcfg.live if n.ast is real[0]]
        if not dn:
            return None
        for t, lab in lcfg.guards_of(dn[0]):
            if t.kind == "test":
                facts += [(unparse(e), truth) for e, truth in X.atomic_facts(t.exprs[0], lab)]
    lc_env = X.single_assignments(lc)
    need = {"no *args": ("%s.varargs is None" % spec, True), "no **kwargs": ("%s.varkw is None" % spec, True), "no keyword-only parameters": ("%s.kwonlyargs" % spec, False),
            "a plain Python function": ("isfunction(%s)" % fparam, True)}
    missing = [k for k, f_ in need.items() if f_ not in facts]
    un = [n for n in cfg.live if n.ast is stmt]
    ufacts = []
    for t, lab in (cfg.guards_of(un[0]) if un else []):
        if t.kind == "test":
            for e, truth in X.atomic_facts(t.exprs[0], lab):
                ufacts.append((unparse(e), truth))
                if isinstance(e, ast.Name) and e.id in lc_env and truth:
                    # a boolean computed once at decoration time: what it stands for
                    facts += [(unparse(e2), tr2) for e2, tr2 in X.atomic_facts(lc_env[e.id], "true")]
    names_txt = unparse(names_e)
    if (kw, False) not in ufacts:
        missing.append("a call without keyword arguments")
    if ("len(%s) == len(%s)" % (va, names_txt), True) not in ufacts and ("len(%s) == len(%s)" % (names_txt, va), True) not in ufacts:
        missing.append("as many positional arguments as parameters")
    if isinstance(names_e, ast.Name) and ("%s is None" % names_e.id, False) not in ufacts and ("%s is not None" % names_e.id, True) not in ufacts and len(defs) > 1:
        missing.append("the fast path being enabled for this function")
    if not missing:
        return True
    return ("the positional fast path `%s` stands in for getcallargs without establishing %s: for such a function / call the two differ (e.g. a function with **kwargs called "
            "positionally: Python binds that parameter to {}, the fast path leaves it out of the start message and include_args=[that name] raises KeyError in the wrapper)"
            % (unparse(v)[:50], ", ".join(missing)))


def rule_args(chk):
    ctx = chk.ctx
    lc, w = _lw(chk)
    cfg = ctx.cfg(w)
    fparam = lc.params[0]
    va, kw = w.node.args.vararg.arg, w.node.args.kwarg.arg
    gcs = []
    for n in cfg.live:
        for c, m in calls_in_node(n):
            if any(t.kind == "ext" and t.ref == "inspect.getcallargs" for t in ctx.cg.typer.resolve_call(w, c)):
                gcs.append((n, c))
    problems = []
    cav = None
    if not gcs:
        # another way of binding: inspect.signature(...).bind(*args, **kwargs)
        sigs = [x for x in ast.walk(lc.node) if isinstance(x, ast.Call) and unparse(x.func).split(".")[-1] in ("signature", "from_callable")
                and x.args and isinstance(x.args[0], ast.Name) and x.args[0].id == fparam]
        binds = [x for x in ast.walk(w.node) if isinstance(x, ast.Call) and isinstance(x.func, ast.Attribute) and x.func.attr in ("bind", "bind_partial")]
        follows = [x for x in sigs if not any(k.arg == "follow_wrapped" and isinstance(k.value, ast.Constant) and k.value.value is False for k in x.keywords)]
        if binds and follows:
            chk.bad("C18.args", "log_call.logging_wrapper:start-fields-are-the-bound-arguments", chk.where(w, binds[0].lineno),
                    "arguments are bound with %s(...).bind(...): inspect.signature follows __wrapped__, so when log_call decorates a function that is itself a functools.wraps-style "
                    "wrapper with a different argument list, the call is bound against the inner function's parameters -- wrong names in the start message, or TypeError for a valid call "
                    "(inspect.getcallargs binds against the decorated callable itself)" % unparse(follows[0].func))
            return
        raise AnalysisError("log_call.logging_wrapper: arguments are not bound with inspect.getcallargs (binding not modelled)")
    if len(gcs) != 1:
        problems.append("arguments are bound with %d inspect.getcallargs calls" % len(gcs))
    else:
        n, c = gcs[0]
        okc = len(c.args) == 2 and isinstance(c.args[0], ast.Name) and c.args[0].id == fparam and isinstance(c.args[1], ast.Starred) and unparse(c.args[1].value) == va \
            and len(c.keywords) == 1 and c.keywords[0].arg is None and unparse(c.keywords[0].value) == kw
        if not okc:
            problems.append("getcallargs is called as %s" % unparse(c))
        cav = n.ast.targets[0].id if isinstance(n.ast, ast.Assign) and isinstance(n.ast.targets[0], ast.Name) else None
    if cav:
        # allowed modifications: pop("self") under `"self" in callargs`; include_args restriction
        for x in iter_own_nodes(w.node):
            if isinstance(x, ast.Call) and isinstance(x.func, ast.Attribute) and isinstance(x.func.value, ast.Name) and x.func.value.id == cav and x.func.attr in ("pop", "update", "clear", "setdefault", "popitem"):
                if not (x.func.attr == "pop" and x.args and isinstance(x.args[0], ast.Constant) and x.args[0].value == "self"):
                    problems.append("the bound arguments are altered: %s" % unparse(x))
            if isinstance(x, ast.Assign) and any(isinstance(t, ast.Subscript) and isinstance(t.value, ast.Name) and t.value.id == cav for t in x.targets):
                problems.append("the bound arguments are altered: %s" % unparse(x)[:50])
            if isinstance(x, ast.Assign) and any(isinstance(t, ast.Name) and t.id == cav for t in x.targets) and x.value is not gcs[0][1]:
                v = x.value
                inc = lc.params[2] if len(lc.params) > 2 else "include_args"
                okf = isinstance(v, ast.DictComp) and len(v.generators) == 1 and isinstance(v.generators[0].iter, ast.Name) and v.generators[0].iter.id == inc \
                    and not v.generators[0].ifs and isinstance(v.key, ast.Name) and unparse(v.value) == "%s[%s]" % (cav, v.key.id)
                nn = [y for y in cfg.live if y.ast is x]
                guarded = nn and any(t.kind == "test" and inc in unparse(t.exprs[0]) and "None" in unparse(t.exprs[0]) and lab == "true" for t, lab in cfg.guards_of(nn[0]))
                if okf and not guarded:
                    problems.append("the logged arguments are recomputed as %s, not exactly when include_args is given (is not None)" % unparse(v)[:60])
                elif not okf:
                    fast = _positional_fast_path(chk, lc, w, cfg, x, v, va, kw)
                    if fast is True:
                        continue
                    if fast:
                        problems.append(fast)
                        continue
                    raise AnalysisError("log_call.logging_wrapper: the logged arguments are also computed as `%s` (a second way of binding that is not modelled)" % unparse(v)[:60])
        # they are the start fields
        st = ctx.func("_action", "Action._start")
        scs = [c for n in cfg.live for c, m in calls_in_node(n) if st in ctx.targets(w, c)]
        inc_ = lc.params[2] if len(lc.params) > 2 else "include_args"
        is_inc = lambda x: isinstance(x, ast.Name) and x.id == inc_

        def derived(nm):
            """nm is a second name for the (possibly restricted) bound arguments: every binding of it is `<cav>` where include_args
            is None, or `{k: <cav>[k] for k in include_args}` where it is not"""
            asg = [y for y in cfg.live if isinstance(y.ast, ast.Assign) and any(isinstance(t, ast.Name) and t.id == nm for t in y.ast.targets)]
            if not asg:
                return False
            for y in asg:
                v = y.ast.value
                br = {X.none_branch(t.exprs[0], lab, is_inc) for t, lab in cfg.guards_of(y) if t.kind == "test"} - {None}
                if isinstance(v, ast.Name) and v.id == cav and br == {"none"}:
                    continue
                if isinstance(v, ast.DictComp) and len(v.generators) == 1 and is_inc(v.generators[0].iter) and not v.generators[0].ifs and isinstance(v.key, ast.Name) \
                        and unparse(v.value) == "%s[%s]" % (cav, v.key.id) and br == {"notnone"}:
                    continue
                return False
            return True
        if not scs or not all(len(c.args) == 1 and isinstance(c.args[0], ast.Name) and (c.args[0].id == cav or derived(c.args[0].id)) for c in scs):
            sa = ctx.func("_action", "start_action")
            alt = [c for n in cfg.live for c, m in calls_in_node(n) if sa in ctx.targets(w, c)]
            if not alt:
                problems.append("the bound arguments are not the start fields of the logged action")
    chk.req(not problems, "C18.args", "log_call.logging_wrapper:start-fields-are-the-bound-arguments", chk.where(w),
            good="start fields = getcallargs(f, *args, **kwargs) minus self, restricted to include_args", fail="; ".join(problems))
    # the whitelist used by the wrapper is the one given to log_call
    inc_name = "include_args"
    for fn_ in (lc, w):
        fcfg = ctx.cfg(fn_)
        asg = [n for n in fcfg.live if isinstance(n.ast, ast.Assign) and any(isinstance(t_, ast.Name) and t_.id == inc_name for t_ in n.ast.targets)]
        for n in asg:
            v = n.ast.value
            kinds = set()
            if isinstance(v, ast.BoolOp) or (isinstance(v, ast.IfExp) and isinstance(X.strip_not(v.test, "true")[0], ast.Name)):
                kinds.add("truthy")
            for t, lab in fcfg.guards_of(n):
                if t.kind != "test":
                    continue
                e, _l = X.strip_not(t.exprs[0], lab)
                if isinstance(e, ast.Name) and e.id == inc_name:
                    kinds.add("truthy")
                elif X.compare_of(e, lambda x: isinstance(x, ast.Name) and x.id == inc_name, lambda x: X.is_const(x, None)) in (ast.Is, ast.IsNot, ast.Eq, ast.NotEq):
                    kinds.add("none-test")
                elif inc_name in unparse(e):
                    kinds.add("other")
            if "truthy" in kinds:
                chk.bad("C18.args", "log_call:include_args-used-as-given", chk.where(fn_, n.lineno),
                        "include_args is rebound under a truthiness test (`%s`): an empty whitelist ('log no arguments') becomes 'no whitelist' and every argument is logged"
                        % n.text()[:70])
            elif "other" in kinds or (not kinds and not (isinstance(v, ast.Call) and isinstance(v.func, ast.Name) and v.func.id in ("tuple", "list", "frozenset", "set"))):
                raise AnalysisError("log_call rebinds include_args in a way the analyser does not model: %s" % n.text()[:60])
    # decoration-time validation of include_args
    dcfg = ctx.cfg(lc)
    raises = [n for n in dcfg.live if n.kind == "raise_stmt" and "ValueError" in unparse(n.ast)]
    okd = bool(raises) and any(any(t.kind == "test" and "include_args" in unparse(t.exprs[0]) for t, lab in dcfg.guards_of(r)) for r in raises)
    chk.req(okd, "C18.args", "log_call:unknown-include_args-rejected-at-decoration", chk.where(lc), good="ValueError raised at decoration time", fail="unknown include_args are not rejected at decoration time")
    return cav


def rule_collide(chk, cav):
    ctx = chk.ctx
    lc, w = _lw(chk)
    bad = []
    n_splats = 0
    for x in iter_own_nodes(w.node):
        if isinstance(x, ast.Call):
            for k in x.keywords:
                if k.arg is None and isinstance(k.value, ast.Name) and k.value.id == cav:
                    n_splats += 1
                    for g in ctx.targets(w, x):
                        named = [a.arg for a in g.node.args.posonlyargs + g.node.args.args + g.node.args.kwonlyargs if a.arg not in ("self", "cls")]
                        if named:
                            bad.append("%s(**%s) binds user parameter names to %s's own parameters %s" % (unparse(x.func), cav, g.fq, named))
    chk.req(not bad, "C18.collide", "log_call.logging_wrapper:no-user-keyed-splat-into-named-parameters", chk.where(w),
            good="the bound-argument mapping is passed as a dictionary (%d splats into callees with named parameters)" % len(bad),
            fail="; ".join(bad) + ": a function with a parameter called logger/action_type/... behaves differently when decorated")


def rule_result(chk, resvars):
    ctx = chk.ctx
    lc, w = _lw(chk)
    cfg = ctx.cfg(w)
    asf = ctx.func("_action", "Action.addSuccessFields")
    inc = "include_result"
    calls = [(n, c) for n in cfg.live for c, m in calls_in_node(n) if asf in ctx.targets(w, c)]
    problems = []
    if not calls:
        problems.append("the result is never added to the success fields")
    for n, c in calls:
        k = {x.arg: x.value for x in c.keywords}
        if not (set(k) == {"result"} and isinstance(k["result"], ast.Name) and k["result"].id in resvars):
            problems.append("success fields are %s, not result=<the result>" % unparse(c))
        g = [(t, lab) for t, lab in cfg.guards_of(n) if t.kind == "test"]
        def on_true(t, lab):
            e, lab2 = X.strip_not(t.exprs[0], lab)
            return isinstance(e, ast.Name) and e.id == inc and lab2 == "true"
        if not any(on_true(t, lab) for t, lab in g) or len(g) != 1:
            problems.append("the result is not logged exactly when include_result is true (guards: %s)" % [unparse(t.exprs[0]) for t, lab in g])
        fnodes = [nn for nn, cc, m in [(a, b, "x") for a in cfg.live for b, _m in calls_in_node(a) if isinstance(b.func, ast.Name) and b.func.id == lc.params[0]]]
        if fnodes and not cfg.precedes(fnodes, [n])[0]:
            problems.append("the result is logged before the function ran")
    if stores_to_name(lc, inc) or stores_to_name(w, inc):
        problems.append("include_result is rebound")
    chk.req(not problems, "C18.result", "log_call.logging_wrapper:result-logged-iff-include_result", chk.where(w),
            good="add_success_fields(result=result) under `if include_result`", fail="; ".join(problems))


def rule_meta(chk):
    ctx = chk.ctx
    lc, w = _lw(chk)
    fparam = lc.params[0]
    okw = False
    for d in w.decorators:
        if isinstance(d, ast.Call) and len(d.args) == 1 and isinstance(d.args[0], ast.Name) and d.args[0].id == fparam:
            r = ctx.p.resolve_expr_static(w.module, lc, d.func)
            okw = bool(r) and r[0] == "ext" and r[1] == "boltons.funcutils.wraps"
    chk.req(okw, "C18.meta", "log_call.logging_wrapper:boltons-wraps", chk.where(w), good="@wraps(wrapped_function) from boltons.funcutils (keeps the signature)",
            fail="the wrapper is not decorated with boltons.funcutils.wraps(wrapped_function)")
    cfg = ctx.cfg(lc)
    okt = False
    for n in cfg.live:
        if isinstance(n.ast, ast.Assign) and isinstance(n.ast.targets[0], ast.Name) and n.ast.targets[0].id == "action_type":
            txt = unparse(n.ast.value)
            g = [(unparse(t.exprs[0]), lab) for t, lab in cfg.guards_of(n) if t.kind == "test"]
            okt = "%s.__module__" % fparam in txt and "%s.__qualname__" % fparam in txt and ("action_type is None", "true") in g
    chk.req(okt, "C18.meta", "log_call:default-action-type", chk.where(lc), good="'<module>.<qualname>' when no action_type is given",
            fail="the default action type is not built from __module__ and __qualname__ of the wrapped function under `action_type is None`")
    okp = False
    for r in common.returns_of(cfg):
        v = r.ast.value
        if isinstance(v, ast.Call) and unparse(v.func) == "partial":
            k = {x.arg: x.value for x in v.keywords}
            okp = len(v.args) == 1 and unparse(v.args[0]) == "log_call" and all(isinstance(k.get(a), ast.Name) and k[a].id == a for a in ("action_type", "include_args", "include_result")) \
                and any(("%s is None" % fparam, "true") == (unparse(t.exprs[0]), lab) for t, lab in cfg.guards_of(r) if t.kind == "test")
    chk.req(okp, "C18.meta", "log_call:factory-arm-passes-options-through", chk.where(lc), good="partial(log_call, action_type=..., include_args=..., include_result=...)",
            fail="the decorator-factory arm does not pass its three options through unchanged")
    rets = [r for r in common.returns_of(cfg) if isinstance(r.ast.value, ast.Name) and r.ast.value.id == w.name]
    chk.req(bool(rets), "C18.meta", "log_call:returns-the-wrapper", chk.where(lc), good="returns logging_wrapper", fail="log_call does not return its wrapper")


def run(chk):
    resvars = rule_transparent(chk)
    cav = rule_args(chk)
    rule_collide(chk, cav)
    rule_result(chk, resvars)
    rule_meta(chk)
    from . import c03
    c03.rule_propagate(chk)
    from . import c02
    c02.rule_fields(chk)    # whatever the parameters are called, they cannot displace the action's own identity/placement keys
    c03.rule_truthful(chk)  # the logged action's end is 'succeeded' (with the result) exactly when the call returned
    from . import c07
    c07.rule_contain(chk, only=("eliot.log_call", "eliot.Action.finish", "eliot.Action.__exit__"))  # a logging failure while finishing would replace the function's own exception
