"""C03 -- each action logs exactly one start and one truthful end; errors pass through."""

import ast

from ..index import unparse, iter_own_nodes, AnalysisError
from ..cfg import calls_in_node, INF, handler_catches_all_exceptions
from ..framework import stores_to_name, assigned_values
from ..contain import protecting_handler
from . import common
from .. import exprs as X

EXPLANATION = (
    "Path rules on Action and the error-extraction helpers: every creator of a started action calls _start "
    "exactly once on every path and nothing else calls it; finish() writes only under the finished-flag "
    "being false, sets the flag before anything that can raise or re-enter, and writes exactly once; the "
    "succeeded status is control-dependent on a test that is true only for `exception is None` (any "
    "narrowing -- truthiness, isinstance(Exception) -- is a violation); __exit__ passes its exception "
    "parameter unchanged to finish on every path and returns a falsy constant; run()/context() contain no "
    "except clause; the failure fields are built from the exception's class module/name, safeunicode and "
    "the extractor found by walking the MRO in order, nearest class first; safeunicode/saferepr are total; "
    "reporting a failed extractor cannot re-enter extraction (C07.cycles)."
    '  The extractors eliot itself registers may put only JSON-encodable values into the failed end message (errno / strerror / constants / str(); filename, args, __cause__ are positively unsafe).'
)
RULE = ("obligation = rule instance bound to a method / branch / call site of Action, ErrorExtraction or "
        "_util; non-trivial = CFG paths examined")
ASSUMPTIONS = [
    "the text produced by str(exception) and the values returned by extractors are not decided",
    "Python semantics of __exit__ returning a falsy value and of try/finally (the same exception object continues)",
]


ALLOWED_CREATORS = {"_action:Action.continue_task", "_action:start_action", "_action:startTask", "_action:log_call.logging_wrapper"}


def _start_wrappers(ctx, start):
    """private helper functions that do nothing but log the start message of the action handed to them exactly once on every
    normal path (`def _started(action, fields): action._start(fields); return action`) -- found as a fixed point"""
    wrappers = set()
    changed = True
    prod = set(ctx.p.all_funcs())
    while changed:
        changed = False
        for g in prod:
            if g in wrappers or g is start or g.fq in ALLOWED_CREATORS or not g.name.startswith("_") or g.name.startswith("__") or g.module is not start.module:
                continue
            ev = []
            for h in [start] + sorted(wrappers, key=lambda x: x.fq):
                ev += ctx.calls_to(g, h)
            if not ev:
                continue
            cfg = ctx.cfg(g)
            rng = cfg.count_range(cfg.entry, [cfg.exit], lambda n: sum(1 for (nn, c, m) in ev if nn is n), avoid_edges=common.quiet_exc_edges(ctx, g))
            # the action started is one of the helper's own parameters (it did not create or fetch it itself)
            on_param = all(isinstance(c.func, ast.Attribute) and isinstance(c.func.value, ast.Name) and c.func.value.id in g.params or (c.args and isinstance(c.args[0], ast.Name) and c.args[0].id in g.params)
                           for _n, c, _m in ev)
            if rng == (1, 1) and on_param:
                wrappers.add(g)
                changed = True
    return wrappers


def _creators(chk):
    ctx = chk.ctx
    start = ctx.func("_action", "Action._start")
    wrappers = _start_wrappers(ctx, start)
    out = {}
    prod = set(ctx.p.all_funcs())
    for h in [start] + sorted(wrappers, key=lambda x: x.fq):
        for s in ctx.cg.callers_of(h):
            if s.func in prod and s.func not in wrappers:
                out.setdefault(s.func, []).append(s)
    chk.notes.append("C03.start: start-message wrappers recognised: %s" % sorted(w.fq for w in wrappers))
    return start, out, wrappers


def rule_start(chk):
    ctx = chk.ctx
    start, creators, wrappers = _creators(chk)
    chk.instances("C03.start:_start callers", len(creators), 4)
    stask = ctx.func("_action", "startTask")
    sact = ctx.func("_action", "start_action")
    allowed = ALLOWED_CREATORS
    for f in sorted(creators, key=lambda x: x.fq):
        chk.req(f.fq in allowed, "C03.start", "%s:may-call-_start" % f.fq, chk.where(f),
                good="action creator", fail="%s logs a start message for an action it did not create" % f.fq)
    init = ctx.func("_action", "Action.__init__")
    from . import c02
    impls = c02.write_impls(chk)
    reach = set()
    todo = [init]
    while todo:
        g = todo.pop()
        for s in ctx.cg.sites.get(g, []):
            for h in s.repo_targets():
                if h not in reach:
                    reach.add(h)
                    todo.append(h)
    chk.req(not (set(impls) & reach), "C03.start", "Action.__init__:emits-nothing", chk.where(init),
            good="constructing an Action writes no message", fail="Action.__init__ can reach an ILogger.write")
    starters = [start, stask, sact] + sorted(wrappers, key=lambda x: x.fq)
    for f in [ctx.func("_action", "Action.continue_task"), stask, sact, ctx.func("_action", "log_call.logging_wrapper")]:
        cfg = ctx.cfg(f)
        ev = []
        for g in starters:
            if g is f:
                continue
            ev += ctx.calls_to(f, g)
        quiet = common.quiet_exc_edges(ctx, f)

        def w(n):
            return sum(1 for (nn, c, m) in ev if nn is n)
        # up to the first return / the point where the action is handed to the body
        dsts = [cfg.exit]
        if f.qualname == "log_call.logging_wrapper":
            dsts = [n for n in cfg.live if n.kind == "with_enter"]
        if f.qualname == "log_call.logging_wrapper" and not dsts:
            raise AnalysisError("log_call.logging_wrapper no longer runs the wrapped function inside `with <action>:` (where the start message must have been written is not modelled)")
        rng = cfg.count_range(cfg.entry, dsts, w, avoid_edges=quiet)
        chk.req(rng == (1, 1) and all(m == "once" for _, _, m in ev), "C03.start", "%s:one-start" % f.fq, chk.where(f),
                good="exactly one start on every path", fail="start messages per created action range %s" % (rng,), sites=len(cfg.live))


def _finish(chk):
    ctx = chk.ctx
    f = ctx.func("_action", "Action.finish")
    return f, ctx.cfg(f)


def _flag_tests(cfg, attr):
    """[(test node, label under which the flag is FALSE)]"""
    out = []
    for t in cfg.live:
        if t.kind != "test":
            continue
        e = t.exprs[0]
        if common.is_self_attr(e, attr):
            out.append((t, "false"))
        elif isinstance(e, ast.UnaryOp) and isinstance(e.op, ast.Not) and common.is_self_attr(e.operand, attr):
            out.append((t, "true"))
    return out


def rule_once(chk):
    ctx = chk.ctx
    f, cfg = _finish(chk)
    from . import c02
    _c, wcalls = c02._write_call(chk, f)
    chk.need(wcalls, "finish no longer writes")
    wnodes = [n for n, c, m in wcalls]
    tests = _flag_tests(cfg, "_finished")
    stores = [n for n in cfg.live if isinstance(n.ast, ast.Assign) and any(common.is_self_attr(t, "_finished") for t in n.ast.targets)]
    true_stores = [n for n in stores if isinstance(n.ast.value, ast.Constant) and n.ast.value.value is True]
    problems = []
    if not tests:
        problems.append("finish does not test the finished flag")
    if not true_stores or len(true_stores) != len(stores):
        problems.append("finish does not set the finished flag to True (only)")
    if not problems:
        for w in wnodes:
            if not any(cfg.edge_dominates(t, lab, w) for t, lab in tests):
                problems.append("the end message can be written without the finished flag having been tested false")
        ok, wit = cfg.precedes(true_stores, wnodes)
        if not ok:
            problems.append("a path writes the end message before marking the action finished: %s" % cfg.fmt_path(wit))
        # nothing that can raise / re-enter between the test and the store
        for t, lab in tests:
            starts = [s for s, l in t.succ if l == lab]
            region = cfg.reach(starts, avoid=set(true_stores))
            for n in region:
                if calls_in_node(n) or n.kind in ("raise_stmt",):
                    problems.append("`%s` runs between testing and setting the finished flag (re-entrant finish would write twice)" % n.text()[:50])
                    break
    quiet = common.quiet_exc_edges(ctx, f)

    def w_(n):
        return sum(1 for x in wnodes if x is n)
    if true_stores:
        rng = cfg.count_range(true_stores[0], [cfg.exit, cfg.raise_exit], w_, avoid_edges=quiet)
        if rng != (1, 1):
            problems.append("end messages written per first finish() range %s" % (rng,))
    chk.req(not problems, "C03.once", "Action.finish:exactly-one-end", chk.where(f),
            good="flag tested false -> flag set -> exactly one write, on every path", fail="; ".join(problems), sites=len(cfg.live))
    # flag initialised False, no other writer
    cls = f.cls
    writers = []
    for m in set(cls.methods.values()):
        for n in iter_own_nodes(m.node):
            if isinstance(n, (ast.Assign, ast.AugAssign)):
                tg = n.targets if isinstance(n, ast.Assign) else [n.target]
                if any(common.is_self_attr(t, "_finished") for t in tg):
                    writers.append((m, n))
    init_ok = any(m.name == "__init__" and isinstance(n.value, ast.Constant) and n.value.value is False for m, n in writers)
    others = [(m, n) for m, n in writers if m.name not in ("__init__", "finish")]
    chk.req(init_ok and not others, "C03.once", "Action._finished:initialised-false-single-writer", chk.where(f),
            good="False in __init__, set only by finish", fail="finished flag %s" % ("also written by %s" % others[0][0].fq if others else "not initialised False"))


def _exc_none_polarity(e, pname):
    """For a test expression on parameter pname: ('none', +1) if true means `is None`,
    ('none', -1) if true means `is not None`; ('other', 0) for any other test that
    reads pname; None if the test does not read pname."""
    reads = any(isinstance(x, ast.Name) and x.id == pname for x in ast.walk(e))
    if not reads:
        return None
    if isinstance(e, ast.Compare) and len(e.ops) == 1 and isinstance(e.left, ast.Name) and e.left.id == pname \
            and isinstance(e.comparators[0], ast.Constant) and e.comparators[0].value is None:
        if isinstance(e.ops[0], (ast.Is, ast.Eq)):
            return ("none", 1)
        if isinstance(e.ops[0], (ast.IsNot, ast.NotEq)):
            return ("none", -1)
    if isinstance(e, ast.UnaryOp) and isinstance(e.op, ast.Not):
        r = _exc_none_polarity(e.operand, pname)
        if r and r[0] == "none":
            return ("none", -r[1])
    return ("other", 0)


def rule_truthful(chk):
    ctx = chk.ctx
    p = ctx.p
    f, cfg = _finish(chk)
    act = p.mod("_action")
    AS = p.fold_global(act, "ACTION_STATUS_FIELD")
    SUCC = p.fold_global(act, "SUCCEEDED_STATUS")
    FAIL = p.fold_global(act, "FAILED_STATUS")
    params = f.pos_params
    chk.need(len(params) >= 2, "finish has no exception parameter")
    pname = params[1]
    chk.req(not stores_to_name(f, pname), "C03.truthful", "Action.finish:exception-parameter-not-rebound", chk.where(f),
            good="parameter %s is never rebound" % pname, fail="finish rebinds its exception parameter")
    status_stores = []
    from . import c02
    _c0, wcalls0 = c02._write_call(chk, f)
    mvar = wcalls0[0][1].args[0].id if wcalls0 and wcalls0[0][1].args and isinstance(wcalls0[0][1].args[0], ast.Name) else None
    chk.need(mvar, "finish: the written message is not a local name")
    evs = list(common.dict_events(f, cfg, mvar))
    # fields merged in from another local dictionary (`fields.update(extra)`): its own construction counts as well
    for n, lay, _rebind in list(evs):
        for l in lay:
            if l[0] == "src" and isinstance(l[1], ast.Name) and l[1].id != mvar and l[1].id not in f.params:
                evs += list(common.dict_events(f, cfg, l[1].id))
    for n, lay, _rebind in evs:
        for l in lay:
            if l[0] == "key":
                ok, k = ctx.try_fold(f, l[1])
                if ok and k == AS:
                    okv, v = ctx.try_fold(f, l[2])
                    if not okv and isinstance(l[2], ast.Name) and l[2].id not in f.params:
                        # the status travels in a local: each `status = <constant>` is where it is decided
                        for d in cfg.live:
                            if isinstance(d.ast, ast.Assign) and d.kind != "test" and any(isinstance(t, ast.Name) and t.id == l[2].id for t in d.ast.targets):
                                okd, dv = ctx.try_fold(f, d.ast.value)
                                status_stores.append((d, dv if okd else None))
                        continue
                    status_stores.append((n, v if okv else None))
    chk.need(status_stores, "finish does not store an action status")
    for n, v in status_stores:
        guards = cfg.guards_of(n)
        verdicts = []
        for t, lab in guards:
            if t.kind != "test":
                continue
            r = _exc_none_polarity(t.exprs[0], pname)
            if r is None:
                continue
            if r[0] == "other":
                verdicts.append(("other", unparse(t.exprs[0])))
            else:
                isnone = (r[1] == 1) == (lab == "true")
                verdicts.append(("none" if isnone else "notnone", unparse(t.exprs[0])))
        kinds = {k for k, _ in verdicts}
        if v == SUCC:
            chk.req(kinds == {"none"}, "C03.truthful", "Action.finish:succeeded-iff-no-exception", chk.where(f, n.lineno),
                    good="succeeded status stored exactly under `%s is None`" % pname,
                    fail="succeeded status is stored under %s: an escaping exception (e.g. a BaseException or a falsy one) can be logged as success"
                         % (sorted(verdicts) or "no test of the exception"))
        elif v == FAIL:
            chk.req(kinds == {"notnone"}, "C03.truthful", "Action.finish:failed-iff-exception", chk.where(f, n.lineno),
                    good="failed status stored exactly under `%s is not None`" % pname,
                    fail="failed status is stored under %s" % (sorted(verdicts) or "no test of the exception"))
        else:
            chk.bad("C03.truthful", "Action.finish:status-constant", chk.where(f, n.lineno), "status stored is %r" % (v,))
    # every write is preceded by a status store
    from . import c02
    _c, wcalls = c02._write_call(chk, f)
    ok, wit = cfg.precedes([n for n, v in status_stores], [n for n, c, m in wcalls])
    chk.req(ok, "C03.truthful", "Action.finish:status-always-set", chk.where(f), good="a status store precedes the write on every path",
            fail="a path writes the end message without a status: %s" % (wit and cfg.fmt_path(wit)))


def rule_propagate(chk):
    ctx = chk.ctx
    ex = ctx.func("_action", "Action.__exit__")
    fin = ctx.func("_action", "Action.finish")
    cfg = ctx.cfg(ex)
    params = ex.pos_params
    chk.need(len(params) >= 4, "__exit__ signature changed")
    ename = params[2]
    fcalls = ctx.calls_to(ex, fin)
    chk.need(fcalls, "__exit__ no longer calls finish")
    problems = []
    if stores_to_name(ex, ename):
        problems.append("__exit__ rebinds its exception parameter")
    for n, c, m in fcalls:
        arg = c.args[0] if c.args else next((k.value for k in c.keywords if k.arg == "exception"), None)
        if not (isinstance(arg, ast.Name) and arg.id == ename):
            problems.append("finish is called with %s, not the exception given to __exit__" % (arg is not None and unparse(arg)))
        if m != "once":
            problems.append("finish call is conditional inside an expression")
    ok, wit = cfg.must_pass([cfg.entry], [cfg.exit], [n for n, c, m in fcalls])
    if not ok:
        problems.append("a path leaves __exit__ normally without finishing the action: %s" % cfg.fmt_path(wit))
    chk.req(not problems, "C03.truthful", "Action.__exit__:finishes-with-the-escaping-exception", chk.where(ex),
            good="finish(%s) on every normal path, parameter never rebound" % ename, fail="; ".join(problems), sites=len(cfg.live))
    # returns falsy, swallows nothing
    problems = []
    for r in common.returns_of(cfg):
        v = r.ast.value
        if v is not None and not (isinstance(v, ast.Constant) and not v.value):
            problems.append("__exit__ returns %s (a truthy value swallows the application's exception)" % unparse(v))
    for n in iter_own_nodes(ex.node):
        if isinstance(n, ast.Try) and n.handlers:
            problems.append("__exit__ contains an except clause")
    chk.req(not problems, "C03.propagate", "Action.__exit__:returns-falsy", chk.where(ex),
            good="every exit returns None/falsy; no handler", fail="; ".join(problems))
    for q in ("Action.run", "Action.context"):
        g = ctx.func("_action", q)
        hs = [n for n in iter_own_nodes(g.node) if isinstance(n, ast.Try) and n.handlers]
        chk.req(not hs, "C03.propagate", "%s:no-except-clause" % q, chk.where(g),
                good="user code runs under try/finally only", fail="%s catches exceptions of the application's code" % q)
    # run returns the function's result
    run = ctx.func("_action", "Action.run")
    rc = ctx.cfg(run)
    okret = True
    for r in common.returns_of(rc):
        v = X.inline(run, r.ast.value) if r.ast.value is not None else None  # `result = f(...)` ... `return result` is the same
        if not (isinstance(v, ast.Call) and isinstance(v.func, ast.Name) and v.func.id in run.params
                and any(isinstance(a, ast.Starred) for a in v.args)):
            okret = False
    chk.req(okret and common.returns_of(rc), "C03.propagate", "Action.run:returns-result", chk.where(run),
            good="returns f(*args, **kwargs)", fail="Action.run does not return the function's own result")


def rule_failfields(chk):
    ctx = chk.ctx
    p = ctx.p
    f, cfg = _finish(chk)
    msg = p.mod("_message")
    EX = p.fold_global(msg, "EXCEPTION_FIELD")
    RE = p.fold_global(msg, "REASON_FIELD")
    pname = f.pos_params[1]
    gf = ctx.func("_errors", "ErrorExtraction.get_fields_for_exception")
    su = ctx.func("_util", "safeunicode")
    from . import c02
    _c, wcalls = c02._write_call(chk, f)
    var = wcalls[0][1].args[0].id
    # how the message dict is built on each arm: an ordered list of layers, later layers overriding earlier ones
    def arm_of(n):
        pol, other = None, []
        for t, lab in cfg.guards_of(n):
            if t.kind == "test":
                r = _exc_none_polarity(t.exprs[0], pname)
                if r and r[0] == "none":
                    pol = "none" if (r[1] == 1) == (lab == "true") else "notnone"
                elif r is not None:
                    other.append(t)
                elif any(t2.kind == "test" and (_exc_none_polarity(t2.exprs[0], pname) or ("", 0))[0] == "none" for t2, _l in cfg.guards_of(t)):
                    other.append(t)  # a test nested inside the arm
        return pol, other
    events = common.dict_events(f, cfg, var)
    arms = {"none": [], "notnone": []}
    order = common.cfg_order(cfg)
    for n, lay, rebind in sorted(events, key=lambda e: order.get(e[0], 0)):
        pol, other = arm_of(n)
        if pol is None:
            continue  # common tail (timestamp, identification, level)
        if other:
            raise AnalysisError("Action.finish: the fields are built under a further condition at line %d (not modelled)" % n.lineno)
        if rebind:
            arms[pol] = []
        arms[pol] += [(n, l) for l in lay]
    env = X.single_assignments(f)
    def resolved(e):
        return X.inline(f, e, env)
    fail_layers = arms["notnone"]
    ext = [i for i, (n, l) in enumerate(fail_layers) if l[0] == "src" and isinstance(resolved(l[1]), ast.Call) and gf in ctx.targets(f, resolved(l[1]))]
    okf = len(ext) == 1 and not any(l[0] == "src" for i, (n, l) in enumerate(fail_layers) if i not in ext)
    if okf:
        c = resolved(fail_layers[ext[0]][1][1])
        okf = len(c.args) == 2 and isinstance(c.args[1], ast.Name) and c.args[1].id == pname
    chk.req(okf, "C03.failfields", "Action.finish:failure-fields-from-extraction", chk.where(f),
            good="failure fields = get_fields_for_exception(logger, %s) (a fresh dict)" % pname,
            fail="on the failure arm the fields are not the result of get_fields_for_exception(..., %s)" % pname)
    oks = len([1 for n, l in arms["none"] if l[0] == "src"]) == 1 and any(l[0] == "src" and common.is_self_attr(resolved(l[1]), "_successFields") for n, l in arms["none"])
    chk.req(oks, "C03.failfields", "Action.finish:success-fields", chk.where(f),
            good="success arm uses the success fields", fail="on the success arm the fields are not self._successFields")
    # exception / reason / status on the failure arm: the value computed by finish is the one that reaches the message
    AS = p.fold_global(p.mod("_action"), "ACTION_STATUS_FIELD")
    found = {EX: None, RE: None, AS: None}
    for i, (n, l) in enumerate(fail_layers):
        if l[0] == "key":
            ok, k = ctx.try_fold(f, l[1])
            if ok and k in found:
                found[k] = (i, n, l[2])
    if len(ext) == 1:
        over = [k for k, v in found.items() if v is not None and v[0] < ext[0]]
        chk.req(not over, "C03.failfields", "Action.finish:computed-fields-override-extracted", chk.where(f, fail_layers[ext[0]][0].lineno),
                good="the exception, reason and status computed by finish are stored after the extracted fields",
                fail="the extracted fields are laid over the computed %s: a registered extractor that returns such a key replaces the value finish computed" % sorted(over))
    n = found[EX][1] if found[EX] else None
    v = resolved(found[EX][2]) if found[EX] else None
    txt = unparse(v) if v is not None else ""
    txt = txt.replace("type(%s)" % pname, "%s.__class__" % pname)
    if v is not None and isinstance(v, ast.Call) and len(v.args) == 1 and unparse(v.args[0]) in ("%s.__class__" % pname, "type(%s)" % pname):
        # a helper that builds '<module>.<name>' from the class it is given
        for g in ctx.targets(f, v):
            if len(g.params) == 1:
                body = " ".join(unparse(s_) for s_ in g.node.body)
                if "%s.__module__" % g.params[0] in body and "%s.__name__" % g.params[0] in body:
                    txt = "%s.__class__.__module__ %s.__class__.__name__ (via %s)" % (pname, pname, g.fq)
    chk.req(n is not None and "%s.__class__.__module__" % pname in txt and "%s.__class__.__name__" % pname in txt,
            "C03.failfields", "Action.finish:exception-class-name", chk.where(f, n.lineno if n else None),
            good="exception = '<module>.<name>' of the exception's class", fail="exception field is %s" % (txt or "missing"))
    n = found[RE][1] if found[RE] else None
    v = resolved(found[RE][2]) if found[RE] else None
    chk.req(isinstance(v, ast.Call) and su in ctx.targets(f, v) and len(v.args) == 1 and isinstance(v.args[0], ast.Name) and v.args[0].id == pname,
            "C03.failfields", "Action.finish:reason-safeunicode", chk.where(f, n.lineno if n else None),
            good="reason = safeunicode(%s)" % pname, fail="reason field is %s" % (v is not None and unparse(v)))
    # success fields only on success; start fields do not reach finish
    st = ctx.func("_action", "Action._start")
    sparam = st.pos_params[1]
    leak = []
    for x in iter_own_nodes(st.node):
        if isinstance(x, ast.Assign) and any(common.is_self_attr(t) for t in x.targets) and sparam in {y.id for y in ast.walk(x.value) if isinstance(y, ast.Name)}:
            leak.append(x)
        if isinstance(x, ast.Call) and isinstance(x.func, ast.Attribute) and common.is_self_attr(x.func.value) and x.func.attr in ("update", "append", "extend") \
                and any(isinstance(a, ast.Name) and a.id == sparam for a in x.args):
            leak.append(x)
    chk.req(not leak, "C03.failfields", "Action._start:start-fields-not-retained", chk.where(st),
            good="start fields are not stored on the action", fail="_start stores its fields on the action (they would leak into the end message)")


SAFE_EXC_ATTRS = {"errno": "int or None", "strerror": "str or None", "winerror": "int or None", "characters_written": "int", "returncode": "int", "code": None}
UNSAFE_EXC_ATTRS = {"filename": "whatever object the failing call was given: str, but also bytes, an int file descriptor or an os.PathLike",
                    "filename2": "whatever object the failing call was given: str, but also bytes or an os.PathLike",
                    "args": "a tuple of arbitrary objects", "__cause__": "an exception object", "__context__": "an exception object", "__traceback__": "a traceback object",
                    "cmd": "str, bytes or a sequence of them", "output": "bytes or str", "stdout": "bytes or str", "stderr": "bytes or str", "object": "the object being encoded (bytes)",
                    "value": "an arbitrary object"}


def rule_builtin_extractors(chk, prefix="C03"):
    """The extractors eliot itself registers put only JSON-encodable values into the failed end message: a value the encoder
    rejects makes the file destination raise, so that end message is never written (the action stays 'started' in the log)."""
    ctx = chk.ctx
    m = ctx.p.mod("_errors")
    sites = []
    for st in m.tree.body:
        if isinstance(st, ast.Expr) and isinstance(st.value, ast.Call) and unparse(st.value.func).endswith("register_exception_extractor") and len(st.value.args) == 2:
            sites.append(st.value)
    chk.need(sites, "_errors: the built-in extractor registration was not found")
    for c in sites:
        fn = c.args[1]
        param, values = None, []
        if isinstance(fn, ast.Lambda):
            param = fn.args.args[0].arg if fn.args.args else None
            lay = common.dict_layers(fn.body)
            values = lay
        elif isinstance(fn, ast.Name) and fn.id in m.funcs and not m.funcs[fn.id].cls:
            g = m.funcs[fn.id]
            param = g.pos_params[0] if g.pos_params else None
            values = []
            rets = [r for r in iter_own_nodes(g.node) if isinstance(r, ast.Return)]
            for r in rets:
                if isinstance(r.value, ast.Name):
                    for n_, lay, _rb in common.dict_events(g, ctx.cfg(g), r.value.id):
                        values += lay
                else:
                    lay = common.dict_layers(r.value) if r.value is not None else None
                    if lay is None:
                        values = None
                        break
                    values += lay
        else:
            values = None
        if values is None or param is None:
            raise AnalysisError("_errors: built-in extractor %s is not a lambda / module function returning a dict construction (not modelled)" % unparse(fn)[:50])
        bad, unknown = [], []
        for l in values:
            if l[0] != "key":
                unknown.append(unparse(l[1])[:40])
                continue
            v = l[2]
            if isinstance(v, ast.Constant):
                continue
            if isinstance(v, ast.Call) and isinstance(v.func, ast.Name) and v.func.id in ("str", "repr", "int", "float", "bool", "safeunicode", "saferepr"):
                continue
            if isinstance(v, ast.Attribute) and isinstance(v.value, ast.Name) and v.value.id == param:
                if v.attr in UNSAFE_EXC_ATTRS:
                    bad.append((unparse(l[1]), v.attr))
                    continue
                if v.attr in SAFE_EXC_ATTRS:
                    continue
            unknown.append(unparse(v)[:40])
        cls = unparse(c.args[0])
        for key, attr in bad:
            chk.bad("%s.extract" % prefix, "built-in-extractor(%s):field %s is JSON-encodable" % (cls, key), "%s:%d" % (m.relpath, c.lineno),
                    "the extractor eliot registers for %s logs %s.%s, which is %s: a value the JSON encoder rejects makes the file destination raise, the failed end message is never written "
                    "and the action stays unfinished in the log" % (cls, param, attr, UNSAFE_EXC_ATTRS[attr]))
        if unknown and not bad:
            raise AnalysisError("_errors: built-in extractor for %s logs %s (JSON-encodability not modelled)" % (cls, unknown))
        if not bad:
            chk.ok("%s.extract" % prefix, "built-in-extractor(%s):fields-are-JSON-encodable" % cls, "%s:%d" % (m.relpath, c.lineno),
                   "values logged: %s" % [unparse(l[2]) for l in values if l[0] == "key"])


def _lookup_funcs(chk):
    """get_fields_for_exception plus the same-class helpers it (transitively) calls."""
    ctx = chk.ctx
    gf = ctx.func("_errors", "ErrorExtraction.get_fields_for_exception")
    out = [gf]
    todo = [gf]
    while todo:
        g = todo.pop()
        for s in ctx.cg.sites.get(g, []):
            for t in s.repo_targets():
                if t.cls is gf.cls and t not in out:
                    out.append(t)
                    todo.append(t)
    return gf, out


def rule_mro(chk):
    ctx = chk.ctx
    gf, lookup = _lookup_funcs(chk)
    ename = gf.pos_params[2]
    cls_exprs = ("%s.__class__" % ename, "type(%s)" % ename)
    found = []
    for g in lookup:
        cfg = ctx.cfg(g)
        for n in cfg.live:
            if n.kind == "for_next":
                it = n.ast.iter
                arg = None
                if isinstance(it, ast.Call) and any(t.kind == "ext" and t.ref == "inspect.getmro" for t in ctx.cg.typer.resolve_call(g, it)) and it.args:
                    arg = it.args[0]
                elif isinstance(it, ast.Attribute) and it.attr == "__mro__":
                    arg = it.value
                elif isinstance(it, ast.Call) and isinstance(it.func, ast.Attribute) and it.func.attr == "mro":
                    arg = it.func.value
                if arg is not None:
                    found.append((g, cfg, n, arg))
    if not found:
        for g in lookup:
            for n in ctx.cfg(g).live:
                if n.kind == "for_next" and any(s_ in unparse(n.ast.iter) for s_ in ("getmro", "__mro__", ".mro()")):
                    chk.bad("C03.mro", "get_fields_for_exception:walks-the-MRO-in-order", chk.where(g, n.lineno),
                            "extractor lookup iterates %s: not the exception class's MRO in its own order (the nearest registered class must win)" % unparse(n.ast.iter))
                    return
    chk.need(found, "extractor lookup: no loop over an MRO found in %s" % [g.fq for g in lookup])
    for g, cfg, head, arg in found:
        txt = unparse(arg)
        ok_arg = False
        if g is gf:
            ok_arg = txt in cls_exprs
        elif isinstance(arg, ast.Name) and arg.id in g.params and not stores_to_name(g, arg.id):
            # helper: every call site in the lookup functions passes the exception's class
            idx = g.pos_params.index(arg.id) - 1
            sites = [s for h in lookup for s in ctx.cg.sites[h] if g in s.repo_targets() and s.call is not None]
            ok_arg = bool(sites) and all(len(s.call.args) > idx and unparse(s.call.args[idx]) in cls_exprs for s in sites if s.func is gf) \
                and any(s.func is gf for s in sites)
        if not ok_arg and g is not gf:
            # helper that receives the exception itself and takes its class inside
            inner = None
            if isinstance(arg, ast.Attribute) and arg.attr == "__class__" and isinstance(arg.value, ast.Name):
                inner = arg.value.id
            elif isinstance(arg, ast.Call) and isinstance(arg.func, ast.Name) and arg.func.id == "type" and len(arg.args) == 1 and isinstance(arg.args[0], ast.Name):
                inner = arg.args[0].id
            if inner in g.pos_params and not stores_to_name(g, inner):
                idx = g.pos_params.index(inner) - (1 if g.cls is not None else 0)
                sites = [s for h in lookup for s in ctx.cg.sites[h] if g in s.repo_targets() and s.call is not None]
                ok_arg = any(s.func is gf for s in sites) and all(len(s.call.args) > idx and isinstance(s.call.args[idx], ast.Name) and s.call.args[idx].id == ename
                                                                   for s in sites if s.func is gf) and not stores_to_name(gf, ename)
        chk.req(ok_arg, "C03.mro", "get_fields_for_exception:walks-the-MRO-in-order", chk.where(g, head.lineno),
                good="iterates the MRO of %s in order" % txt, fail="extractor lookup iterates the MRO of %s, which is not the class of the exception that escaped (nearest class must win)" % txt)
        lv = head.ast.target.id if isinstance(head.ast.target, ast.Name) else None
        def _member(t):
            """label of the branch on which the loop's class IS registered, or None when t is not that membership test"""
            e, lab = X.strip_not(t.exprs[0], "true")
            if isinstance(e, ast.Compare) and len(e.ops) == 1 and isinstance(e.ops[0], (ast.In, ast.NotIn)) and isinstance(e.left, ast.Name) and e.left.id == lv \
                    and unparse(e.comparators[0]) == "self.registry":
                return lab if isinstance(e.ops[0], ast.In) else ("false" if lab == "true" else "true")
            return None
        tests = [t for t in cfg.live if t.kind == "test" and not isinstance(t.ast, (ast.For, ast.While)) and _member(t) is not None]
        found_edges = [(t, _member(t)) for t in tests]
        # `e = self.registry.get(<class>)` followed by a None test of e: the not-None branch is "a registered class was found"
        getvars = {x.ast.targets[0].id for x in cfg.live if isinstance(x.ast, ast.Assign) and len(x.ast.targets) == 1 and isinstance(x.ast.targets[0], ast.Name)
                   and isinstance(x.ast.value, ast.Call) and isinstance(x.ast.value.func, ast.Attribute) and x.ast.value.func.attr == "get"
                   and unparse(x.ast.value.func.value) == "self.registry" and len(x.ast.value.args) == 1
                   and isinstance(x.ast.value.args[0], ast.Name) and x.ast.value.args[0].id == lv}
        for t in cfg.live:
            if t.kind == "test" and not isinstance(t.ast, (ast.For, ast.While)):
                for lab in ("true", "false"):
                    if X.none_branch(t.exprs[0], lab, lambda e: isinstance(e, ast.Name) and e.id in getvars) == "notnone":
                        found_edges.append((t, lab))
                e_, lab_ = X.strip_not(t.exprs[0], "true")
                if isinstance(e_, ast.Name) and e_.id in getvars:
                    found_edges.append((t, lab_))  # `if e:` -- a registered extractor is a callable, hence true
        if not found_edges:
            chk.skip("C03.mro", "get_fields_for_exception:nearest-class-wins", chk.where(g, head.lineno), "lookup is not written as a membership test: loop-exit rule not evaluated")
            continue
        quiet = common.quiet_exc_edges(ctx, g)
        for t, flab in found_edges:
            starts = [s for s, l in t.succ if l == flab]
            r = cfg.reach(starts, avoid_edges=quiet)
            chk.req(head not in r, "C03.mro", "get_fields_for_exception:nearest-class-wins", chk.where(g, t.lineno),
                    good="the first registered class in MRO order decides (no path continues the loop)",
                    fail="after a registered class is found the loop can continue to a more distant base class")
        # the extractor selected is the one registered for that class
        regs = [x for x in iter_own_nodes(g.node) if isinstance(x, ast.Subscript) and unparse(x.value) == "self.registry" and isinstance(x.ctx, ast.Load)]
        gets = [x for x in iter_own_nodes(g.node) if isinstance(x, ast.Call) and isinstance(x.func, ast.Attribute) and x.func.attr == "get" and unparse(x.func.value) == "self.registry"]
        # names that hold the class found: the loop variable itself, or a local every binding of which is the loop variable
        # (set where the membership test succeeded) or None (nothing found)
        found_names = {lv}
        for nm_ in {y.id for y in iter_own_nodes(g.node) if isinstance(y, ast.Name) and isinstance(y.ctx, ast.Store)}:
            vals_ = assigned_values(g, nm_)
            if vals_ and all(v_ is not None and ((isinstance(v_, ast.Name) and v_.id == lv) or (isinstance(v_, ast.Constant) and v_.value is None)) for v_ in vals_) \
                    and any(isinstance(v_, ast.Name) for v_ in vals_):
                asg_ = [x for x in cfg.live if isinstance(x.ast, ast.Assign) and isinstance(x.ast.targets[0], ast.Name) and x.ast.targets[0].id == nm_ and isinstance(x.ast.value, ast.Name)]
                if all(any(cfg.edge_dominates(t, _member(t), a_) for t in tests) for a_ in asg_):
                    found_names.add(nm_)
        chk.req((bool(regs) or bool(gets)) and all(isinstance(x.slice, ast.Name) and x.slice.id in found_names for x in regs)
                and all(x.args and isinstance(x.args[0], ast.Name) and x.args[0].id in found_names for x in gets), "C03.mro",
                "get_fields_for_exception:extractor-of-that-class", chk.where(g, head.lineno), good="self.registry[%s]" % lv,
                fail="the extractor used is not the one registered for the class found")
    # no stale memoisation: state written on the lookup path must be fully invalidated on registration
    cache_attrs = set()
    for g in lookup:
        for x in ast.walk(g.node):
            if isinstance(x, ast.Attribute) and isinstance(x.ctx, (ast.Store, ast.Del)) and common.is_self_attr(x):
                cache_attrs.add(x.attr)
            if isinstance(x, ast.Subscript) and isinstance(x.ctx, (ast.Store, ast.Del)) and common.is_self_attr(x.value):
                cache_attrs.add(x.value.attr)
            if isinstance(x, ast.Call) and isinstance(x.func, ast.Attribute) and common.is_self_attr(x.func.value) and x.func.attr in ("setdefault", "update", "append", "add"):
                cache_attrs.add(x.func.value.attr)
    reg = gf.cls.find_method("register_exception_extractor")
    for ca in sorted(cache_attrs):
        full = False
        if reg is not None:
            for x in ast.walk(reg.node):
                if isinstance(x, ast.Call) and isinstance(x.func, ast.Attribute) and x.func.attr == "clear" and common.is_self_attr(x.func.value, ca):
                    full = True
                if isinstance(x, ast.Assign) and any(common.is_self_attr(t, ca) for t in x.targets) and isinstance(x.value, (ast.Dict, ast.Call)):
                    full = True
        chk.req(full, "C03.mro", "get_fields_for_exception:lookup-not-stale(%s)" % ca, chk.where(gf),
                good="lookup cache self.%s is cleared completely on every registration" % ca,
                fail="the extractor lookup is memoised in self.%s but a registration does not clear it completely: after an extractor is registered for a nearer class, exceptions of already-seen subclasses still get the old (or no) extractor" % ca)
    if not cache_attrs:
        chk.ok("C03.mro", "get_fields_for_exception:lookup-not-stale", chk.where(gf), "the lookup keeps no state between failures")
    from . import c07
    sites = [s for f_, s, w in c07.core_sites(chk) if f_ is gf]
    for s in sites:
        # whatever an extractor raises must not replace the application's exception or cost the action its end message:
        # the pinned code contains it with a bare except; `except Exception` lets BaseException subclasses (asyncio.CancelledError
        # from reading a cancelled future, GeneratorExit, ...) escape finish() after the action is already marked finished
        ph = protecting_handler(s.ctx)
        if ph is not None:
            h = ph[1]
            chk.req(h.type is None or unparse(h.type) == "BaseException", "C03.extract", "get_fields_for_exception:extractor-failure-fully-contained", s.where,
                    good="the extractor call sits in a catch-all handler", fail="the extractor call is protected by `except %s` only: an extractor raising a BaseException outside Exception escapes "
                    "finish() -- the action gets no end message and the caller sees the extractor's exception instead of the application's" % (unparse(h.type) if h.type is not None else ""))
    for s in sites:
        c = s.call
        chk.req(len(c.args) == 1 and isinstance(c.args[0], ast.Name) and c.args[0].id == ename, "C03.mro",
                "get_fields_for_exception:extractor-applied-to-the-exception", s.where,
                good="extractor(%s)" % ename, fail="extractor is applied to %s" % unparse(c))


def rule_safeunicode(chk):
    ctx = chk.ctx
    for q in ("safeunicode", "saferepr"):
        f = ctx.func("_util", q)
        U = ctx.contain.U.get(f, {})
        cfg = ctx.cfg(f)
        handlers = [n for n in cfg.live if n.kind == "handler"]
        const_ret = True
        for h in handlers:
            for n in cfg.reach([h]):
                if n.kind == "return" and not isinstance(n.ast.value, ast.Constant):
                    const_ret = False
        chk.req(not U and handlers and const_ret, "C03.safeunicode", "%s:total" % q, chk.where(f),
                good="conversion inside a catch-all whose handler returns a constant (U=empty)",
                fail="%s can raise: %s" % (q, [s.text[:30] for s, _ in U.values()] or "handler does not return a constant"))


def rule_norecursion(chk):
    from . import c07
    ctx = chk.ctx
    from ..contain import reentry_edges
    gf = ctx.func("_errors", "ErrorExtraction.get_fields_for_exception")
    edges = [(f, s, how) for f, s, how in reentry_edges(ctx.cg, ctx.contain, [gf])]
    if not edges:
        chk.ok("C03.norecursion", "get_fields_for_exception:failure-report-does-not-re-enter", chk.where(gf),
               "the extractor-failure report cannot reach get_fields_for_exception again")
    for f, s, how in edges:
        cut, trace = c07.const_guard_cut(chk, f, s)
        chk.req(cut, "C03.norecursion", "get_fields_for_exception:failure-report-does-not-re-enter", s.where,
                good="cut: " + "; ".join(trace[-2:]),
                fail="reporting a failed extractor runs the extractors again without a cut: a broken extractor replaces the application's exception by RecursionError and the end message is lost",
                sites=len(trace) + 1)


def run(chk):
    rule_start(chk)
    rule_once(chk)
    rule_truthful(chk)
    rule_propagate(chk)
    rule_failfields(chk)
    rule_mro(chk)
    rule_builtin_extractors(chk)
    rule_safeunicode(chk)
    rule_norecursion(chk)
    common.rule_instance_state(chk, "C03", [("_action", "Action"), ("_errors", "ErrorExtraction")])
    common.rule_defaults(chk, "C03", modules=("_action", "_errors", "_traceback", "_util"))
    # an action spanning a yield of a decorated generator gets its end message only if close()/throw()
    # are forwarded into the generator inside its own context
    from . import c15
    cvar = c15.rule_ctx(chk)
    if cvar:
        gv, resumers = c15.rule_inside(chk, cvar)
        if resumers and resumers[0] is not c15._wrapper(chk)[1]:
            c15.rule_transparent(chk, cvar, gv, resumers, only_close_forwarding=True)
    common.rule_forwarding(chk, "C03", keys=[("_action", "Action.finish")
, ("_action", "Action.run"), ("_traceback", "write_traceback"), ("_traceback", "_writeTracebackMessage"), ("_traceback", "writeFailure")])
