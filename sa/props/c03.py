"""C03 (stub while building)"""
EXPLANATION = "x"
RULE = "x"
def rule_propagate(chk):
    pass
def run(chk):
    pass
