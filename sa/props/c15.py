"""C15 -- decorated generators keep their own action context and stay transparent."""

import ast

from ..index import unparse, iter_own_nodes, AnalysisError
from ..cfg import calls_in_node, handler_catches_base
from ..framework import stores_to_name, assigned_values
from . import common
from .. import exprs as X

EXPLANATION = (
    "Who-may-resume and value-provenance rules on eliot_friendly_generator_function.wrapper: copy_context() "
    "is called exactly once per generator instance, inside the wrapper and outside the resumption loop, and "
    "its result is the only context used; the wrapped generator is resumed (send/throw) only inside a nested "
    "function every invocation of which is <that context>.run(<function>); the wrapper itself never sets or "
    "resets the action context; the value yielded outward is the value returned by send/throw, the value sent "
    "inward is what the outer yield evaluated to, an exception thrown in at the yield (catch-all incl. "
    "GeneratorExit) is re-thrown into the generator as exc_info(), no handler other than StopIteration "
    "surrounds the resumption, and on StopIteration the wrapper returns the exception's .value; metadata via "
    "functools.wraps; inline_callbacks = inlineCallbacks(eliot_friendly_generator_function(f))."
    "  The set/reset pairing rules of C04 are included: tokens are kept per use, so interleaved generators sharing one Action never reset each other's context."
)
RULE = "obligation = rule instance bound to a call site / handler / assignment of the wrapper; non-trivial = CFG paths examined"
ASSUMPTIONS = [
    "contextvars.Context.run runs the callable in that context and leaves the caller's context untouched",
    "Python generator protocol (send/throw/close, StopIteration.value)",
]


def _wrapper(chk):
    ctx = chk.ctx
    dec = ctx.func("_generators", "eliot_friendly_generator_function")
    ws = [g for g in dec.nested.values() if not g.is_lambda]
    chk.need(len(ws) == 1, "eliot_friendly_generator_function: wrapper not found")
    return dec, ws[0]


def rule_ctx(chk):
    ctx = chk.ctx
    dec, w = _wrapper(chk)
    cfg = ctx.cfg(w)

    def is_copy(f, c):
        return any(t.kind == "ext" and t.ref == "contextvars.copy_context" for t in ctx.cg.typer.resolve_call(f, c))
    outer = [n for n in iter_own_nodes(dec.node) if isinstance(n, ast.Call) and is_copy(dec, n)]
    copies = [(n, c) for n in cfg.live for c, m in calls_in_node(n) if is_copy(w, c)]
    nested_copies = [(g, n) for g in w.nested.values() for n in iter_own_nodes(g.node) if isinstance(n, ast.Call) and is_copy(g, n)]
    heads = [t for t in cfg.live if t.kind == "test" and isinstance(t.ast, ast.While)]
    chk.need(heads, "wrapper: resumption loop not found")
    in_loop = set()
    for h in heads:
        in_loop |= common.loop_region(cfg, h)
    rng = cfg.count_range(cfg.entry, heads, lambda x: sum(1 for n, c in copies if n is x))
    cvar = None
    if copies and isinstance(copies[0][0].ast, ast.Assign) and isinstance(copies[0][0].ast.targets[0], ast.Name):
        cvar = copies[0][0].ast.targets[0].id
    ok = not outer and not nested_copies and len(copies) == 1 and rng == (1, 1) and copies[0][0] not in in_loop and cvar and len(stores_to_name(w, cvar)) == 1
    # every variable the wrapper and its nested resumer share is the wrapper's own local (per generator instance)
    hoisted = []
    for g in [w] + [x for x in w.nested.values() if not x.is_lambda]:
        for n in iter_own_nodes(g.node):
            if isinstance(n, ast.Nonlocal) and g is w:
                hoisted += n.names
            if isinstance(n, ast.Global):
                hoisted += n.names
    for g in [x for x in w.nested.values() if not x.is_lambda]:
        for n in iter_own_nodes(g.node):
            if isinstance(n, ast.Name) and isinstance(n.ctx, ast.Load):
                r = ctx.p.resolve_name(g.module, g, n.id)
                if r[0] == "local" and r[1] is dec and n.id not in dec.params and n.id != w.name:
                    hoisted.append(n.id)
    chk.req(not hoisted, "C15.ctx", "wrapper:resumption-state-is-per-generator", chk.where(w),
            good="the pending value / mode / context are locals of the wrapper invocation",
            fail="%s live outside the wrapper invocation (decorator or module scope): interleaved generators of the same function overwrite each other's pending value or context" % sorted(set(hoisted)))
    chk.req(ok, "C15.ctx", "wrapper:one-private-context-per-generator", chk.where(w),
            good="%s = copy_context() once per wrapper call, before the loop" % cvar,
            fail="the generator's context is not copied exactly once per generator instance inside the wrapper and outside the resumption loop "
                 "(decoration time: %d, in wrapper: %d, in nested functions: %d, on paths to the loop: %s)" % (len(outer), len(copies), len(nested_copies), rng))
    return cvar


def rule_inside(chk, cvar):
    ctx = chk.ctx
    dec, w = _wrapper(chk)
    gens = []
    for n in iter_own_nodes(w.node):
        if isinstance(n, ast.Assign) and isinstance(n.value, ast.Call) and isinstance(n.value.func, ast.Name) and n.value.func.id in dec.params \
                and isinstance(n.targets[0], ast.Name):
            gens.append(n.targets[0].id)
    chk.need(len(gens) == 1, "wrapper: creation of the wrapped generator not found")
    gv = gens[0]
    RES = ("send", "throw", "close", "__next__")
    resumers = {}
    bad = []
    helper_run = []
    for f in [w] + [g for g in ctx.p.mod("_generators").funcs.values() if g.qualname.startswith(w.qualname + ".")]:
        for n in iter_own_nodes(f.node):
            if isinstance(n, ast.Call):
                if isinstance(n.func, ast.Attribute) and isinstance(n.func.value, ast.Name) and n.func.value.id == gv and n.func.attr in RES:
                    resumers.setdefault(f, []).append(n)
                if isinstance(n.func, ast.Name) and n.func.id == "next" and n.args and isinstance(n.args[0], ast.Name) and n.args[0].id == gv:
                    resumers.setdefault(f, []).append(n)
                if any(isinstance(a, ast.Name) and a.id == gv for a in n.args) and not (isinstance(n.func, ast.Name) and n.func.id == "next"):
                    # <cvar>.run(<repo function>, gen, ...): the generator is handed to a helper that runs inside the generator's own context
                    if isinstance(n.func, ast.Attribute) and n.func.attr == "run" and isinstance(n.func.value, ast.Name) and n.func.value.id == cvar and n.args \
                            and isinstance(n.args[0], ast.Name):
                        r0 = ctx.p.resolve_name(f.module, f, n.args[0].id)
                        if r0 and r0[0] == "func":
                            h = r0[1]
                            idx = [i for i, a in enumerate(n.args[1:]) if isinstance(a, ast.Name) and a.id == gv]
                            hp = [h.pos_params[i] for i in idx if i < len(h.pos_params)]
                            only_resumed = bool(hp) and all(
                                isinstance(par, ast.Attribute) and par.attr in RES
                                for x in iter_own_nodes(h.node) if isinstance(x, ast.Name) and x.id in hp
                                for par in [next((y for y in iter_own_nodes(h.node) if isinstance(y, ast.Attribute) and y.value is x), None)])
                            if only_resumed:
                                helper_run.append(h)
                                continue
                    bad.append("the generator object escapes to %s" % unparse(n)[:40])
            if isinstance(n, (ast.YieldFrom,)) and isinstance(n.value, ast.Name) and n.value.id == gv:
                bad.append("`yield from` resumes the generator outside its context")
            if isinstance(n, ast.For) and isinstance(n.iter, ast.Name) and n.iter.id == gv:
                bad.append("a for loop resumes the generator outside its context")
    # bound methods of the generator handed around as values: allowed only as arguments of <cvar>.run(...)
    method_values_ok = 0
    for f in [w] + [g for g in ctx.p.mod("_generators").funcs.values() if g.qualname.startswith(w.qualname + ".")]:
        parents = {}
        for n in iter_own_nodes(f.node):
            for ch in ast.iter_child_nodes(n):
                parents[id(ch)] = n
        for n in iter_own_nodes(f.node):
            if isinstance(n, ast.Attribute) and isinstance(n.value, ast.Name) and n.value.id == gv and n.attr in RES and isinstance(n.ctx, ast.Load):
                par = parents.get(id(n))
                if isinstance(par, ast.Call) and par.func is n:
                    continue  # a direct call, handled above
                in_run = isinstance(par, ast.Call) and isinstance(par.func, ast.Attribute) and par.func.attr == "run" and isinstance(par.func.value, ast.Name) \
                    and par.func.value.id == cvar and n in par.args
                if in_run:
                    method_values_ok += 1
                else:
                    bad.append("%s.%s is handed to %s, i.e. the generator is resumed outside %s.run(...): in the driver's context" % (gv, n.attr, unparse(par)[:40] if par is not None else "?", cvar))
    if helper_run and not resumers and not bad:
        chk.ok("C15.inside", "wrapper:generator-resumed-only-inside-its-own-context", chk.where(w),
               "the generator is resumed only by %s, which runs through %s.run(...)" % (", ".join(h.fq for h in helper_run), cvar), sites=len(helper_run))
        return gv, []
    if not resumers and (method_values_ok or bad):
        chk.req(not bad, "C15.inside", "wrapper:generator-resumed-only-inside-its-own-context", chk.where(w),
                good="%s.send/throw are passed only to %s.run(...)" % (gv, cvar), fail="; ".join(bad), sites=method_values_ok + len(bad))
        return gv, []
    chk.need(resumers, "wrapper: no resumption of the wrapped generator found")
    for f in resumers:
        if f is w:
            bad.append("the wrapper resumes the generator directly (%s), i.e. in the driver's context" % unparse(resumers[f][0])[:30])
            continue
        # every use of f inside the wrapper is <cvar>.run(f)
        uses = []
        parents = {}
        for n in iter_own_nodes(w.node):
            for ch in ast.iter_child_nodes(n):
                parents[id(ch)] = n
        for n in iter_own_nodes(w.node):
            if isinstance(n, ast.Name) and n.id == f.name and isinstance(n.ctx, ast.Load):
                par = parents.get(id(n))
                okuse = isinstance(par, ast.Call) and isinstance(par.func, ast.Attribute) and par.func.attr == "run" and isinstance(par.func.value, ast.Name) \
                    and par.func.value.id == cvar and par.args and par.args[0] is n and len(par.args) == 1
                uses.append(okuse)
        if not uses or not all(uses):
            bad.append("%s is not invoked exclusively as %s.run(%s)" % (f.name, cvar, f.name))
    # the wrapper does not touch the action context itself
    from . import c04
    var, _, _ = c04.context_var(chk)
    if var is not None:
        for f, n, k, c in c04.var_uses(chk, var):
            if f is w or f.qualname.startswith(w.qualname + "."):
                bad.append("the wrapper manipulates the action context variable itself")
    chk.req(not bad, "C15.inside", "wrapper:generator-resumed-only-inside-its-own-context", chk.where(w),
            good="%s.send/throw only in %s, invoked only via %s.run(...)" % (gv, ", ".join(f.name for f in resumers), cvar), fail="; ".join(bad),
            sites=sum(len(v) for v in resumers.values()))
    return gv, list(resumers)


def rule_transparent(chk, cvar, gv, resumers, only_close_forwarding=False):
    ctx = chk.ctx
    dec, w = _wrapper(chk)
    cfg = ctx.cfg(w)
    go = resumers[0]
    gcfg = ctx.cfg(go)
    problems = []
    # go returns what send/throw returned
    res_vars = set()
    sends = throws = 0
    for n in iter_own_nodes(go.node):
        if isinstance(n, ast.Assign) and isinstance(n.value, ast.Call) and isinstance(n.value.func, ast.Attribute) and isinstance(n.value.func.value, ast.Name) \
                and n.value.func.value.id == gv and isinstance(n.targets[0], ast.Name):
            res_vars.add(n.targets[0].id)
            if n.value.func.attr == "send":
                sends += 1
                a = n.value.args
                if not (len(a) == 1 and isinstance(a[0], ast.Name)):
                    problems.append("send() is not given the pending inward value")
                else:
                    invar = a[0].id
            if n.value.func.attr == "throw":
                throws += 1
                a = n.value.args
                if not (len(a) == 1 and ((isinstance(a[0], ast.Starred) and isinstance(a[0].value, ast.Name)) or isinstance(a[0], ast.Name))):
                    problems.append("throw() is not given the captured exception")
    for r in common.returns_of(gcfg):
        v = r.ast.value
        if isinstance(v, ast.Call) and isinstance(v.func, ast.Attribute) and isinstance(v.func.value, ast.Name) and v.func.value.id == gv:
            continue
        if not (isinstance(v, ast.Name) and v.id in res_vars and len(res_vars) == 1):
            problems.append("the resuming function returns %s, not the value the generator yielded" % (v is not None and unparse(v)))
    if not sends or not throws:
        problems.append("both send and throw must be forwarded (send: %d, throw: %d)" % (sends, throws))
    # mode typestate: after a normal resumption the next step must be a send, after a thrown-in exception a throw
    mode = None  # (variable, constant selecting send)
    for t in gcfg.live:
        if t.kind == "test":
            e = t.exprs[0]
            send_nodes = [n for n in gcfg.live for c, m in calls_in_node(n) if isinstance(c.func, ast.Attribute) and c.func.attr == "send"]
            if not send_nodes:
                continue
            on_true = all(gcfg.edge_dominates(t, "true", n) for n in send_nodes)
            on_false = all(gcfg.edge_dominates(t, "false", n) for n in send_nodes)
            if not (on_true or on_false):
                continue
            if isinstance(e, ast.Name):
                mode = (e.id, "truthy" if on_true else "falsy")
            elif isinstance(e, ast.UnaryOp) and isinstance(e.op, ast.Not) and isinstance(e.operand, ast.Name):
                mode = (e.operand.id, "falsy" if on_true else "truthy")
            elif isinstance(e, ast.Compare) and len(e.ops) == 1 and isinstance(e.left, ast.Name) and isinstance(e.comparators[0], ast.Constant) and e.comparators[0].value is None:
                isn = isinstance(e.ops[0], (ast.Is, ast.Eq))
                mode = (e.left.id, "none" if (isn == on_true) else "notnone")
    if mode is None:
        problems.append("the choice between send and throw is not a test of a mode variable")
    # wrapper: value_out = cvar.run(go); value_in = yield value_out
    runs = [(n, c) for n in cfg.live for c, m in calls_in_node(n) if isinstance(c.func, ast.Attribute) and c.func.attr == "run" and isinstance(c.func.value, ast.Name) and c.func.value.id == cvar]
    chk.need(runs, "wrapper: context.run call not found")
    outvar = runs[0][0].ast.targets[0].id if isinstance(runs[0][0].ast, ast.Assign) and isinstance(runs[0][0].ast.targets[0], ast.Name) else None
    yields = [n for n in cfg.live for e in n.exprs for x in ast.walk(e) if isinstance(x, ast.Yield)]
    if len(yields) != 1:
        problems.append("the wrapper must have exactly one outer yield (found %d)" % len(yields))
    else:
        yn = yields[0]
        y = [x for e in yn.exprs for x in ast.walk(e) if isinstance(x, ast.Yield)][0]
        if not (isinstance(y.value, ast.Name) and y.value.id == outvar):
            problems.append("the value yielded outward is %s, not what the generator yielded" % (y.value is not None and unparse(y.value)))
        if not (isinstance(yn.ast, ast.Assign) and yn.ast.value is y and isinstance(yn.ast.targets[0], ast.Name)):
            problems.append("the value sent by the driver is dropped")
        else:
            invar_w = yn.ast.targets[0].id
            # nonlocal value read in go is the same variable
            if sends and not any(isinstance(x, ast.Name) and x.id == invar_w for x in ast.walk(go.node)):
                problems.append("the value sent by the driver (%s) is not what send() passes inward" % invar_w)
        # catch-all around the yield capturing exc_info
        ctxm = ctx.cg.ctxmaps[w].get(id(y), [])
        tr = [e for e in ctxm if e[1] == "body"]
        okh = False
        if tr:
            t = tr[-1][0]
            for h in t.handlers:
                if handler_catches_base(h):
                    txt = " ".join(unparse(s) for s in h.body)
                    okh = not any(isinstance(s, (ast.Raise, ast.Return, ast.Break)) for s in ast.walk(ast.Module(body=h.body, type_ignores=[])))
        if not okh:
            problems.append("an exception thrown in at the yield (incl. GeneratorExit from close()) is not captured by a catch-all and forwarded to the generator")
        if mode is not None:
            mv, want = mode

            def selects_send(v):
                if not isinstance(v, ast.Constant):
                    return False
                return {"truthy": bool(v.value), "falsy": not v.value, "none": v.value is None, "notnone": v.value is not None}[want]
            resets = [n for n in cfg.live if isinstance(n.ast, ast.Assign) and any(isinstance(t_, ast.Name) and t_.id == mv for t_ in n.ast.targets) and selects_send(n.ast.value)]
            run_nodes = [n for n in cfg.live for c, m in calls_in_node(n) if isinstance(c.func, ast.Attribute) and c.func.attr == "run"]
            normal = [s_ for s_, l in yn.succ if l != "exc"]
            okm, wit = cfg.must_pass(normal, run_nodes, resets)
            if not okm:
                problems.append("after a normal resumption the mode variable %s is not reset to select send(): once an exception was thrown in, every later send()/next() re-throws it (%s)" % (mv, cfg.fmt_path(wit)))
    # handlers around the resumption: only StopIteration, returning .value
    n0, c0 = runs[0]
    ctxm = ctx.cg.ctxmaps[w].get(id(c0), [])
    trs = [e[0] for e in ctxm if e[1] == "body"]
    stop_ok = False
    for t in trs:
        for h in t.handlers:
            names = [unparse(h.type)] if h.type is not None and not isinstance(h.type, ast.Tuple) else ([unparse(e) for e in h.type.elts] if h.type is not None else ["<bare>"])
            if names == ["StopIteration"]:
                hn = [x for x in cfg.live if x.kind == "handler" and x.ast is h]
                if hn:
                    rets = [x for x in cfg.reach([hn[0]], avoid={hd for hd in cfg.live if hd.kind == "test" and isinstance(hd.ast, ast.While)}) if x.kind == "return"]
                    okv = rets and all(isinstance(r.ast.value, ast.Attribute) and r.ast.value.attr == "value" and isinstance(r.ast.value.value, ast.Name)
                                       and r.ast.value.value.id == h.name for r in rets)
                    reach_exit_without_ret = not cfg.must_pass([hn[0]], [cfg.exit], rets)[0]
                    stop_ok = bool(okv) and not reach_exit_without_ret
                    if not stop_ok:
                        problems.append("on StopIteration the wrapper does not return the exception's .value: the generator's return value is replaced by None")
            else:
                problems.append("a handler for %s surrounds the resumption: exceptions of the generator do not reach the driver unchanged" % names)
    if not trs:
        problems.append("no StopIteration handler around the resumption")
    if only_close_forwarding:
        # (used by C03) only what decides whether an action spanning a yield gets its end message
        problems = [p_ for p_ in problems if "catch-all" in p_ or "a handler for" in p_]
    chk.req(not problems, "C15.transparent", "wrapper:values-and-exceptions-cross-unchanged", chk.where(w),
            good="yielded/sent values, thrown exceptions, close() and the return value are forwarded unchanged", fail="; ".join(problems), sites=len(cfg.live))


def rule_meta(chk):
    ctx = chk.ctx
    dec, w = _wrapper(chk)
    decs = [unparse(d) for d in w.decorators]
    chk.req(any(d == "wraps(%s)" % dec.params[0] for d in decs), "C15.meta", "wrapper:functools.wraps(original)", chk.where(w),
            good="metadata copied with wraps(original)", fail="the wrapper is not decorated with wraps(%s): %s" % (dec.params[0], decs))
    rets = [n for n in iter_own_nodes(dec.node) if isinstance(n, ast.Return)]
    oparam_ = dec.params[0]
    early = [r for r in rets if isinstance(r.value, ast.Name) and r.value.id == oparam_]
    if early:
        # idempotence: `original` handed back unchanged when it already IS a wrapper made here.  That is only known for a marker whose value
        # is the wrapper itself (checked by identity); functools.wraps copies __dict__, so a plain flag is inherited by every other
        # decorator's wrapper around a friendly function -- which is then returned UNWRAPPED although its own body runs in the driver's context
        dcfg = ctx.cfg(dec)
        for r in early:
            rn = [n for n in dcfg.live if n.ast is r]
            facts = [(e_, truth) for t, lab in (dcfg.guards_of(rn[0]) if rn else []) if t.kind == "test" for e_, truth in X.atomic_facts(t.exprs[0], lab)]
            marker, ident = None, False
            for e_, truth in facts:
                g_ = e_.left if isinstance(e_, ast.Compare) and len(e_.ops) == 1 and isinstance(e_.ops[0], ast.Is) and truth else (e_ if truth else None)
                if isinstance(g_, ast.Call) and isinstance(g_.func, ast.Name) and g_.func.id == "getattr" and len(g_.args) >= 2 and isinstance(g_.args[0], ast.Name) and g_.args[0].id == oparam_ \
                        and isinstance(g_.args[1], ast.Constant):
                    marker = g_.args[1].value
                    ident = isinstance(e_, ast.Compare) and isinstance(e_.comparators[0], ast.Name) and e_.comparators[0].id == oparam_
            sets_ = [x for x in iter_own_nodes(dec.node) if isinstance(x, ast.Assign) and any(isinstance(t_, ast.Attribute) and isinstance(t_.value, ast.Name) and t_.value.id == w.name
                                                                                              and t_.attr == marker for t_ in x.targets)]
            self_marked = bool(sets_) and all(isinstance(x.value, ast.Name) and x.value.id == w.name for x in sets_)
            if marker is None:
                raise AnalysisError("eliot_friendly_generator_function returns its argument unchanged under a condition the rule does not model")
            chk.req(ident and self_marked, "C15.meta", "decorator:returns-its-argument-only-for-its-own-wrappers", chk.where(dec, r.lineno),
                    good="`%s` is returned unchanged only when its %s attribute IS that very function (set to the wrapper itself)" % (oparam_, marker),
                    fail="the decorator returns `%s` unchanged whenever its attribute %r is truthy: functools.wraps copies __dict__, so a third-party decorator's wrapper around a friendly "
                         "function inherits the flag and is handed back UNWRAPPED -- its own body (e.g. an action held across `yield from`) then runs in the driver's context" % (oparam_, marker))
        rets = [r for r in rets if r not in early]
    chk.req(len(rets) == 1 and isinstance(rets[0].value, ast.Name) and rets[0].value.id == w.name, "C15.meta", "decorator:returns-the-wrapper", chk.where(dec),
            good="returns wrapper", fail="the decorator does not return its wrapper")
    tw = ctx.func("twisted", "inline_callbacks")
    oparam = tw.params[0]
    ok = False
    rets = [n for n in iter_own_nodes(tw.node) if isinstance(n, ast.Return)]
    for r in rets:
        v = r.value
        if isinstance(v, ast.Call) and unparse(v.func) == "inlineCallbacks" and len(v.args) == 1:
            a = v.args[0]
            if isinstance(a, ast.Name):
                vals = assigned_values(tw, a.id)
                a = vals[0] if len(vals) == 1 else a
            ok = isinstance(a, ast.Call) and dec in ctx.targets(tw, a) and len(a.args) == 1 and isinstance(a.args[0], ast.Name) and a.args[0].id == oparam
    chk.req(ok, "C15.meta", "twisted.inline_callbacks:composition", chk.where(tw), good="inlineCallbacks(eliot_friendly_generator_function(original))",
            fail="inline_callbacks is not inlineCallbacks(eliot_friendly_generator_function(original))")


def run(chk):
    cvar = rule_ctx(chk)
    if cvar:
        gv, resumers = rule_inside(chk, cvar)
        if resumers and resumers[0] is not _wrapper(chk)[1]:
            rule_transparent(chk, cvar, gv, resumers)
        elif not resumers and not any(o.status == "VIOLATED" for o in chk.obs):
            raise AnalysisError("wrapper: resumption through method values -- value transparency rules not modelled for this shape")
    rule_meta(chk)
    # "plus the actions it has entered since": every scoping construct used inside a generator keeps its own token per use,
    # so interleaved generators sharing an Action never reset each other's context
    from . import c04
    c04.rule_pairs(chk)
