"""C09 -- parsing detects task completeness exactly and yields each task once (partial claim)."""

import ast

from ..index import unparse, iter_own_nodes, AnalysisError
from ..cfg import calls_in_node
from ..framework import stores_to_name, assigned_values
from .. import exprs as X
from . import common

EXPLANATION = (
    "PARTIAL.  Not decided: order-independence / confluence of Task.add over all permutations and subsets "
    "(an algebraic property of the insertion function over runtime message sets).  Decided, on the CFGs of "
    "eliot/parse.py: the statement that marks an action complete is control-dependent (dependency slice through "
    "flag variables and enclosing loops) on tests that read the node's start message, its end message, the "
    "child count compared with end position - 2, and membership of every child action in the completed set, "
    "the loop covering all children; after inserting a node the ancestors are re-evaluated up to the root; "
    "Parser.add returns a task as completed only under is_complete() and then discards it from the parser, "
    "otherwise stores it; parse_stream yields every completed task inside the loop and every incomplete task "
    "after the stream ends."
    "  Every ordering computed by the parser model (sorted/min/max/sort) is keyed by task level only (C09.total): a key that is None for a placeholder node raises for exactly the subsets the property quantifies over."
    '  Generation side: C02.exit-order (the context is reset before the end message is written) is part of this property, because a message logged under an action after its end is rejected by the parser.'
    '  C09.order: a Task/Parser field overwritten on the add path with a value of the message being added (no merge with its previous value) depends on arrival order.'
    '  For a parse_stream that adds to Tasks itself, only the timing clause is decided: a task complete after Task.add must be tested and yielded before the next message is read.'
)
RULE = ("obligation = rule instance bound to a statement/branch/loop of Task._insert_action, _ensure_node_parents, "
        "Task.add, Parser.add, parse_stream; non-trivial = dependency slice or CFG paths examined")
ASSUMPTIONS = [
    "confluence of message insertion under permutation/subsetting is NOT decided by this check",
    "pyrsistent transform/discard/add semantics",
]


def completion_nodes(cfg):
    """CFG nodes that add a level to the completed set."""
    out = []
    for n in cfg.live:
        for c, m in calls_in_node(n):
            txt = unparse(c)
            if isinstance(c.func, ast.Attribute) and c.func.attr == "transform" and "_completed" in txt and ".add(" in txt:
                out.append(n)
            elif isinstance(c.func, ast.Attribute) and c.func.attr == "add" and "_completed" in unparse(c.func.value):
                out.append(n)
    return out


def guard_slice(f, cfg, node, depth=0, seen=None):
    """Test expressions (with polarity label) that `node` transitively depends on:
    its dominating branch edges, plus -- for every local variable read by such a test --
    the guards of that variable's assignments, plus the iterables of enclosing loops."""
    seen = seen if seen is not None else set()
    out = []
    if depth > 6 or node in seen:
        return out
    seen.add(node)
    for t, lab in cfg.guards_of(node):
        if t.kind == "test":
            out.append((t.exprs[0], lab, t))
            for nm in {x.id for x in ast.walk(t.exprs[0]) if isinstance(x, ast.Name)}:
                if nm in f.params:
                    continue
                for a in cfg.live:
                    if isinstance(a.ast, ast.Assign) and any(isinstance(tt, ast.Name) and tt.id == nm for tt in a.ast.targets):
                        out.append((a.ast.value, "assign", a))  # data dependence on the assigned expression
                        out += guard_slice(f, cfg, a, depth + 1, seen)
        elif t.kind == "for_next":
            out.append((t.ast.iter, "loop:" + lab, t))
    return out


def linear_k(cmp):
    """For `len(X.children) == E - k` and variants return k (or None)."""
    if not (isinstance(cmp, ast.Compare) and len(cmp.ops) == 1 and isinstance(cmp.ops[0], ast.Eq)):
        return None
    l, r = cmp.left, cmp.comparators[0]

    def is_len_children(e):
        return isinstance(e, ast.Call) and isinstance(e.func, ast.Name) and e.func.id == "len" and len(e.args) == 1 and unparse(e.args[0]).endswith(".children")

    def is_endpos(e):
        return "end_message" in unparse(e) and "[-1]" in unparse(e)
    for a, b in ((l, r), (r, l)):
        if is_len_children(a) and isinstance(b, ast.BinOp) and isinstance(b.op, ast.Sub) and is_endpos(b.left) and isinstance(b.right, ast.Constant):
            return b.right.value
        if isinstance(a, ast.BinOp) and isinstance(a.op, ast.Add) and is_len_children(a.left) and isinstance(a.right, ast.Constant) and is_endpos(b):
            return a.right.value
        if isinstance(a, ast.BinOp) and isinstance(a.op, ast.Sub) and is_endpos(a.left) and is_len_children(a.right) and isinstance(b, ast.Constant):
            return b.value
    return None


def rule_never_early(chk, prefix="C09"):
    ctx = chk.ctx
    f = ctx.func("parse", "Task._insert_action")
    cfg = ctx.cfg(f)
    comps = completion_nodes(cfg)
    chk.need(comps, "Task._insert_action no longer marks actions complete")
    nparam = f.pos_params[1]
    import copy as _copy

    def helper_slice(fn, e, depth=0):
        """conditions a predicate helper called inside test expression e depends on, with its parameters renamed to the arguments"""
        out = []
        if depth > 2:
            return out
        for c in [x for x in ast.walk(e) if isinstance(x, ast.Call)]:
            for g in ctx.targets(fn, c):
                if g.module is not f.module or g is f or g.is_lambda:
                    continue
                gp = g.pos_params[1:] if (g.cls is not None and isinstance(c.func, ast.Attribute)) else g.pos_params
                ren = {p_: a_.id for p_, a_ in zip(gp, c.args) if isinstance(a_, ast.Name)}

                class R(ast.NodeTransformer):
                    def visit_Name(self, node):
                        if node.id in ren:
                            node.id = ren[node.id]
                        return node
                gcfg = ctx.cfg(g)
                for n in gcfg.live:
                    if n.kind == "test":
                        ee = R().visit(_copy.deepcopy(n.exprs[0]))
                        out.append((ee, "helper", n))
                        out += helper_slice(g, n.exprs[0], depth + 1)
                    elif n.kind == "for_next":
                        out.append((R().visit(_copy.deepcopy(n.ast.iter)), "loop:body", n))
                    elif n.kind == "return" and n.ast.value is not None:
                        ee = R().visit(_copy.deepcopy(n.ast.value))
                        out.append((ee, "assign", n))
                        out += helper_slice(g, n.ast.value, depth + 1)
        return out
    for cn in comps:
        sl = guard_slice(f, cfg, cn)
        for e_, lab_, t_ in list(sl):
            sl += helper_slice(f, e_)
        sl = [(X.for_matching(f, e), lab, t) if lab != "helper" and not lab.startswith("assign") else (e, lab, t) for e, lab, t in sl]
        texts = [(unparse(e), lab) for e, lab, t in sl]
        alltxt = " ## ".join(t for t, _ in texts)
        problems = []
        if "%s.start_message" % nparam not in alltxt:
            problems.append("the start message")
        if "%s.end_message" % nparam not in alltxt:
            problems.append("the end message")
        # count comparison
        ks = []
        for e, lab, t in sl:
            for x in ast.walk(e):
                k = linear_k(x)
                if k is not None:
                    ks.append(k)
        if not ks:
            problems.append("the child count against the end position")
        # all children complete: loop over <node>.children, flag false when a child action is not in _completed
        loop_ok = any(lab.startswith("loop:") and unparse(e) == "%s.children" % nparam for e, lab, t in sl) or \
            any(("all(" in t and "_completed" in t and "%s.children" % nparam in t) for t, _ in texts)
        member_ok = any("_completed" in t and ("not in" in t or " in " in t) for t, _ in texts)
        wa_ok = any("isinstance(" in t and "WrittenAction)" in t and "WrittenMessage" not in t for t, _ in texts)
        if loop_ok and member_ok and not wa_ok:
            problems.append("completeness of child ACTIONS (the membership test is not restricted to isinstance(child, WrittenAction))")
        if not (loop_ok and member_ok):
            problems.append("completeness of every child action (loop over all children / membership in the completed set)")
        chk.req(not problems, "%s.never-early" % prefix, "Task._insert_action:completion-depends-on-all-four", chk.where(f, cn.lineno),
                good="completion is control-dependent on start, end, child count and every child action's completeness (slice of %d tests)" % len(sl),
                fail="an action can be marked complete without checking " + ", ".join(problems) + ": a task is reported complete before its last message arrived",
                sites=len(sl))
        if ks:
            chk.req(all(k == 2 for k in ks), "%s.count" % prefix, "Task._insert_action:children==end-position-2", chk.where(f, cn.lineno),
                    good="number of children compared for equality with end position - 2 (start and end occupy two positions)",
                    fail="completeness compares the child count with end position - %s; the writer allocates exactly two own positions per action" % ks)
        else:
            chk.skip("%s.count" % prefix, "Task._insert_action:children==end-position-2", chk.where(f, cn.lineno), "comparison shape not recognised")
        # the child-completeness loop must not stop before a failing child is found / must consider action children only by isinstance
        for e, lab, t in sl:
            if lab.startswith("loop:") and unparse(e) == "%s.children" % nparam:
                region = common.loop_region(cfg, t)
                # inside the loop, a break/return is allowed only after the flag was cleared
                for n in region:
                    if n.kind == "break":
                        prev_ok = any(isinstance(p.ast, ast.Assign) and isinstance(p.ast.value, ast.Constant) and p.ast.value.value is False for p, _ in n.pred)
                        chk.req(prev_ok, "%s.never-early" % prefix, "Task._insert_action:child-loop-covers-all", chk.where(f, n.lineno),
                                good="the loop stops early only after finding an incomplete child",
                                fail="the child-completeness loop can stop before looking at every child")


def rule_state_is_order_free(chk, prefix="C09"):
    """Parser state may depend on the SET of messages added, not on the order: a field of Task / Parser that the add path
    overwrites with a value taken from the message being added (without merging it with the value already there) holds
    whatever arrived last."""
    ctx = chk.ctx
    known_paths = {"_nodes", "_completed", "_tasks"}
    n = 0
    for q in ("Task.add", "Task._insert_action", "Task._ensure_node_parents", "Parser.add"):
        g = ctx.func("parse", q)
        for x in iter_own_nodes(g.node):
            if not (isinstance(x, ast.Call) and isinstance(x.func, ast.Attribute)):
                continue
            if x.func.attr == "set":
                fields = [(k.arg, k.value) for k in x.keywords if k.arg is not None]
                if len(x.args) == 2 and isinstance(x.args[0], ast.Constant) and isinstance(x.args[0].value, str):
                    fields.append((x.args[0].value, x.args[1]))
                recv = x.func.value
                rt = ctx.cg.typer.type_of(g, recv)
                if not fields or not any(getattr(t, "name", None) in ("Task", "Parser") for t in rt):
                    continue
                for fname, v in fields:
                    n += 1
                    merges = any(isinstance(y, ast.Attribute) and y.attr == fname for y in ast.walk(v))
                    if merges:
                        raise AnalysisError("%s: field %s is updated by `%s` (a merge with its previous value; order-independence of that merge is not modelled)" % (q, fname, unparse(x)[:60]))
                    chk.bad("%s.order" % prefix, "%s:state-independent-of-arrival-order(%s)" % (q, fname), chk.where(g, x.lineno),
                            "`%s` overwrites %s with a value taken from the message being added: the field holds whatever arrived LAST, so the same messages added in a different order give "
                            "objects that differ (and compare unequal)" % (unparse(x)[:70], fname))
            elif x.func.attr == "transform" and x.args and isinstance(x.args[0], ast.List) and x.args[0].elts:
                n += 1
                first = x.args[0].elts[0]
                if not (isinstance(first, ast.Constant) and first.value in known_paths):
                    raise AnalysisError("%s: transform of %s is not one of the state paths the rules know" % (q, unparse(first)[:30]))
    chk.ok("%s.order" % prefix, "parser-state-updates-examined", "eliot/parse.py", "%d state updates on the add path: only the node map, the completed set and the task map are written" % n, sites=max(n, 1))


def rule_upward(chk):
    ctx = chk.ctx
    ia = ctx.func("parse", "Task._insert_action")
    enp = ctx.func("parse", "Task._ensure_node_parents")
    cfg = ctx.cfg(ia)
    # every return of _insert_action is <task>._ensure_node_parents(node)
    nparam = ia.pos_params[1]
    ok = True
    rets = common.returns_of(cfg)
    for r in rets:
        v = r.ast.value
        if not (isinstance(v, ast.Call) and enp in ctx.targets(ia, v) and len(v.args) == 1 and isinstance(v.args[0], ast.Name) and v.args[0].id == nparam):
            ok = False
    chk.req(ok and rets, "C09.upward", "Task._insert_action:re-evaluates-ancestors", chk.where(ia),
            good="every return continues with _ensure_node_parents(node)", fail="a path inserts a node without re-evaluating its ancestors' completeness")
    # the node is stored in _nodes on every path
    stores = [n for n in cfg.live for c, m in calls_in_node(n) if isinstance(c.func, ast.Attribute) and c.func.attr == "transform" and "_nodes" in unparse(c)]
    okst, wit = cfg.must_pass([cfg.entry], [cfg.exit], stores)
    chk.req(bool(stores) and okst, "C09.upward", "Task._insert_action:stores-the-node", chk.where(ia),
            good="the node is stored under its level on every path", fail="a path does not store the node: %s" % cfg.fmt_path(wit))
    ecfg = ctx.cfg(enp)
    calls = ctx.calls_to(enp, ia)
    chk.need(calls, "_ensure_node_parents no longer calls _insert_action")
    root_tests = []
    for t in ecfg.live:
        if t.kind == "test":
            e = X.inline(enp, t.exprs[0])
            txt = unparse(e)
            if "parent()" in txt and "None" in txt and isinstance(e, ast.Compare) and isinstance(e.ops[0], (ast.Is, ast.Eq)):
                root_tests.append((t, "true"))
            elif "parent()" in txt and "None" in txt and isinstance(e, ast.Compare) and isinstance(e.ops[0], (ast.IsNot, ast.NotEq)):
                root_tests.append((t, "false"))
    okp, wit = ecfg.must_pass([ecfg.entry], [ecfg.exit], [n for n, c, m in calls], avoid_edges=set(root_tests))
    chk.req(bool(root_tests) and okp, "C09.upward", "Task._ensure_node_parents:recurses-to-the-root", chk.where(enp),
            good="the only exit without re-inserting the parent is the root test", fail="a non-root node can be added without its parent being re-inserted: %s" % ecfg.fmt_path(wit),
            sites=len(ecfg.live))
    addc = [n for n in ecfg.live for c, m in calls_in_node(n) if isinstance(c.func, ast.Attribute) and c.func.attr == "_add_child"]
    okadd = bool(addc) and ecfg.precedes(addc, [n for n, c, m in calls])[0]
    chk.req(okadd, "C09.upward", "Task._ensure_node_parents:child-added-before-reinsert", chk.where(enp),
            good="parent._add_child(child) precedes the re-insertion", fail="the parent is re-inserted without the child having been added to it")


def rule_once(chk):
    ctx = chk.ctx
    pa = ctx.func("parse", "Parser.add")
    cfg = ctx.cfg(pa)
    ic = ctx.func("parse", "Task.is_complete")
    tests = []
    for t in cfg.live:
        if t.kind == "test":
            for c, m in calls_in_node(t):
                if ic in ctx.targets(pa, c):
                    neg = isinstance(t.exprs[0], ast.UnaryOp) and isinstance(t.exprs[0].op, ast.Not)
                    tests.append((t, "false" if neg else "true"))
    chk.need(tests, "Parser.add no longer tests is_complete()")
    rets = common.returns_of(cfg)
    chk.need(rets, "Parser.add has no return")
    for r in rets:
        v = r.ast.value
        chk.need(isinstance(v, ast.Tuple) and len(v.elts) == 2, "Parser.add return shape changed")
        first, second = v.elts
        nonempty = not (isinstance(first, ast.List) and not first.elts)
        dominated = any(cfg.edge_dominates(t, lab, r) for t, lab in tests)
        anti = any(cfg.edge_dominates(t, "false" if lab == "true" else "true", r) for t, lab in tests)
        # how was the returned parser built on this path?
        pvals = []
        if isinstance(second, ast.Name):
            for n in cfg.live:
                if isinstance(n.ast, ast.Assign) and any(isinstance(tt, ast.Name) and tt.id == second.id for tt in n.ast.targets):
                    if cfg.precedes([n], [r])[0] or True:
                        # the assignment reaching this return: same branch arm
                        if any(cfg.edge_dominates(t, lab if dominated else ("false" if lab == "true" else "true"), n) for t, lab in tests):
                            pvals.append(n.ast.value)
        else:
            pvals.append(second)
        ptxt = " | ".join(unparse(x) for x in pvals)
        if nonempty:
            chk.req(dominated and "discard" in ptxt and "_tasks" in ptxt, "C09.once", "Parser.add:completed-returned-under-is_complete-and-discarded", chk.where(pa, r.lineno),
                    good="returned as completed only under is_complete(); the parser drops it (%s)" % ptxt[:60],
                    fail="a task is returned as completed %s" % ("without is_complete() holding" if not dominated else "but kept in the parser (%s): it will be yielded again" % ptxt[:60]))
        else:
            chk.req(anti and "_tasks" in ptxt and "discard" not in ptxt, "C09.once", "Parser.add:incomplete-task-stored", chk.where(pa, r.lineno),
                    good="incomplete task stored back (%s)" % ptxt[:60], fail="the updated incomplete task is not stored in the parser (%s)" % ptxt[:60])
    # is_complete reads only root-in-completed
    rr = [n for n in iter_own_nodes(ic.node) if isinstance(n, ast.Return)]
    okic = len(rr) == 1 and isinstance(rr[0].value, ast.Compare) and isinstance(rr[0].value.ops[0], ast.In) \
        and "_root_level" in unparse(rr[0].value.left) and "_completed" in unparse(rr[0].value.comparators[0])
    chk.req(okic, "C09.once", "Task.is_complete:root-in-completed", chk.where(ic), good="is_complete() == (root level in completed set)",
            fail="is_complete is %s" % (rr and unparse(rr[0].value)))


def rule_tail(chk, prefix="C09"):
    ctx = chk.ctx
    ps = ctx.func("parse", "Parser.parse_stream")
    cfg = ctx.cfg(ps)
    inc = ctx.func("parse", "Parser.incomplete_tasks")
    padd = ctx.func("parse", "Parser.add")
    iparam = ps.pos_params[1]
    main = [n for n in cfg.live if n.kind == "for_next" and isinstance(n.ast.iter, ast.Name) and n.ast.iter.id == iparam]
    if len(main) != 1:
        # another reading loop (e.g. grouped runs of the input) that adds to Tasks directly: only the timing clause is decided --
        # a task that has just become complete must be yielded before the next message is read
        tadd = ctx.func("parse", "Task.add")
        adds = [n for n in cfg.live for c, m in calls_in_node(n) if tadd in ctx.targets(ps, c)]
        heads = [n for n in cfg.live if n.kind == "for_next"]
        for a_ in adds:
            inner_heads = [h for h in heads if a_ in common.loop_region(cfg, h)]
            if not inner_heads:
                continue
            h = min(inner_heads, key=lambda hh: len(common.loop_region(cfg, hh)))   # the innermost loop: its head is the next read
            ctests = [t for t in cfg.live if t.kind == "test" and any(isinstance(x, ast.Call) and isinstance(x.func, ast.Attribute) and x.func.attr == "is_complete" for x in ast.walk(t.exprs[0]))]
            starts = [s_ for s_, l_ in a_.succ if l_ != "exc"]
            region_h = common.loop_region(cfg, h)
            inloop = [t for t in ctests if t in region_h]
            ys = [n for n in cfg.live for e in n.exprs for x in ast.walk(e) if isinstance(x, ast.Yield)]
            late = not inloop or not cfg.must_pass(starts, [h], inloop, skip_labels=("exc",))[0]
            if not late:
                for t in inloop:
                    e_, lab_ = X.strip_not(t.exprs[0], "true")
                    tstarts = [s_ for s_, l_ in t.succ if l_ == lab_]
                    if not cfg.must_pass(tstarts, [h], [y for y in ys if y in region_h], skip_labels=("exc",))[0]:
                        late = True
            if late:
                chk.bad("%s.tail" % prefix, "parse_stream:completed-task-yielded-before-the-next-read", chk.where(ps, a_.lineno),
                        "after `%s` the loop `for %s in %s` reads the next message without first testing is_complete() and yielding the task: a task whose last message has just been "
                        "read is reported only when the enclosing run ends -- with itertools.groupby that is after the first message of ANOTHER task (or the end of the stream) has been read, "
                        "so on a live stream the most recently completed task is withheld" % (unparse(a_.ast)[:40], unparse(h.ast.target), unparse(h.ast.iter)[:30]))
    chk.need(len(main) == 1, "parse_stream: main loop over the input not found")
    main = main[0]
    tails = [n for n in cfg.live if n.kind == "for_next" and isinstance(n.ast.iter, ast.Call) and inc in ctx.targets(ps, n.ast.iter)]

    def yields_target(loop):
        tgt = loop.ast.target.id if isinstance(loop.ast.target, ast.Name) else None
        region = common.loop_region(cfg, loop)
        ys = [n for n in region for e in n.exprs for x in ast.walk(e) if isinstance(x, ast.Yield) and isinstance(x.value, ast.Name) and x.value.id == tgt]
        if not ys:
            return False
        starts = [s for s, l in loop.succ if l == "body"]
        return cfg.must_pass(starts, [loop], ys, skip_labels=("exc",))[0]
    after = [s for s, l in main.succ if l == "exhausted"]
    okt = bool(tails) and cfg.must_pass(after, [cfg.exit], tails, skip_labels=("exc",))[0] and all(yields_target(t) for t in tails)
    chk.req(okt, "%s.tail" % prefix, "parse_stream:incomplete-tasks-yielded-at-end", chk.where(ps),
            good="after the input is exhausted every incomplete task is yielded", fail="when the stream ends, the remaining incomplete tasks are not all yielded",
            sites=len(cfg.live))
    # completed tasks yielded inside the main loop
    region = common.loop_region(cfg, main)
    addn = [n for n in region for c, m in calls_in_node(n) if padd in ctx.targets(ps, c)]
    chk.need(addn, "parse_stream no longer calls Parser.add")
    cname = None
    st = addn[0].ast
    if isinstance(st, ast.Assign) and isinstance(st.targets[0], ast.Tuple) and isinstance(st.targets[0].elts[0], ast.Name):
        cname = st.targets[0].elts[0].id
        pname = st.targets[0].elts[1].id if isinstance(st.targets[0].elts[1], ast.Name) else None
    inner = [n for n in region if n.kind == "for_next" and isinstance(n.ast.iter, ast.Name) and n.ast.iter.id == cname]
    starts = [s for s, l in addn[0].succ if l != "exc"]
    oki = bool(inner) and cfg.must_pass(starts, [main], inner, skip_labels=("exc",))[0] and all(yields_target(t) for t in inner)
    chk.req(oki, "%s.tail" % prefix, "parse_stream:completed-tasks-yielded", chk.where(ps),
            good="every element of every completed list is yielded", fail="completed tasks returned by Parser.add are not all yielded")
    # the updated parser is carried to the next iteration
    okp = cname is not None and pname is not None and isinstance(addn[0].ast.value, ast.Call) and isinstance(addn[0].ast.value.func, ast.Attribute) \
        and isinstance(addn[0].ast.value.func.value, ast.Name) and addn[0].ast.value.func.value.id == pname
    chk.req(okp, "%s.tail" % prefix, "parse_stream:parser-state-threaded", chk.where(ps), good="parser = parser.add(...) result is reused",
            fail="the updated parser returned by add() is not the one used for the next message")


def rule_add_dispatch(chk):
    """Task.add: action/message dispatch on action_type; start/end dispatch on the status."""
    ctx = chk.ctx
    p = ctx.p
    f = ctx.func("parse", "Task.add")
    cfg = ctx.cfg(f)
    act = p.mod("_action")
    AT = p.fold_global(act, "ACTION_TYPE_FIELD")
    AS = p.fold_global(act, "ACTION_STATUS_FIELD")
    ST = p.fold_global(act, "STARTED_STATUS")
    ia = ctx.func("parse", "Task._insert_action")
    enp = ctx.func("parse", "Task._ensure_node_parents")
    wstart = ctx.func("_action", "WrittenAction._start")
    wend = ctx.func("_action", "WrittenAction._end")
    mparam = f.pos_params[1]
    env_ = X.single_assignments(f)

    def reads_type(x):
        return isinstance(x, ast.Call) and isinstance(x.func, ast.Attribute) and x.func.attr == "get" and isinstance(x.func.value, ast.Name) and x.func.value.id == mparam \
            and x.args and ctx.try_fold(f, x.args[0]) == (True, AT) and (len(x.args) == 1 or X.is_const(x.args[1], None))

    def arm(node):
        """"action" / "message": what the guards of node say about the presence of action_type (None if they say nothing)"""
        out = set()
        for t, lab in cfg.guards_of(node):
            if t.kind == "test":
                b = X.none_branch(X.inline(f, t.exprs[0], env_), lab, reads_type)
                if b:
                    out.add("message" if b == "none" else "action")
        return out
    act_nodes = [n for n, c, m in ctx.calls_to(f, ia)]
    msg_nodes = [n for n, c, m in ctx.calls_to(f, enp)]
    okd = bool(act_nodes) and bool(msg_nodes) and all(arm(n) == {"action"} for n in act_nodes) and all(arm(n) == {"message"} for n in msg_nodes)
    chk.req(okd, "C09.dispatch", "Task.add:action-vs-message-by-action_type", chk.where(f), good="action iff %s is present" % AT,
            fail="Task.add does not dispatch on the presence of %s" % AT)
    # start vs end
    ts = [t for t in cfg.live if t.kind == "test" and isinstance(t.exprs[0], ast.Compare) and ctx.try_fold(f, t.exprs[0].comparators[0]) == (True, ST)
          and isinstance(t.exprs[0].left, ast.Subscript) and ctx.try_fold(f, t.exprs[0].left.slice) == (True, AS)]
    oks = False
    if ts:
        t = ts[0]
        sc = ctx.calls_to(f, wstart)
        ec = ctx.calls_to(f, wend)
        eq = isinstance(t.exprs[0].ops[0], ast.Eq)
        oks = bool(sc) and bool(ec) and all(cfg.edge_dominates(t, "true" if eq else "false", n) for n, c, m in sc) \
            and all(cfg.edge_dominates(t, "false" if eq else "true", n) for n, c, m in ec)
    chk.req(oks, "C09.dispatch", "Task.add:start-vs-end-by-status", chk.where(f), good="status == %r -> _start, otherwise _end" % ST,
            fail="Task.add does not route start/end messages by action_status == %r" % ST)
    # a message with no enclosing action is its own task only at level [1]
    oksp = False
    for t in cfg.live:
        e1_ = X.strip_not(t.exprs[0], "true")[0] if t.kind == "test" else None
        if t.kind == "test" and isinstance(e1_, ast.Compare) and len(e1_.ops) == 1 and isinstance(e1_.ops[0], (ast.Eq, ast.NotEq)):
            for a_, b_ in ((e1_.left, e1_.comparators[0]), (e1_.comparators[0], e1_.left)):
                okc, cv = ctx.try_fold(f, b_)
                if okc and isinstance(cv, (list, tuple)) and list(cv) == [1] and "task_level" in unparse(X.inline(f, a_)):
                    oksp = True
    chk.req(oksp, "C09.dispatch", "Task.add:context-less-message-only-at-level-[1]", chk.where(f), good="a message is a whole task only when its level is [1]",
            fail="Task.add no longer restricts the single-message task to level [1]")
    ins = ctx.calls_to(f, ia) + ctx.calls_to(f, enp)
    okr = all(any(c is r.ast.value or r.ast.value is not None for r in common.returns_of(cfg)) for n, c, m in ins)
    rets = common.returns_of(cfg)
    chk.req(all(isinstance(r.ast.value, ast.Call) for r in rets) and len(rets) >= 3, "C09.dispatch", "Task.add:every-arm-returns-updated-task", chk.where(f),
            good="%d returns, each an updated task" % len(rets), fail="some arm of Task.add does not return the updated task")


def rule_model(chk, prefix="C09"):
    """The immutable tree-node model the parser relies on: TaskLevel is a value type keyed
    by its list; WrittenMessage/WrittenAction read uuid/level from the logged dict, accept a
    child only for the same task and the directly enclosing level, and order children by level.
    Decided on the expression trees (single-assignment temporaries substituted), not on source text."""
    ctx = chk.ctx
    p = ctx.p
    tl = ctx.cls("_action", "TaskLevel")
    init = tl.find_method("__init__")
    chk.need(init is not None and len(init.pos_params) >= 2, "TaskLevel.__init__(self, level) not found")
    lparam = init.pos_params[1]
    L = None
    for n in iter_own_nodes(init.node):
        if isinstance(n, ast.Assign) and isinstance(n.value, ast.Name) and n.value.id == lparam and common.is_self_attr(n.targets[0]):
            L = n.targets[0].attr
    chk.need(L is not None, "TaskLevel.__init__ does not store its level argument in an attribute")

    def lvl(base):
        """predicate: expression denotes <base>'s level list (the attribute itself, a slice copy of it or as_list())"""
        def pred(e):
            if X.is_attr(e, base, L):
                return True
            if isinstance(e, ast.Subscript) and X.is_attr(e.value, base, L) and isinstance(e.slice, ast.Slice) and e.slice.lower is None and e.slice.upper is None:
                return True
            return isinstance(e, ast.Call) and isinstance(e.func, ast.Attribute) and e.func.attr == "as_list" and isinstance(e.func.value, ast.Name) and e.func.value.id == base and not e.args
        return pred

    def is_tasklevel_ctor(f, e):
        """TaskLevel(level=<x>) / TaskLevel(<x>) / self.__class__(...) / type(self)(...): returns <x> or None"""
        if not isinstance(e, ast.Call):
            return None
        fn = e.func
        okc = False
        if isinstance(fn, ast.Name):
            r = p.resolve_name(f.module, f, fn.id)
            okc = r[0] == "class" and r[1] is tl or (fn.id in ("cls", "klass") and f.cls is tl)
        elif isinstance(fn, ast.Attribute) and fn.attr == "__class__" and isinstance(fn.value, ast.Name) and fn.value.id == "self" and f.cls is tl:
            okc = True
        elif isinstance(fn, ast.Call) and isinstance(fn.func, ast.Name) and fn.func.id == "type" and len(fn.args) == 1 and isinstance(fn.args[0], ast.Name) and fn.args[0].id == "self" and f.cls is tl:
            okc = True
        if not okc:
            return None
        if len(e.args) == 1 and not e.keywords:
            return e.args[0]
        if not e.args and len(e.keywords) == 1 and e.keywords[0].arg == lparam:
            return e.keywords[0].value
        return None

    def empty_test(e, label):
        """does taking branch `label` of test e imply that self's level list is empty?"""
        e, label = X.strip_not(e, label)
        if lvl("self")(e):
            return label == "false"
        if isinstance(e, ast.Compare) and len(e.ops) == 1:
            a, b, op = e.left, e.comparators[0], type(e.ops[0])
            is_len = lambda x: isinstance(x, ast.Call) and isinstance(x.func, ast.Name) and x.func.id == "len" and len(x.args) == 1 and lvl("self")(x.args[0])
            num = lambda x: x.value if isinstance(x, ast.Constant) and isinstance(x.value, int) else None
            if is_len(a) and num(b) is not None:
                k = num(b)
                table = {(ast.Eq, 0): "true", (ast.NotEq, 0): "false", (ast.Lt, 1): "true", (ast.GtE, 1): "false", (ast.Gt, 0): "false", (ast.LtE, 0): "true"}
                return table.get((op, k)) == label
            if lvl("self")(a) and isinstance(b, (ast.List, ast.Tuple)) and not b.elts:
                return (op is ast.Eq and label == "true") or (op is ast.NotEq and label == "false")
        return False

    # parent(): None exactly for the empty level, otherwise the level without its last element
    par = tl.find_method("parent")
    pcfg = ctx.cfg(par)
    env = X.single_assignments(par)
    problems = []
    n_none = n_cut = 0
    for rn in [n for n in pcfg.live if n.kind == "return"]:
        v = X.inline(par, rn.ast.value, env) if rn.ast.value is not None else None
        if v is None or X.is_const(v, None):
            n_none += 1
            if not any(t.kind == "test" and empty_test(t.exprs[0], lab) for t, lab in pcfg.guards_of(rn)):
                problems.append("returns None where the level is not known to be empty (line %d)" % rn.lineno)
            continue
        arg = is_tasklevel_ctor(par, v)
        okcut = arg is not None and isinstance(arg, ast.Subscript) and lvl("self")(arg.value) and isinstance(arg.slice, ast.Slice) and arg.slice.step is None \
            and (arg.slice.lower is None or X.is_const(arg.slice.lower, 0)) and isinstance(arg.slice.upper, ast.UnaryOp) and isinstance(arg.slice.upper.op, ast.USub) \
            and X.is_const(arg.slice.upper.operand, 1)
        if okcut:
            n_cut += 1
        else:
            problems.append("returns `%s`, not TaskLevel(<level>[:-1])" % X.text(v)[:60])
    if not n_none or not n_cut:
        problems.append("needs both a None return for the root level and a TaskLevel(<level>[:-1]) return")
    chk.req(not problems, "%s.model" % prefix, "TaskLevel.parent:drops-the-last-position", chk.where(par), good="None for the root level, else the level without its last element",
            fail="TaskLevel.parent: %s" % "; ".join(problems))

    def class_test(e):
        return any((isinstance(x, ast.Attribute) and x.attr == "__class__") or (isinstance(x, ast.Call) and isinstance(x.func, ast.Name) and x.func.id in ("isinstance", "type")) for x in ast.walk(e))

    # __eq__: by level list (a class test may come first)
    eq = tl.find_method("__eq__")
    oparam = eq.pos_params[1] if len(eq.pos_params) > 1 else "other"
    problems, n_cmp = [], 0
    for rn, v in X.returns(eq):
        vals = v.values if isinstance(v, ast.BoolOp) and isinstance(v.op, ast.And) else [v]
        if X.compare_of(vals[-1], lvl("self"), lvl(oparam)) is ast.Eq and all(class_test(x) for x in vals[:-1]):
            n_cmp += 1
        elif v is not None and (X.is_const(v, False) or (isinstance(v, ast.Name) and v.id == "NotImplemented")):
            pass
        else:
            problems.append("returns `%s`" % X.text(v)[:60])
    chk.req(n_cmp >= 1 and not problems, "%s.model" % prefix, "TaskLevel.__eq__:by-level-list", chk.where(eq), good="equal iff same class and same level list",
            fail="TaskLevel.__eq__ does not compare the level lists (%s)" % ("; ".join(problems) or "no level comparison returned"))
    # __hash__: of the level tuple
    hs = tl.find_method("__hash__")
    rv = X.returns(hs)
    okh = len(rv) == 1 and isinstance(rv[0][1], ast.Call) and isinstance(rv[0][1].func, ast.Name) and rv[0][1].func.id == "hash" and len(rv[0][1].args) == 1 \
        and isinstance(rv[0][1].args[0], ast.Call) and isinstance(rv[0][1].args[0].func, ast.Name) and rv[0][1].args[0].func.id == "tuple" \
        and len(rv[0][1].args[0].args) == 1 and lvl("self")(rv[0][1].args[0].args[0])
    chk.req(okh, "%s.model" % prefix, "TaskLevel.__hash__:of-the-level-tuple", chk.where(hs), good="hash(tuple(level))",
            fail="TaskLevel.__hash__ returns `%s` (nodes are keyed by TaskLevel: equal levels must hash equally, and only those reliably)" % "; ".join(X.text(v)[:60] for _, v in rv))
    for nm, op in (("__lt__", ast.Lt), ("__le__", ast.LtE), ("__gt__", ast.Gt), ("__ge__", ast.GtE)):
        m = tl.find_method(nm)
        op2 = m.pos_params[1] if len(m.pos_params) > 1 else "other"
        rv = X.returns(m)
        oko = len(rv) >= 1 and all(X.compare_of(v, lvl("self"), lvl(op2)) is op for _, v in rv)
        chk.req(oko, "%s.model" % prefix, "TaskLevel.%s:list-order" % nm, chk.where(m), good="lexicographic order of the level lists",
                fail="TaskLevel.%s returns `%s`" % (nm, "; ".join(X.text(v)[:60] for _, v in rv)))
    # WrittenMessage: identity read from the logged dictionary
    wm = ctx.cls("_message", "WrittenMessage")
    msg = p.mod("_message")
    for prop, const in (("task_uuid", "TASK_UUID_FIELD"), ("timestamp", "TIMESTAMP_FIELD"), ("task_level", "TASK_LEVEL_FIELD")):
        m = wm.find_method(prop)
        want = p.fold_global(msg, const)
        rv = X.returns(m)

        def reads(e):
            return isinstance(e, ast.Subscript) and common.is_self_attr(e.value) and ctx.try_fold(m, e.slice) == (True, want)
        okm = len(rv) == 1 and rv[0][1] is not None
        if okm:
            v = rv[0][1]
            if prop == "task_level":
                a = is_tasklevel_ctor(m, v)
                okm = a is not None and reads(a)
            else:
                okm = reads(v)
        chk.req(okm, "%s.model" % prefix, "WrittenMessage.%s:reads-%s" % (prop, want), chk.where(m),
                good="returns the logged dictionary's %r%s" % (want, " as a TaskLevel" if prop == "task_level" else ""),
                fail="WrittenMessage.%s returns `%s`" % (prop, "; ".join(X.text(v)[:70] for _, v in rv)))
    # WrittenAction._validate_message: other task -> WrongTask; not a direct child -> WrongTaskLevel
    wa = ctx.cls("_action", "WrittenAction")
    vm = wa.find_method("_validate_message")
    vcfg = ctx.cfg(vm)
    mparam = vm.pos_params[1]

    def differs(e, label, what):
        e, label = X.strip_not(e, label)
        if what == "uuid":
            op = X.compare_of(e, lambda x: X.is_attr(x, mparam, "task_uuid"), lambda x: X.is_attr(x, "self", "task_uuid"))
        else:
            is_par = lambda x: isinstance(x, ast.Call) and isinstance(x.func, ast.Attribute) and x.func.attr == "parent" and not x.args and X.is_attr(x.func.value, mparam, "task_level")
            op = X.compare_of(e, is_par, lambda x: X.is_attr(x, "self", "task_level"))
        return (op is ast.NotEq and label == "true") or (op is ast.Eq and label == "false")
    raised = {}
    env = X.single_assignments(vm)
    for rn in [n for n in vcfg.live if n.kind == "raise_stmt"]:
        exc = rn.ast.exc
        nm = unparse(exc.func if isinstance(exc, ast.Call) else exc).split(".")[-1] if exc is not None else "?"
        gs = [(X.inline(vm, t.exprs[0], env), lab) for t, lab in vcfg.guards_of(rn) if t.kind == "test"]
        raised.setdefault(nm, []).append(gs)
    okv = bool(raised.get("WrongTask")) and all(any(differs(e, lab, "uuid") for e, lab in gs) for gs in raised.get("WrongTask", [])) \
        and bool(raised.get("WrongTaskLevel")) and all(any(differs(e, lab, "level") for e, lab in gs) for gs in raised.get("WrongTaskLevel", []))
    # and nothing lets a wrong message through: from entry, the normal exit is reached only with both tests passed
    tests = [t for t in vcfg.live if t.kind == "test"]
    pass_edges_ok = True
    for what in ("uuid", "level"):
        ts = [(t, lab) for t in tests for lab in ("true", "false") if differs(X.inline(vm, t.exprs[0], env), lab, what)]
        if not ts:
            pass_edges_ok = False
            continue
        # every "differs" edge leads to a raise, never to the normal exit
        for t, lab in ts:
            for s_, l in t.succ:
                if l == lab and vcfg.exit in vcfg.reach([s_], skip_labels=("exc",)):
                    pass_edges_ok = False
        if not vcfg.must_pass([vcfg.entry], [vcfg.exit], [t for t, _ in ts], skip_labels=("exc",))[0]:
            pass_edges_ok = False
    chk.req(okv and pass_edges_ok, "%s.model" % prefix, "WrittenAction._validate_message:same-task-direct-child", chk.where(vm), good="rejects other tasks and non-direct children",
            fail="WrittenAction._validate_message does not raise WrongTask exactly for another task's message and WrongTaskLevel exactly for a message that is not a direct child (raises: %s)"
                 % {k: [[(X.text(e)[:50], lab) for e, lab in gs] for gs in v] for k, v in raised.items()})
    # children: which attribute holds them
    ch = wa.find_method("children")
    C = None
    for n in iter_own_nodes(ch.node):
        if isinstance(n, ast.Call) and isinstance(n.func, ast.Name) and n.func.id == "sorted" and n.args:
            a0 = X.inline(ch, n.args[0])
            if isinstance(a0, ast.Call) and isinstance(a0.func, ast.Attribute) and a0.func.attr == "values" and common.is_self_attr(a0.func.value):
                C = a0.func.value.attr
    chk.req(C is not None, "%s.model" % prefix, "WrittenAction.children:ordered-by-level", chk.where(ch), good="sorted(self.%s.values(), key=task level) (key checked by %s.total)" % (C, prefix),
            fail="WrittenAction.children does not return sorted(<children map>.values(), ...)")
    ac = wa.find_method("_add_child")
    acfg = ctx.cfg(ac)
    aparam = ac.pos_params[1]
    env = X.single_assignments(ac)
    vcalls = [n for n in acfg.live for c, _m in calls_in_node(n) if vm in ctx.targets(ac, c) and len(c.args) == 1 and isinstance(c.args[0], ast.Name) and c.args[0].id == aparam]
    stores = []
    for n in acfg.live:
        for c, _m in calls_in_node(n):
            if isinstance(c.func, ast.Attribute) and c.func.attr == "transform" and common_is_self(c.func.value) and len(c.args) == 2:
                key = X.inline(ac, c.args[0], env)
                val = X.inline(ac, c.args[1], env)
                if isinstance(key, (ast.Tuple, ast.List)) and len(key.elts) == 2 and isinstance(key.elts[0], ast.Constant) and key.elts[0].value == C \
                        and X.is_attr(key.elts[1], aparam, "task_level") and isinstance(val, ast.Name) and val.id == aparam:
                    stores.append(n)
    oka = bool(vcalls) and bool(stores) and acfg.precedes(vcalls, stores)[0] and not stores_to_name(ac, aparam)
    chk.req(oka, "%s.model" % prefix, "WrittenAction._add_child:keyed-by-the-child's-level", chk.where(ac),
            good="validated, then stored under its own level in %s" % C, fail="WrittenAction._add_child does not validate the message and then store it in the children map under the message's own task level")


def common_is_self(e):
    return isinstance(e, ast.Name) and e.id == "self"


ORDER_CALLS = {"sorted", "min", "max"}
TOTAL_ORDER_KEYS = {"task_level", "_level", "level"}


def rule_orderings(chk, prefix="C09"):
    """Every ordering the parser computes compares task levels only (a total order, C09.model).  Ordering by a
    value that is None for a placeholder node (start_time, end_time, a missing field) raises TypeError for
    exactly the inputs the property is about: subsets with missing start messages."""
    ctx = chk.ctx
    p = ctx.p
    funcs = [f for f in p.all_funcs() if f.module.short == "parse"
             or (f.cls is not None and f.cls.name in ("WrittenAction", "WrittenMessage", "TaskLevel") and f.module.short in ("_action", "_message"))]
    sites = 0
    for f in funcs:
        for n in iter_own_nodes(f.node):
            if not isinstance(n, ast.Call):
                continue
            nm = n.func.id if isinstance(n.func, ast.Name) else (n.func.attr if isinstance(n.func, ast.Attribute) and n.func.attr == "sort" else None)
            if nm not in ORDER_CALLS and nm != "sort":
                continue
            if nm in ("min", "max") and len(n.args) > 1 and not n.keywords:
                continue  # min(a, b) of two numbers
            sites += 1
            key = next((k.value for k in n.keywords if k.arg == "key"), None)
            what = None
            if key is None:
                what = "the elements themselves"
                ok = False
            elif isinstance(key, ast.Lambda):
                body = key.body
                while isinstance(body, ast.Call) and isinstance(body.func, ast.Attribute) and body.func.attr in ("as_list",):
                    body = body.func.value
                ok = isinstance(body, ast.Attribute) and body.attr in TOTAL_ORDER_KEYS
                what = unparse(key.body)
                if not ok and isinstance(body, ast.Attribute):
                    # is it a property that can be None?
                    for c in [c for mo in p.prod_modules() for c in mo.classes.values()]:
                        m = c.methods.get(body.attr)
                        if m is not None and c.name in ("WrittenAction", "WrittenMessage", "Task"):
                            cfgm = ctx.cfg(m)
                            rets = [x for x in cfgm.live if x.kind == "return"]
                            implicit = any(l not in ("exc", "return") and s is cfgm.exit for x in cfgm.live for s, l in x.succ if x.kind != "return")
                            if implicit or any(x.ast.value is None for x in rets):
                                what += " (%s.%s is None when the message it reads is missing)" % (c.name, body.attr)
            else:
                ok = False
                what = unparse(key)
            chk.req(ok, "%s.total" % prefix, "%s:orders-by-task-level-only@%s" % (f.fq, nm), chk.where(f, n.lineno),
                    good="`%s` orders by task level, which is total (C09.model)" % unparse(n)[:60],
                    fail="`%s` orders by %s: for an arbitrary subset of a task's messages (placeholder nodes, missing start messages) the comparison raises TypeError "
                         "and the incomplete tasks are never delivered" % (unparse(n)[:70], what))
    chk.instances("%s.total:ordering calls in the parser model" % prefix, sites, 1)


def run(chk):
    rule_model(chk)
    rule_orderings(chk)
    rule_never_early(chk)
    rule_upward(chk)
    rule_once(chk)
    rule_tail(chk)
    rule_add_dispatch(chk)
    rule_state_is_order_free(chk)
    from . import c02
    c02.rule_exit_order(chk)  # generation side: nothing may be logged under an action after its end message, or the parser rejects the stream
