"""Shared rule helpers (E3/E6 queries used by several properties)."""

import ast

from ..index import AnalysisError, unparse, iter_own_nodes
from ..cfg import calls_in_node, handler_catches_all_exceptions, INF
from ..framework import forward, stores_to_name, assigned_values


# ---------------------------------------------------------------------------
# refined exceptional edges

def quiet_exc_edges(ctx, func, exception_model=True):
    if not getattr(ctx, "_fanout_anchor_checked", False):
        from . import c08
        c08.fanout_anchor(ctx)
        ctx._fanout_anchor_checked = True
    """Exceptional out-edges that cannot be taken according to the call classification
    (E4/E5): the node makes no foreign/unknown call, calls no repo function with a
    non-empty escape set, contains no raise/yield/assert.  With exception_model=True
    (fault model 'any Exception subclass') the propagate edge of a try whose handlers
    catch at least Exception is quiet too."""
    cfg = ctx.cfg(func)
    cg, ct = ctx.cg, ctx.contain
    quiet = set()
    for n in cfg.live:
        labels = [l for _, l in n.succ]
        if "exc" not in labels:
            continue
        if n.kind == "dispatch":
            if exception_model and any(handler_catches_all_exceptions(h) for h in n.info["handlers"]):
                quiet.add((n, "exc"))
            continue
        if n.kind in ("raise_stmt",):
            continue
        if n.kind == "for_next":
            # iteration over library-owned lists does not raise
            quiet.add((n, "exc"))
            continue
        if n.kind in ("with_enter", "with_exit"):
            item = n.info["item"]
            raising = False
            for t in cg.typer.type_of(func, item.context_expr):
                if hasattr(t, "find_method"):
                    for mname in ("__enter__", "__exit__"):
                        m = t.find_method(mname)
                        if m is not None and ct.U.get(m):
                            raising = True
            if n.kind == "with_enter":
                for c, _ in calls_in_node(n):
                    if call_may_raise(ctx, func, c):
                        raising = True
            if not raising:
                quiet.add((n, "exc"))
            continue
        raising = False
        if isinstance(n.ast, (ast.Assert,)):
            raising = True
        for e in n.exprs:
            for x in ast.walk(e):
                if isinstance(x, (ast.Yield, ast.YieldFrom, ast.Await)):
                    raising = True
        for c, _ in calls_in_node(n):
            if call_may_raise(ctx, func, c):
                raising = True
        if not raising:
            quiet.add((n, "exc"))
    return quiet


def call_may_raise(ctx, func, call):
    cg, ct = ctx.cg, ctx.contain
    for s in cg.sites[func]:
        if s.call is call:
            k = cg.classify(s)
            if k in ("foreign", "unknown"):
                return True
            for g in ct._callees(s):
                if ct.U.get(g):
                    return True
            return False
    return True


# ---------------------------------------------------------------------------
# loops

def for_loops(cfg, pred):
    return [n for n in cfg.live if n.kind == "for_next" and pred(n.ast)]


def loop_region(cfg, head, avoid_edges=()):
    """Nodes of the loop body: reachable from the head's body edge without passing the head."""
    starts = [s for s, l in head.succ if l in ("body", "true")]
    return cfg.reach(starts, avoid={head}, avoid_edges=avoid_edges)


def loop_is_total(cfg, head, quiet):
    """No way out of the loop except the head's own exhausted/false edge: from the
    body, nothing but the head is reachable without passing the head.
    Returns (ok, offending node, where it leads)."""
    starts = [s for s, l in head.succ if l in ("body", "true")]
    region = cfg.reach(starts, avoid={head}, avoid_edges=quiet)
    outside = {s for s, l in head.succ if l in ("exhausted", "false")} | {cfg.exit, cfg.raise_exit}
    for t in outside:
        if t in region:
            path = cfg.witness(t)
            # first node of the path whose successor on the path is the way out
            return False, path[-2] if len(path) > 1 else t, t
    return True, None, None


# ---------------------------------------------------------------------------
# must-key analysis of a dict variable

class KeyState:
    __slots__ = ("present", "absent", "clobbered")

    def __init__(self, present=None, absent=frozenset(), clobbered=False):
        self.present = dict(present or {})  # key -> (dump, ast) ; value may be (None, None)
        self.absent = frozenset(absent)
        self.clobbered = clobbered

    def __eq__(self, o):
        return (isinstance(o, KeyState) and {k: v[0] for k, v in self.present.items()} == {k: v[0] for k, v in o.present.items()}
                and self.absent == o.absent)

    def __ne__(self, o):
        return not self.__eq__(o)

    def copy(self):
        return KeyState(self.present, self.absent)


def _join_keys(states):
    a = states[0]
    for b in states[1:]:
        pres = {}
        for k, v in a.present.items():
            if k in b.present:
                pres[k] = v if v[0] == b.present[k][0] else (None, None)
        a = KeyState(pres, a.absent & b.absent)
    return a


def dict_attr_literal(ctx, cls, attr):
    """Keys/values of `self.<attr> = {...}` in cls.__init__ (or None)."""
    init = cls.find_method("__init__")
    if init is None:
        return None
    found = None
    for n in iter_own_nodes(init.node):
        if isinstance(n, ast.Assign):
            for t in n.targets:
                if isinstance(t, ast.Attribute) and isinstance(t.value, ast.Name) and t.value.id == "self" and t.attr == attr:
                    found = (init, n.value)
    # any other writer of the attribute in the class?
    for m in set(cls.methods.values()):
        if m is init:
            continue
        for n in iter_own_nodes(m.node):
            if isinstance(n, (ast.Assign, ast.AugAssign)):
                tg = n.targets if isinstance(n, ast.Assign) else [n.target]
                for t in tg:
                    base = t.value if isinstance(t, ast.Subscript) else t
                    if isinstance(base, ast.Attribute) and isinstance(base.value, ast.Name) and base.value.id == "self" and base.attr == attr:
                        return None
            if isinstance(n, ast.Call) and isinstance(n.func, ast.Attribute) and n.func.attr in ("update", "pop", "clear", "setdefault", "popitem") \
                    and unparse(n.func.value) == "self.%s" % attr:
                return None
    if found is None or not isinstance(found[1], ast.Dict):
        return None
    return found


def returned_keys(ctx, g, depth=0):
    """Must-key state of the dict a repo function returns (join over its returns)."""
    if depth > 3 or g.is_lambda:
        return None
    cfg = ctx.cfg(g)
    states = []
    for r in cfg.live:
        if r.kind != "return":
            continue
        v = r.ast.value
        if isinstance(v, ast.Name):
            st = must_keys(ctx, g, v.id, None, at_node=r, depth=depth + 1)
            if st is None:
                return None
            states.append(st)
        elif isinstance(v, ast.Dict):
            pres = {}
            for k, val in zip(v.keys, v.values):
                ok, kk = ctx.try_fold(g, k) if k is not None else (False, None)
                if ok and isinstance(kk, str):
                    pres[kk] = (ast.dump(val), val)
            states.append(KeyState(pres, frozenset()))
        else:
            return None
    if not states:
        return None
    return _join_keys(states)


def must_keys(ctx, func, var, sink_call, initial_unknown=True, at_node=None, depth=0):
    """State of dict variable `var` immediately before `sink_call` is invoked (or on
    entry to `at_node`)."""
    cfg = ctx.cfg(func)
    cur = [None]

    def keyfold(e):
        ok, v = ctx.try_fold(func, e)
        return v if ok and isinstance(v, str) else None

    def apply_call(st, c):
        if c is sink_call:
            return st
        f = c.func
        if isinstance(f, ast.Attribute) and isinstance(f.value, ast.Name) and f.value.id == var:
            if f.attr == "pop" and c.args:
                k = keyfold(c.args[0])
                if k is None:
                    return KeyState({}, frozenset())
                st = st.copy()
                st.present.pop(k, None)
                st.absent = st.absent | {k}
                return st
            if f.attr == "update":
                st = st.copy()
                if len(c.args) == 1 and not c.keywords:
                    a = c.args[0]
                    lit = None
                    if isinstance(a, ast.Dict):
                        lit = (func, a)
                    elif isinstance(a, ast.Attribute) and isinstance(a.value, ast.Name) and a.value.id == "self" and func.cls:
                        lit = dict_attr_literal(ctx, func.cls, a.attr)
                    if lit is None and isinstance(a, ast.Name) and a.id != var and depth < 2 and cur[0] is not None:
                        # update from another local dictionary: whatever that one certainly holds at this point
                        sub = must_keys(ctx, func, a.id, None, at_node=cur[0], depth=depth + 1)
                        if sub is not None and sub.present:
                            for kv, vv in sub.present.items():
                                st.present[kv] = vv
                                st.absent = st.absent - {kv}
                            return st
                    if lit is not None:
                        for k, v in zip(lit[1].keys, lit[1].values):
                            ok, kv = ctx.try_fold(lit[0], k)
                            if ok and isinstance(kv, str):
                                st.present[kv] = (ast.dump(v), v)
                                st.absent = st.absent - {kv}
                            else:
                                return KeyState({}, frozenset())
                        return st
                return KeyState({}, frozenset())
            if f.attr in ("clear", "popitem", "setdefault", "__setitem__", "__delitem__"):
                return KeyState({}, frozenset())
            return st
        # var escapes into another call: assume it may be mutated
        for a in list(c.args) + [k.value for k in c.keywords]:
            if isinstance(a, ast.Name) and a.id == var:
                return KeyState({}, frozenset())
            if isinstance(a, ast.Starred) and isinstance(a.value, ast.Name) and a.value.id == var:
                return st
        return st

    def transfer(n, st, lab):
        if lab == "exc":
            return st  # conservative: state before the node's effects is a subset anyway
        st2 = st
        cur[0] = n
        for c, _m in calls_in_node(n):
            st2 = apply_call(st2, c)
        s = n.ast
        if n.kind == "stmt" and isinstance(s, ast.Assign):
            for t in s.targets:
                if isinstance(t, ast.Subscript) and isinstance(t.value, ast.Name) and t.value.id == var:
                    k = keyfold(t.slice)
                    st2 = st2.copy()
                    if k is None:
                        st2 = KeyState({}, frozenset())
                    else:
                        st2.present[k] = (ast.dump(s.value), s.value)
                        st2.absent = st2.absent - {k}
                elif isinstance(t, ast.Name) and t.id == var:
                    if isinstance(s.value, ast.Dict) and all(k is not None for k in s.value.keys):
                        pres = {}
                        okall = True
                        for k, v in zip(s.value.keys, s.value.values):
                            kk = keyfold(k)
                            if kk is None:
                                okall = False
                            else:
                                pres[kk] = (ast.dump(v), v)
                        st2 = KeyState(pres if okall else {}, frozenset())
                    elif isinstance(s.value, ast.Call) and isinstance(s.value.func, ast.Name) and s.value.func.id == "dict" \
                            and not s.value.args:
                        pres = {}
                        for kw in s.value.keywords:
                            if kw.arg:
                                pres[kw.arg] = (ast.dump(kw.value), kw.value)
                        st2 = KeyState(pres, frozenset())
                    elif isinstance(s.value, ast.Name) and s.value.id != var and depth < 2:
                        sub = must_keys(ctx, func, s.value.id, None, at_node=n, depth=depth + 1)
                        st2 = KeyState(dict(sub.present), frozenset()) if sub is not None else KeyState({}, frozenset())
                    else:
                        st2 = KeyState({}, frozenset())
                        if isinstance(s.value, ast.Call):
                            tg = [g for g in ctx.targets(func, s.value)]
                            if len(tg) == 1 and tg[0] is not func:
                                rk = returned_keys(ctx, tg[0], depth)
                                if rk is not None:
                                    st2 = KeyState(rk.present, frozenset())
        elif n.kind == "stmt" and isinstance(s, ast.Delete):
            for t in s.targets:
                if isinstance(t, ast.Subscript) and isinstance(t.value, ast.Name) and t.value.id == var:
                    st2 = KeyState({}, frozenset())
        elif n.kind == "stmt" and isinstance(s, ast.AugAssign):
            if isinstance(s.target, ast.Name) and s.target.id == var:
                st2 = KeyState({}, frozenset())
        return st2

    IN = forward(cfg, KeyState({}, frozenset()), transfer, _join_keys)
    if at_node is not None:
        return IN.get(at_node)
    # locate sink node
    for n in cfg.live:
        for c, _m in calls_in_node(n):
            if c is sink_call:
                st = IN[n]
                if st is None:
                    return None
                for c2, _m2 in calls_in_node(n):
                    if c2 is sink_call:
                        break
                    st = apply_call(st, c2)
                return st
    return None


# ---------------------------------------------------------------------------
# misc

def param_unrebound(func, name):
    return name in func.params and not stores_to_name(func, name)


def returns_of(cfg):
    return [n for n in cfg.live if n.kind == "return"]


def node_of_call(cfg, call):
    for n in cfg.live:
        for c, m in calls_in_node(n):
            if c is call:
                return n, m
    return None, None


def is_self_attr(e, attr=None):
    return isinstance(e, ast.Attribute) and isinstance(e.value, ast.Name) and e.value.id == "self" and (attr is None or e.attr == attr)


def const_value(ctx, scope, e):
    ok, v = ctx.try_fold(scope, e)
    return v if ok else None


# ---------------------------------------------------------------------------
# constant propagation of `name = <constant>` to prune infeasible branch edges

_TOP = ("top",)


def _surely_not_none(e):
    if isinstance(e, (ast.JoinedStr, ast.List, ast.Dict, ast.Tuple, ast.Set, ast.ListComp, ast.DictComp)):
        return True
    if isinstance(e, ast.BinOp) and isinstance(e.op, (ast.Mod, ast.Add)) and (isinstance(e.left, ast.Constant) and isinstance(e.left.value, str)):
        return True
    if isinstance(e, ast.Call):
        if isinstance(e.func, ast.Attribute) and e.func.attr in ("format", "join", "copy", "encode", "decode"):
            return True
        if isinstance(e.func, ast.Name) and e.func.id in ("str", "repr", "list", "dict", "tuple", "set", "int", "float", "bool", "len"):
            return True
    return False


def infeasible_edges(cfg, func, avoid_edges=(), start=None):
    """Branch out-edges (test node, label) that cannot be taken because the tested local
    name certainly holds a known constant there (e.g. `x = None ... if x:`)."""
    def transfer(n, st, lab):
        if lab == "exc":
            return st
        s = n.ast
        new = None
        if n.kind in ("stmt",) and isinstance(s, ast.Assign):
            new = dict(st)
            for t in s.targets:
                for nm in [x for x in ast.walk(t) if isinstance(x, ast.Name)]:
                    if isinstance(t, ast.Name) and isinstance(s.value, ast.Constant):
                        new[nm.id] = ("c", s.value.value)
                    elif isinstance(t, ast.Name) and isinstance(s.value, (ast.List, ast.Tuple, ast.Dict, ast.Set)) and not getattr(s.value, "elts", getattr(s.value, "keys", None)):
                        new[nm.id] = ("c", ())  # an empty container: falsy, iterating it runs no body
                    elif isinstance(t, ast.Name) and _surely_not_none(s.value):
                        new[nm.id] = ("notnone",)
                    elif isinstance(t, ast.Name):
                        new[nm.id] = _TOP
                    elif isinstance(t, (ast.Tuple, ast.List)):
                        new[nm.id] = _TOP
        elif n.kind in ("stmt",) and isinstance(s, (ast.AugAssign, ast.AnnAssign)) and isinstance(s.target, ast.Name):
            new = dict(st)
            new[s.target.id] = _TOP
        elif n.kind in ("for_next",):
            new = dict(st)
            for nm in [x for x in ast.walk(s.target) if isinstance(x, ast.Name)]:
                new[nm.id] = _TOP
        elif n.kind == "with_enter" and n.info["item"].optional_vars is not None:
            new = dict(st)
            for nm in [x for x in ast.walk(n.info["item"].optional_vars) if isinstance(x, ast.Name)]:
                new[nm.id] = _TOP
        elif n.kind == "handler" and s.name:
            new = dict(st)
            new[s.name] = _TOP
        if new is None:
            return st
        return tuple(sorted(new.items(), key=lambda kv: kv[0]))

    def join(states):
        a = dict(states[0])
        for b in states[1:]:
            b = dict(b)
            for k in set(a) | set(b):
                if a.get(k, _TOP) != b.get(k, _TOP):
                    a[k] = _TOP
        return tuple(sorted(a.items(), key=lambda kv: kv[0]))

    def tr(n, st, lab):
        r = transfer(n, dict(st), lab)
        return r if isinstance(r, tuple) else tuple(sorted(r.items()))
    IN = forward(cfg, tuple(), tr, join, avoid_edges=set(avoid_edges), start=start)
    out = set()
    for t in cfg.live:
        if t.kind == "for_iter" and IN.get(t) is not None and isinstance(t.ast.iter, ast.Name):
            v = dict(IN[t]).get(t.ast.iter.id)
            if v is not None and v != _TOP and v[0] == "c" and v[1] in ((), None):
                for s_, l in t.succ:
                    if s_.kind == "for_next":
                        out.add((s_, "body"))
        if t.kind != "test" or IN.get(t) is None:
            continue
        st = dict(IN[t])
        e = t.exprs[0]
        val = None

        def known(nm):
            v = st.get(nm)
            return v if (v is not None and v != _TOP and v[0] == "c") else None

        def notnone(nm):
            v = st.get(nm)
            return v is not None and v != _TOP and (v[0] == "notnone" or (v[0] == "c" and v[1] is not None))
        if isinstance(e, ast.Compare) and len(e.ops) == 1 and isinstance(e.left, ast.Name) and notnone(e.left.id) and not known(e.left.id) \
                and isinstance(e.comparators[0], ast.Constant) and e.comparators[0].value is None and isinstance(e.ops[0], (ast.Is, ast.IsNot)):
            val = isinstance(e.ops[0], ast.IsNot)
        elif isinstance(e, ast.Name) and known(e.id):
            val = bool(known(e.id)[1])
        elif isinstance(e, ast.UnaryOp) and isinstance(e.op, ast.Not) and isinstance(e.operand, ast.Name) and known(e.operand.id):
            val = not bool(known(e.operand.id)[1])
        elif isinstance(e, ast.Compare) and len(e.ops) == 1 and isinstance(e.left, ast.Name) and known(e.left.id) \
                and isinstance(e.comparators[0], ast.Constant) and isinstance(e.ops[0], (ast.Is, ast.IsNot)):
            same = known(e.left.id)[1] is e.comparators[0].value
            val = same if isinstance(e.ops[0], ast.Is) else (not same)
        if val is True:
            out.add((t, "false"))
        elif val is False:
            out.add((t, "true"))
    return out


# ---------------------------------------------------------------------------
# forwarding completeness: every parameter of an API forwarding function is used on every path

# (module, qualname) -> {parameter: reason it may stay unused on some path}
FORWARDERS = {
    ("_action", "start_action"): {},
    ("_action", "startTask"): {},
    ("_action", "Action.child"): {},
    ("_action", "Action.continue_task"): {"task_id": "tested against the not-supplied sentinel first", "cls": "classmethod receiver"},
    ("_action", "Action.__init__"): {},
    ("_action", "Action.run"): {},
    ("_action", "Action.finish"): {"exception": "the already-finished early return ignores it (C03.truthful covers its use)"},
    ("_action", "Action.log"): {},
    ("_action", "log_message"): {},
    ("_validation", "ActionType.__call__"): {},
    ("_validation", "ActionType.as_task"): {},
    ("_validation", "MessageType.log"): {},
    ("_validation", "MessageType.__call__"): {},
    ("_message", "Message.write"): {"logger": "documented: not used when an action is given"},
    ("_message", "Message.__init__"): {},
    ("_output", "to_file"): {},
    ("_output", "Logger.write"): {},
    ("_output", "MemoryLogger.write"): {},
    ("_output", "Destinations.send"): {"logger": "only used when a delivery failed (report)"},
    ("_output", "Destinations.add"): {},
    ("_output", "Destinations.remove"): {},
    ("_output", "FileDestination.__call__"): {},
    ("_traceback", "write_traceback"): {},
    ("_traceback", "_writeTracebackMessage"): {},
    ("_traceback", "writeFailure"): {},
}


def rule_forwarding(chk, prefix, keys=None):
    """On every path from entry to a normal return, every parameter is referenced (directly
    or by a closure defined on that path): an argument silently dropped on one arm is how a
    typed action becomes untyped, a report loses its logger, a json_default is ignored."""
    ctx = chk.ctx
    n = 0
    for (mod, qual), allowed in sorted(FORWARDERS.items()):
        if keys is not None and (mod, qual) not in keys:
            continue
        f = ctx.func(mod, qual)
        cfg = ctx.cfg(f)
        n += 1
        params = [p for p in f.params if p not in ("self",) and p not in allowed]
        missing = []
        for pn in params:
            users = []
            for nd in cfg.live:
                names = set()
                for e in nd.exprs:
                    for x in ast.walk(e):
                        if isinstance(x, ast.Name) and x.id == pn:
                            names.add(pn)
                if nd.kind == "def" and any(isinstance(x, ast.Name) and x.id == pn for x in ast.walk(nd.ast)):
                    names.add(pn)
                if nd.kind in ("with_enter",) and any(isinstance(x, ast.Name) and x.id == pn for x in ast.walk(nd.info["item"].context_expr)):
                    names.add(pn)
                if nd.kind == "for_iter" and any(isinstance(x, ast.Name) and x.id == pn for x in ast.walk(nd.ast.iter)):
                    names.add(pn)
                if names:
                    users.append(nd)
            ok, wit = cfg.must_pass([cfg.entry], [cfg.exit], users, skip_labels=())
            if not ok:
                # a path that raises on purpose (argument check) does not count: only normal returns do
                missing.append((pn, cfg.fmt_path(wit)))
        chk.req(not missing, "%s.forward" % prefix, "%s:every-parameter-used-on-every-path" % f.fq, chk.where(f),
                good="parameters %s are all referenced on every path to a normal return" % params,
                fail=lambda: "; ".join("parameter %r is dropped on the path %s" % (pn, w[:300]) for pn, w in missing), sites=len(params))
    return n


# ---------------------------------------------------------------------------
# per-instance state and definition-time defaults

MUTATORS = {"append", "extend", "update", "pop", "popitem", "clear", "setdefault", "insert", "remove", "add", "discard", "appendleft", "sort"}

# (module, class) -> {attribute: reason it is deliberately shared / not created in __init__}
SHARED_BY_DESIGN = {
    ("_output", "Logger"): {"_destinations": "the one process-wide Destinations registry (documented)"},
}


def _fresh_container(e):
    """Expression that creates a new, unshared container / object at evaluation time."""
    if isinstance(e, (ast.Dict, ast.List, ast.Set, ast.ListComp, ast.DictComp, ast.SetComp)):
        return True
    if isinstance(e, ast.Call):
        if isinstance(e.func, ast.Attribute) and e.func.attr in ("copy", "deepcopy"):
            return True
        if isinstance(e.func, ast.Name) and e.func.id in ("dict", "list", "set", "deque", "OrderedDict", "defaultdict", "SimpleQueue", "Queue", "Lock", "RLock",
                                                           "WeakKeyDictionary", "BufferingDestination", "Destinations"):
            return True
    if isinstance(e, ast.Call) and unparse(e.func).split(".")[-1] == "ChainMap" and not e.keywords:
        # stores into a ChainMap go to its FIRST mapping only: it is a private scratch layer exactly when that mapping is fresh
        return not e.args or _fresh_container(e.args[0])
    if isinstance(e, ast.BinOp) and isinstance(e.op, ast.Add):
        return True
    return False


def rule_instance_state(chk, prefix, classes):
    """Every attribute that methods mutate in place through `self` is created per instance:
    assigned in __init__ (or a method __init__ calls) from a fresh container, never only
    defined at class level and never bound to a parameter's object without a copy."""
    ctx = chk.ctx
    for mod, cname in classes:
        cls = ctx.cls(mod, cname)
        allowed = SHARED_BY_DESIGN.get((mod, cname), {})
        mutated = {}
        for m in set(cls.methods.values()):
            for n in ast.walk(m.node):
                a = None
                if isinstance(n, ast.Call) and isinstance(n.func, ast.Attribute) and n.func.attr in MUTATORS and is_self_attr(n.func.value):
                    a = n.func.value.attr
                elif isinstance(n, (ast.Assign, ast.AugAssign, ast.Delete)):
                    tg = n.targets if not isinstance(n, ast.AugAssign) else [n.target]
                    for t in tg:
                        if isinstance(t, ast.Subscript) and is_self_attr(t.value):
                            a = t.value.attr
                if a:
                    mutated.setdefault(a, []).append(m)
        init = cls.find_method("__init__")
        inits = [init] if init is not None else []
        if init is not None:
            for s in ctx.cg.sites.get(init, []):
                for t in s.repo_targets():
                    if t.cls is cls:
                        inits.append(t)
        for a in sorted(mutated):
            if a in allowed:
                continue
            creations = []
            for m in inits:
                for n in iter_own_nodes(m.node):
                    if isinstance(n, ast.Assign) and any(is_self_attr(t, a) for t in n.targets):
                        creations.append((m, n))
            class_level = a in cls.attrs
            fresh = bool(creations) and all(_fresh_container(n.value) for m, n in creations)
            # on every path of __init__ (so that no instance falls back to a class-level / stale object)
            covered = False
            if init is not None and creations:
                icfg = ctx.cfg(init)
                nodes = [x for x in icfg.live if any(x.ast is n for m, n in creations if m is init)]
                nodes += [x for x in icfg.live for c, mm in calls_in_node(x) if any(t in [m for m, n in creations if m is not init] for t in ctx.targets(init, c))]
                covered = bool(nodes) and icfg.must_pass([icfg.entry], [icfg.exit], nodes)[0]
            chk.req(fresh and covered, "%s.state" % prefix, "%s.%s:per-instance-fresh-container" % (cname, a), chk.where(cls),
                    good="created fresh in __init__ on every path; mutated in place by %s" % sorted({m.name for m in mutated[a]}),
                    fail="self.%s is mutated in place by %s but is %s: state is shared between instances (or with the caller's object) and leaks from one use to the next"
                         % (a, sorted({m.name for m in mutated[a]}),
                            "only a class-level attribute" if (class_level and not creations) else
                            ("not created in __init__" if not creations else
                             ("bound to %s, not a fresh container" % [unparse(n.value)[:40] for m, n in creations if not _fresh_container(n.value)] if not fresh else
                              "not created on every path of __init__"))))


IMMUTABLE_DEFAULT_CALLS = {"pvector", "pmap", "pset", "object", "frozenset", "tuple"}


def rule_defaults(chk, prefix, modules=None):
    """No parameter default is a mutable literal or a call evaluated once at definition time
    (a timestamp, a uuid, a list or dict shared by every call)."""
    ctx = chk.ctx
    n = 0
    bad = []
    for f in ctx.p.all_funcs():
        if modules is not None and f.module.short not in modules:
            continue
        a = f.node.args
        for d in list(a.defaults) + [k for k in a.kw_defaults if k is not None]:
            n += 1
            if isinstance(d, (ast.List, ast.Dict, ast.Set, ast.ListComp, ast.DictComp)):
                bad.append((f, d, "a mutable literal"))
            elif isinstance(d, ast.Call):
                name = unparse(d.func).split(".")[-1]
                if name not in IMMUTABLE_DEFAULT_CALLS:
                    bad.append((f, d, "a call evaluated once, when the function is defined"))
    for f, d, why in bad:
        chk.bad("%s.state" % prefix, "%s:default-%s" % (f.fq, unparse(d)[:30]), chk.where(f, d.lineno),
                "parameter default `%s` is %s: every call shares it" % (unparse(d)[:50], why))
    if not bad:
        chk.ok("%s.state" % prefix, "production-functions:no-shared-defaults", "eliot/", "%d parameter defaults examined; none is a mutable literal or a definition-time call" % n, sites=n)


# ---------------------------------------------------------------------------
# memoisation

MEMO_DECORATORS = {"lru_cache", "cache", "cached_property", "memoize", "memoized", "cachedproperty", "cached"}
PROPERTY_MODULES = {
    "C01": None, "C07": None,
    "C02": ("_action", "_message", "_output", "_errors"), "C03": ("_action", "_errors", "_util", "_traceback", "_generators"),
    "C04": ("_action",), "C05": ("_action",), "C06": ("_action", "parse", "_message"), "C08": ("_output", "_action"),
    "C09": ("parse", "_action", "_message"), "C10": ("_output", "json"), "C11": ("_output", "json", "parse", "_action", "_message"),
    "C12": ("_output",), "C13": ("_validation", "_output", "_message", "_action"), "C14": ("_validation", "_output", "testing"),
    "C15": ("_generators",), "C16": ("_output",), "C17": ("testing",), "C18": ("_action",), "C19": ("logwriter",), "C20": ("prettyprint", "filter"),
}


def rule_no_memo(chk):
    """No function of the modules this property depends on is memoised: a cached lookup /
    rendering / current-action answer goes stale (state carried across calls)."""
    ctx = chk.ctx
    mods = PROPERTY_MODULES.get(chk.pid)
    n = 0
    bad = []
    for f in ctx.p.all_funcs():
        if mods is not None and f.module.short not in mods:
            continue
        for d in f.decorators:
            n += 1
            name = unparse(d.func if isinstance(d, ast.Call) else d).split(".")[-1]
            if name in MEMO_DECORATORS:
                bad.append((f, name))
    # the call form: `_render = lru_cache(maxsize=...)(_render_value)` / `cache(f)`
    for m in ctx.p.modules.values():
        if mods is not None and m.short not in mods:
            continue
        for x in ast.walk(m.tree):
            if isinstance(x, ast.Call) and len(x.args) == 1 and isinstance(x.args[0], (ast.Name, ast.Attribute, ast.Lambda)) and not x.keywords:
                fn_ = x.func.func if isinstance(x.func, ast.Call) else x.func
                name = unparse(fn_).split(".")[-1]
                if name in MEMO_DECORATORS and (isinstance(x.func, ast.Call) or name != "cached"):
                    n += 1
                    chk.bad("%s.state" % chk.pid, "%s:%s:memoised" % (m.short, unparse(x.args[0])[:40]), "%s:%d" % (m.relpath, x.lineno),
                            "%s wraps %s in a cache keyed by argument equality: results are remembered across calls, and arguments that compare equal but render / behave differently "
                            "(True, 1 and 1.0; 0.0 and -0.0) share one entry" % (unparse(x.func)[:40], unparse(x.args[0])[:40]))
                    bad.append((None, name))
    for f, name in bad:
        if f is None:
            continue
        chk.bad("%s.state" % chk.pid, "%s:memoised" % f.fq, chk.where(f),
                "%s is decorated with @%s: its result is remembered across calls and goes stale when the state it depends on (registry, context, fields, time) changes" % (f.fq, name))
    if not bad:
        chk.ok("%s.state" % chk.pid, "no-memoised-function", "eliot/", "%d decorators examined in the modules this property depends on; none memoises" % n, sites=max(n, 1))


# ---------------------------------------------------------------------------
# statelessness of lookup / conversion / formatting functions

STATELESS = {
    "C02": [("_action", "TaskLevel.child"), ("_action", "TaskLevel.next_sibling"), ("_action", "TaskLevel.parent"), ("_action", "TaskLevel.as_list"),
            ("_action", "TaskLevel.toString"), ("_action", "TaskLevel.fromString"), ("_action", "current_action")],
    "C03": [("_errors", "ErrorExtraction.get_fields_for_exception"), ("_util", "safeunicode"), ("_util", "saferepr"), ("_action", "current_action")],
    "C04": [("_action", "current_action")],
    "C05": [("_action", "current_action")],
    "C06": [("_action", "TaskLevel.toString"), ("_action", "TaskLevel.fromString"), ("_action", "Action.continue_task")],
    "C07": [("_util", "safeunicode"), ("_util", "saferepr"), ("_output", "_safe_unicode_dictionary"), ("json", "json_default")],
    "C08": [("_output", "_safe_unicode_dictionary"), ("_output", "Destinations.send")],
    "C09": [("_action", "TaskLevel.parent"), ("_action", "TaskLevel.__eq__"), ("_action", "TaskLevel.__hash__"), ("parse", "Task.is_complete")],
    "C10": [("json", "json_default"), ("json", "_dumps_unicode"), ("_output", "FileDestination.__call__")],
    "C11": [("_output", "FileDestination.__call__"), ("_output", "Logger.write"), ("_output", "Destinations.send")],
    "C13": [("_validation", "Field.serialize"), ("_validation", "Field.validate"), ("_validation", "_MessageSerializer.serialize"), ("_output", "Logger.write")],
    "C14": [("_validation", "Field.validate"), ("_validation", "_MessageSerializer.validate"), ("testing", "check_for_errors")],
    "C17": [("testing", "LoggedAction.of_type"), ("testing", "LoggedMessage.of_type"), ("testing", "LoggedAction.fromMessages"), ("testing", "LoggedAction.descendants"),
            ("testing", "LoggedAction.type_tree"), ("testing", "assertContainsFields")],
    "C18": [("_action", "log_call.logging_wrapper")],
    "C20": [("prettyprint", "pretty_format"), ("prettyprint", "compact_format"), ("prettyprint", "_render_timestamp"), ("filter", "EliotFilter._evaluate")],
}
STATELESS["C01"] = sorted(set(STATELESS["C02"] + STATELESS["C09"] + STATELESS["C10"] + STATELESS["C13"]))


def rule_stateless(chk):
    """The lookup / conversion / formatting functions this property relies on keep no state:
    no store into self.*, class or module state, no global/nonlocal, no mutation of a
    module-level container (a hidden cache makes the answer depend on earlier calls)."""
    ctx = chk.ctx
    for mod, qual in STATELESS.get(chk.pid, []):
        try:
            f = ctx.func(mod, qual)
        except AnalysisError:
            continue
        offenders = []
        funcs = [f] + [g for g in f.module.funcs.values() if g.qualname.startswith(f.qualname + ".")]
        for g in funcs:
            for n in iter_own_nodes(g.node):
                if isinstance(n, (ast.Global, ast.Nonlocal)) and g is f:
                    offenders.append("%s %s" % (type(n).__name__.lower(), ",".join(n.names)))
                if isinstance(n, (ast.Assign, ast.AugAssign, ast.AnnAssign)):
                    tg = n.targets if isinstance(n, ast.Assign) else [n.target]
                    for t in tg:
                        b = t.value if isinstance(t, ast.Subscript) else t
                        if isinstance(b, ast.Attribute) and isinstance(b.value, ast.Name) and b.value.id in ("self", "cls", "klass"):
                            offenders.append(unparse(t)[:40])
                        elif isinstance(b, (ast.Name, ast.Attribute)) and isinstance(t, ast.Subscript):
                            r = ctx.p.resolve_expr_static(g.module, g, b)
                            if r and r[0] in ("modvar", "classattr"):
                                offenders.append(unparse(t)[:40])
                if isinstance(n, ast.Call) and isinstance(n.func, ast.Attribute) and n.func.attr in MUTATORS:
                    b = n.func.value
                    if isinstance(b, ast.Attribute) and isinstance(b.value, ast.Name) and b.value.id in ("self", "cls"):
                        offenders.append(unparse(n)[:40])
                    elif isinstance(b, (ast.Name, ast.Attribute)):
                        r = ctx.p.resolve_expr_static(g.module, g, b)
                        if r and r[0] in ("modvar", "classattr"):
                            offenders.append(unparse(n)[:40])
        chk.req(not offenders, "%s.state" % chk.pid, "%s:stateless" % f.fq, chk.where(f), good="keeps no state between calls",
                fail="%s now keeps state between calls (%s): its answer can depend on earlier calls (stale cache, cross-talk between threads)" % (f.fq, offenders[:3]))


def dict_layers(e):
    """The value of a dict-building expression as an ordered list of layers, later layers overriding earlier ones:
    ("key", key-expr, value-expr) for one item, ("src", expr) for everything taken from another mapping.
    None when the expression is not a recognised dict construction (a bare call / name is one "src" layer)."""
    if isinstance(e, ast.Dict):
        out = []
        for k, v in zip(e.keys, e.values):
            if k is None:
                sub = dict_layers(v)
                out += sub if sub is not None else [("src", v)]
            else:
                out.append(("key", k, v))
        return out
    if isinstance(e, ast.Call) and isinstance(e.func, ast.Name) and e.func.id == "dict":
        out = []
        if len(e.args) > 1:
            return None
        for a in e.args:
            sub = dict_layers(a)
            out += sub if sub is not None else [("src", a)]
        for k in e.keywords:
            if k.arg is None:
                sub = dict_layers(k.value)
                out += sub if sub is not None else [("src", k.value)]
            else:
                out.append(("key", ast.copy_location(ast.Constant(value=k.arg), k.value), k.value))
        return out
    if isinstance(e, ast.Call) and isinstance(e.func, ast.Attribute) and e.func.attr == "copy" and not e.args and not e.keywords:
        return [("src", e.func.value)]
    if isinstance(e, ast.BinOp) and isinstance(e.op, ast.BitOr):
        a, b = dict_layers(e.left), dict_layers(e.right)
        return (a if a is not None else [("src", e.left)]) + (b if b is not None else [("src", e.right)])
    if isinstance(e, (ast.Call, ast.Name, ast.Attribute)):
        return [("src", e)]
    return None


def dict_events(func, cfg, var):
    """[(cfg node, layers, rebinding?)] for every statement that builds or extends the dict held in local `var`:
    `var = <dict construction>`, `var[k] = v`, `var.update(...)`, `var |= ...`.  Any other statement that stores to or
    calls a mutating method on `var` makes the shape unmodelled (AnalysisError)."""
    out = []
    for n in cfg.live:
        a = n.ast
        if isinstance(a, ast.Assign) and n.kind not in ("test",):
            for t in a.targets:
                if isinstance(t, ast.Name) and t.id == var:
                    lay = dict_layers(a.value)
                    if lay is None:
                        raise AnalysisError("%s: `%s` is bound to %s, not a recognised dict construction" % (func.fq, var, unparse(a.value)[:60]))
                    out.append((n, lay, True))
                elif isinstance(t, ast.Subscript) and isinstance(t.value, ast.Name) and t.value.id == var:
                    out.append((n, [("key", t.slice, a.value)], False))
                elif any(isinstance(x, ast.Name) and x.id == var and isinstance(x.ctx, ast.Store) for x in ast.walk(t)):
                    raise AnalysisError("%s: `%s` is bound by an unpacking assignment" % (func.fq, var))
        elif isinstance(a, ast.AugAssign) and isinstance(a.target, ast.Name) and a.target.id == var:
            if not isinstance(a.op, ast.BitOr):
                raise AnalysisError("%s: `%s` is updated with an operator other than |=" % (func.fq, var))
            lay = dict_layers(a.value)
            out.append((n, lay if lay is not None else [("src", a.value)], False))
        elif isinstance(a, ast.Expr) and isinstance(a.value, ast.Call) and isinstance(a.value.func, ast.Attribute) \
                and isinstance(a.value.func.value, ast.Name) and a.value.func.value.id == var:
            c = a.value
            if c.func.attr == "update":
                lay = []
                for x in c.args:
                    sub = dict_layers(x)
                    lay += sub if sub is not None else [("src", x)]
                for k in c.keywords:
                    if k.arg is None:
                        lay.append(("src", k.value))
                    else:
                        lay.append(("key", ast.copy_location(ast.Constant(value=k.arg), k.value), k.value))
                out.append((n, lay, False))
            elif c.func.attr == "setdefault" and len(c.args) == 2:
                out.append((n, [("default", c.args[0], c.args[1])], False))
            elif c.func.attr in ("pop", "clear", "popitem", "__setitem__", "__delitem__"):
                raise AnalysisError("%s: `%s.%s(...)` is not modelled" % (func.fq, var, c.func.attr))
        elif isinstance(a, ast.Delete) and any(isinstance(x, ast.Name) and x.id == var for t in a.targets for x in ast.walk(t)):
            raise AnalysisError("%s: items of `%s` are deleted" % (func.fq, var))
    return out


def cfg_order(cfg):
    """node -> position in a reverse post-order of the flow graph from its entry (a statement precedes the
    statements it flows into, whatever line numbers normalisation or inlining left on them)."""
    seen, post = set(), []
    stack = [(cfg.entry, iter([s for s, _l in cfg.entry.succ]))]
    seen.add(cfg.entry)
    while stack:
        node, it = stack[-1]
        for nx in it:
            if nx not in seen:
                seen.add(nx)
                stack.append((nx, iter([s for s, _l in nx.succ])))
                break
        else:
            post.append(node)
            stack.pop()
    return {n: i for i, n in enumerate(reversed(post))}
