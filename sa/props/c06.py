"""C06 -- a serialized task id continues the same tree in another thread or process (partial)."""

import ast

from ..index import unparse, iter_own_nodes, AnalysisError
from ..cfg import calls_in_node
from ..framework import stores_to_name, assigned_values
from .. import exprs as X
from . import common

EXPLANATION = (
    "PARTIAL.  Not decided: that merged logs of several processes parse to the expected tree for all merge "
    "orders (parser history property, see C09).  Decided: serialize_task_id reserves exactly one position per "
    "call and builds the id from the action's task_uuid and that level; encoder/decoder agreement of the two "
    "sibling pairs (the uuid/level separator of serialize_task_id equals the literal continue_task splits on; "
    "TaskLevel.toString's join separator equals fromString's split separator, every non-empty segment is "
    "converted with int -- a regex-based decoder is analysed through its regex AST and must match maximal "
    "digit runs); continue_task decodes bytes before splitting and constructs the action from the decoded uuid "
    "and level and starts it once; the preserve_context callable calls f only on the success arm of an atomic "
    "test-and-set on an object created once per preserve_context call (non-blocking Lock.acquire, or a flag "
    "tested and set under one lock) -- a check-then-set flag is a violation; the callable passes arguments, "
    "result and exceptions through unchanged and is f itself without a current action."
    '  preserve_context must return the guarded callable itself (a shared Context entered per call fails before the guard); every raise in TaskLevel.fromString is decided (a literal regular-expression guard is evaluated on witness strings toString produces).'
)
RULE = ("obligation = one codec pair / call site / guard; non-trivial = the expressions or CFG paths of the "
        "site were examined")
ASSUMPTIONS = [
    "merge-order independence of the parser on the combined logs is not decided here (C09)",
    "threading.Lock.acquire(False) is an atomic test-and-set",
]


def _fmt_separator(ctx, func, call):
    """For '<fmt>'.format(a, b) with exactly two placeholders return (sep, a, b)."""
    if not (isinstance(call, ast.Call) and isinstance(call.func, ast.Attribute) and call.func.attr == "format"):
        return None
    ok, fmt = ctx.try_fold(func, call.func.value)
    if not ok or not isinstance(fmt, str) or fmt.count("{}") != 2 or len(call.args) != 2:
        return None
    pre, sep, post = fmt.split("{}")
    if pre or post:
        return None
    return sep, call.args[0], call.args[1]


def rule_reserve_and_codec(chk):
    ctx = chk.ctx
    p = ctx.p
    st = ctx.func("_action", "Action.serialize_task_id")
    ct = ctx.func("_action", "Action.continue_task")
    ntl = ctx.func("_action", "Action._nextTaskLevel")
    ts = ctx.func("_action", "TaskLevel.toString")
    fs = ctx.func("_action", "TaskLevel.fromString")
    UU = p.fold_global(p.mod("_message"), "TASK_UUID_FIELD")
    # --- serialize_task_id
    rets = [n for n in iter_own_nodes(st.node) if isinstance(n, ast.Return)]
    chk.need(len(rets) == 1, "serialize_task_id: single return expected")
    v = rets[0].value
    enc = None
    if isinstance(v, ast.Call) and isinstance(v.func, ast.Attribute) and v.func.attr == "encode":
        enc = v.args[0].value if v.args and isinstance(v.args[0], ast.Constant) else "utf-8"
        v = v.func.value
    fm = _fmt_separator(ctx, st, v)
    problems = []
    sep = None
    if fm is None:
        problems.append("id is not built as '<uuid><sep><level>'.format(...)")
    else:
        sep, a, b = fm
        if not ("_identification" in unparse(a) and ctx.try_fold(st, a.slice if isinstance(a, ast.Subscript) else ast.Constant(value=None)) == (True, UU)):
            problems.append("first component %s is not the action's task_uuid" % unparse(a))
        okb = isinstance(b, ast.Call) and ts in ctx.targets(st, b) and isinstance(b.func, ast.Attribute) and isinstance(b.func.value, ast.Call) \
            and ntl in ctx.targets(st, b.func.value)
        if not okb:
            problems.append("second component %s is not <freshly allocated level>.toString()" % unparse(b))
    chk.req(not problems, "C06.reserve", "Action.serialize_task_id:uuid-and-fresh-level", chk.where(st),
            good="id = task_uuid %r allocated-level.toString(), encoded %s" % (sep, enc), fail="; ".join(problems))
    # --- continue_task
    cfg = ctx.cfg(ct)
    tparam = "task_id"

    idnames = {tparam}

    def from_param(e):
        """the expression is the task id as given, or its decoded form"""
        if isinstance(e, ast.Name) and e.id in idnames:
            return True
        if isinstance(e, ast.Call) and isinstance(e.func, ast.Name) and e.func.id == "bytes" and len(e.args) == 1 and not e.keywords and isinstance(e.args[0], ast.Name) and e.args[0].id in idnames:
            return True   # a bytes-like id (bytearray, memoryview) turned into bytes
        return isinstance(e, ast.Call) and isinstance(e.func, ast.Attribute) and e.func.attr == "decode" and isinstance(e.func.value, ast.Name) and e.func.value.id in idnames
    grew = True
    while grew:
        grew = False
        for n_ in iter_own_nodes(ct.node):
            if isinstance(n_, ast.Assign) and len(n_.targets) == 1 and isinstance(n_.targets[0], ast.Name) and n_.targets[0].id not in idnames:
                nm = n_.targets[0].id
                vals_ = [v for v in assigned_values(ct, nm)]
                self_bytes = lambda v: isinstance(v, ast.Call) and isinstance(v.func, ast.Name) and v.func.id == "bytes" and len(v.args) == 1 and not v.keywords \
                    and isinstance(v.args[0], ast.Name) and v.args[0].id == nm
                if vals_ and all(v is not None and (from_param(v) or self_bytes(v) or (isinstance(v, ast.Call) and isinstance(v.func, ast.Attribute) and v.func.attr == "decode"
                                                                                      and isinstance(v.func.value, ast.Name) and v.func.value.id == nm)) for v in vals_) \
                        and any(from_param(v) for v in vals_):
                    idnames.add(nm)
                    grew = True
    splits = [(n, c) for n in cfg.live for c, m in calls_in_node(n) if isinstance(c.func, ast.Attribute) and c.func.attr in ("split", "rsplit", "partition", "rpartition")
              and isinstance(c.func.value, ast.Name) and c.func.value.id in idnames]
    chk.need(splits, "continue_task no longer splits the task id")
    problems = []
    for n, c in splits:
        okk, lit = ctx.try_fold(ct, c.args[0]) if c.args else (False, None)
        if not okk or lit != sep:
            problems.append("continue_task splits on %r, serialize_task_id joins with %r" % (lit, sep))
    # bytes are decoded first
    decs = [n for n in cfg.live for c, m in calls_in_node(n) if isinstance(c.func, ast.Attribute) and c.func.attr == "decode" and isinstance(c.func.value, ast.Name)
            and c.func.value.id in idnames and isinstance(n.ast, ast.Assign) and isinstance(n.ast.targets[0], ast.Name) and n.ast.targets[0].id in idnames]
    okdec = False
    for d in decs:
        for t, lab in cfg.guards_of(d):
            if t.kind == "test" and any("isinstance(%s, bytes)" % nm_ in unparse(t.exprs[0]) for nm_ in idnames) and lab == "true":
                # every path from the bytes arm to the split passes the decode
                okdec = cfg.must_pass([s for s, l in t.succ if l == "true"], [n for n, c in splits], [d])[0]
        dc = [c for c, m in calls_in_node(d) if isinstance(c.func, ast.Attribute) and c.func.attr == "decode"][0]
        codec = dc.args[0].value if dc.args and isinstance(dc.args[0], ast.Constant) else "utf-8"
        if enc and str(codec).lower().replace("-", "") not in (str(enc).lower().replace("-", ""), "utf8", "ascii"):
            problems.append("id is encoded as %s but decoded as %s" % (enc, codec))
    if not okdec:
        problems.append("a bytes id is not decoded before it is split (bytes and text ids must both be accepted)")
    chk.req(not problems, "C06.codec", "serialize_task_id<->continue_task:separator-and-encoding-agree", chk.where(ct),
            good="split on %r after decoding bytes" % sep, fail="; ".join(problems))
    # the decoded parts are what the action is built from
    init = ctx.func("_action", "Action.__init__")
    ctor = [(n, c) for n in cfg.live for c, m in calls_in_node(n) if init in ctx.targets(ct, c)]
    chk.need(ctor, "continue_task no longer constructs an Action")
    n, c = ctor[0]
    parts = None
    sn, sc = splits[0]
    if isinstance(sn.ast, ast.Assign) and isinstance(sn.ast.targets[0], ast.Tuple) and all(isinstance(e, ast.Name) for e in sn.ast.targets[0].elts):
        parts = [e.id for e in sn.ast.targets[0].elts]
    from .. import exprs as X
    a2 = X.inline(ct, c.args[2]) if len(c.args) >= 3 else None   # `level = TaskLevel.fromString(part)` may be a temporary
    oka = parts is not None and len(parts) == 2 and len(c.args) >= 3 and isinstance(c.args[1], ast.Name) and c.args[1].id == parts[0] \
        and isinstance(a2, ast.Call) and fs in ctx.targets(ct, a2) and len(a2.args) == 1 and isinstance(a2.args[0], ast.Name) \
        and a2.args[0].id == parts[1] and all(len(stores_to_name(ct, x)) == 1 for x in parts)
    chk.req(oka, "C06.codec", "Action.continue_task:continues-at-the-decoded-uuid-and-level", chk.where(ct, c.lineno),
            good="Action(logger, <uuid part>, TaskLevel.fromString(<level part>), ...)",
            fail="the continued action is not built from exactly the uuid and level decoded from the id: %s" % unparse(c)[:90])
    # --- TaskLevel.toString / fromString
    problems = []
    jsep = None
    for x in iter_own_nodes(ts.node):
        if isinstance(x, ast.Call) and isinstance(x.func, ast.Attribute) and x.func.attr == "join":
            okj, jsep = ctx.try_fold(ts, x.func.value)
            a0 = x.args[0] if x.args else None
            if not (isinstance(a0, ast.Call) and unparse(a0) in ("map(str, self._level)",)) and not (isinstance(a0, (ast.GeneratorExp, ast.ListComp)) and "self._level" in unparse(a0) and "str(" in unparse(a0)):
                problems.append("toString does not render every element of the level with str")
    if jsep is None:
        problems.append("toString: join separator not found")
    dec_ok = False
    detail = ""
    fsplits = [x for x in iter_own_nodes(fs.node) if isinstance(x, ast.Call) and isinstance(x.func, ast.Attribute) and x.func.attr == "split"]
    finds = [x for x in iter_own_nodes(fs.node) if isinstance(x, ast.Call) and isinstance(x.func, ast.Attribute) and x.func.attr in ("findall", "finditer")]
    comps = [x for x in iter_own_nodes(fs.node) if isinstance(x, (ast.ListComp, ast.GeneratorExp))]
    if fsplits:
        okk, ssep = ctx.try_fold(fs, fsplits[0].args[0]) if fsplits[0].args else (False, None)
        if not okk or ssep != jsep:
            problems.append("fromString splits on %r, toString joins with %r" % (ssep, jsep))
        if comps:
            comp = comps[0]
            elt_ok = isinstance(comp.elt, ast.Call) and isinstance(comp.elt.func, ast.Name) and comp.elt.func.id == "int" and len(comp.elt.args) == 1
            gen = comp.generators[0]
            src_ok = gen.iter is fsplits[0]
            filt_ok = len(gen.ifs) == 1 and isinstance(gen.ifs[0], ast.Name) and isinstance(gen.target, ast.Name) and gen.ifs[0].id == gen.target.id
            if not (elt_ok and src_ok and filt_ok):
                problems.append("fromString does not convert exactly the non-empty segments with int")
        else:
            problems.append("fromString: per-segment conversion not found")
        dec_ok = True
    elif finds:
        import re._parser as rp
        recv = finds[0].func.value
        pat = None
        if isinstance(recv, (ast.Name, ast.Attribute)):
            r = p.resolve_expr_static(fs.module, fs, recv)
            if r and r[0] == "modvar":
                vals = [v for v in r[1].assigns.get(r[2], []) if isinstance(v, ast.Call)]
                if vals and vals[0].args:
                    okp, pat = ctx.try_fold(r[1], vals[0].args[0])
            elif r and r[0] == "ext" and r[1] == "re" and finds[0].args:
                okp, pat = ctx.try_fold(fs, finds[0].args[0])
        if pat is None:
            raise AnalysisError("fromString: regex of the decoder not resolvable")
        tree = list(rp.parse(pat))
        good_re = len(tree) == 1 and str(tree[0][0]) == "MAX_REPEAT" and tree[0][1][0] >= 1 and str(tree[0][1][1]) == "MAXREPEAT" \
            and [str(op) for op, _ in tree[0][1][2]] == ["IN"]
        if not good_re:
            problems.append("fromString tokenises with the regex %r, which does not match maximal digit runs: positions >= 10 are split into several levels" % pat)
        dec_ok = True
    if not dec_ok:
        raise AnalysisError("TaskLevel.fromString: decoder shape not modelled")
    # fromString may refuse nothing toString can produce: a rejection guarded by a regular expression is decided on witnesses
    import re as _re
    witnesses = ["/", "/1", "/9", "/10", "/2/1", "/1/20/300", "/1234567890/1", "/100"]
    uuid_w = "3f2a4b1c-0d9e-4f6a-8b7c-5d4e3f2a1b0c"
    fs0 = fs
    for fs, fcfg, wit_sets in ((fs0, ctx.cfg(fs0), [witnesses]), (ct, ctx.cfg(ct), [witnesses[1:], ["%s@%s" % (uuid_w, w_) for w_ in witnesses[1:]]])):
      for rn in [n for n in fcfg.live if n.kind == "raise_stmt"]:
          decided = False
          for t, lab in fcfg.guards_of(rn):
              if t.kind != "test":
                  continue
              e, lab2 = X.strip_not(X.inline(fs, t.exprs[0]), lab)
              call, when_none = None, None
              if isinstance(e, ast.Compare) and len(e.ops) == 1 and isinstance(e.comparators[0], ast.Constant) and e.comparators[0].value is None and isinstance(e.left, ast.Call):
                  call = e.left
                  when_none = (lab2 == "true") == isinstance(e.ops[0], (ast.Is, ast.Eq))
              elif isinstance(e, ast.Call):
                  call, when_none = e, lab2 == "false"
              if call is None or not isinstance(call.func, ast.Attribute) or call.func.attr not in ("fullmatch", "match", "search"):
                  continue
              recv = call.func.value
              pat = None
              r = p.resolve_expr_static(fs.module, fs, recv) if isinstance(recv, (ast.Name, ast.Attribute)) else None
              if r and r[0] == "modvar":
                  vals = [v for v in r[1].assigns.get(r[2], []) if isinstance(v, ast.Call)]
                  if vals and vals[0].args:
                      okp, pat = ctx.try_fold(r[1], vals[0].args[0])
              elif r and r[0] == "ext" and r[1] == "re" and call.args:
                  okp, pat = ctx.try_fold(fs, call.args[0])
              if not isinstance(pat, str) or not when_none:
                  continue
              try:
                  rx = _re.compile(pat)
              except _re.error:
                  raise AnalysisError("fromString: the guard's regular expression %r does not compile" % pat)
              refused_sets = [[w for w in ws if getattr(rx, call.func.attr)(w) is None] for ws in wit_sets]
              refused = refused_sets[0] if all(refused_sets) else []
              decided = True
              if refused:
                  problems.append("%s raises unless the string matches %r, which refuses %s: serialized positions toString produces (any index of two or more digits / containing the digit 0, "
                                  "e.g. the 10th child) can no longer be continued" % (fs.name, pat, refused[:4]))
          if not decided and fs is fs0:
              raise AnalysisError("TaskLevel.fromString raises at line %d under a condition the analyser does not model" % rn.lineno)
    fs = fs0
    chk.req(not problems, "C06.codec", "TaskLevel.toString<->fromString:agree", chk.where(fs),
            good="join %r / split %r, int per non-empty segment" % (jsep, jsep), fail="; ".join(problems))


def _pc_callable(chk):
    """(the callable preserve_context returns, the nested function that calls f -- the same one, or one it delegates to through
    `<copied context>.run(<helper>, *args, **kwargs)` --, the returned callable's flow graph, the nodes in it where f gets called)"""
    ctx = chk.ctx
    pc = ctx.func("_action", "preserve_context")
    fparam = pc.params[0]
    inner = [g for g in pc.nested.values() if not g.is_lambda]
    chk.need(inner, "preserve_context: inner callable not found")
    if len(inner) == 1:
        g = inner[0]
        cfg = ctx.cfg(g)
        fcalls = [(n, c) for n in cfg.live for c, m in calls_in_node(n) if isinstance(c.func, ast.Name) and c.func.id == fparam]
        chk.need(fcalls, "preserve_context callable no longer calls f")
        return g, g, cfg, fcalls
    chk.need(len(inner) == 2, "preserve_context: more than two nested functions (not modelled)")
    rets = [X.inline(pc, r.value) for r in iter_own_nodes(pc.node) if isinstance(r, ast.Return) and r.value is not None]
    returned = [g for g in inner if any(isinstance(v, ast.Name) and v.id == g.name for v in rets)]
    chk.need(len(returned) == 1, "preserve_context: which nested function is returned is not clear (not modelled)")
    g = returned[0]
    helper = [h for h in inner if h is not g][0]
    cfg = ctx.cfg(g)
    deleg = []
    for n in cfg.live:
        for c, m in calls_in_node(n):
            if isinstance(c.func, ast.Attribute) and c.func.attr == "run" and c.args and isinstance(c.args[0], ast.Name) and c.args[0].id == helper.name:
                base = X.inline(pc, c.func.value)
                if isinstance(c.func.value, ast.Name):
                    vals_ = [v for v in assigned_values(pc, c.func.value.id) if v is not None]
                    base = vals_[0] if len(vals_) == 1 else base
                if isinstance(base, ast.Call) and unparse(base.func).split(".")[-1] == "copy_context":
                    deleg.append((n, c))
    chk.need(deleg, "preserve_context: the returned callable does not delegate to the other nested function through <copied context>.run (not modelled)")
    hf = [c for n in ctx.cfg(helper).live for c, m in calls_in_node(n) if isinstance(c.func, ast.Name) and c.func.id == fparam]
    chk.need(hf, "preserve_context: the helper run in the copied context does not call f")
    # a guard that sits in the helper is reached only after Context.run has been entered: an overlapping second call fails there first
    hguards = [t for t in ctx.cfg(helper).live if t.kind == "test" and any(isinstance(x, ast.Call) and isinstance(x.func, ast.Attribute) and x.func.attr == "acquire" for x in ast.walk(t.exprs[0]))]
    gguards = [t for t in cfg.live if t.kind == "test" and any(isinstance(x, ast.Call) and isinstance(x.func, ast.Attribute) and x.func.attr == "acquire" for x in ast.walk(t.exprs[0]))]
    if hguards and not gguards:
        chk.bad("C06.once", "preserve_context:single-use-guard-before-the-context-is-entered", chk.where(helper, hguards[0].lineno),
                "the single-use guard sits inside %s, which the returned callable runs through `%s`: every invocation first enters the ONE Context copied by preserve_context, and a Context "
                "that is already entered (an overlapping or re-entrant second call) makes Context.run raise RuntimeError -- the second caller never reaches the guard and gets RuntimeError instead "
                "of TooManyCalls" % (helper.name, unparse(deleg[0][1])[:50]))
        raise AnalysisError("preserve_context: guard inside the delegated helper")
    return g, helper, cfg, deleg


def rule_once(chk):
    ctx = chk.ctx
    pc = ctx.func("_action", "preserve_context")
    g, helper, cfg, fcalls = _pc_callable(chk)
    fparam = pc.params[0]
    where = chk.where(g)
    # candidate guards: tests dominating the call of f
    ok = False
    why = "no guard dominates the call of f: it can run any number of times"
    for n, c in fcalls:
        for t, lab in cfg.guards_of(n):
            if t.kind != "test":
                continue
            e = t.exprs[0]
            inner_e = e.operand if isinstance(e, ast.UnaryOp) and isinstance(e.op, ast.Not) else e
            neg = inner_e is not e
            # (a) non-blocking acquire
            if isinstance(inner_e, ast.Call) and isinstance(inner_e.func, ast.Attribute) and inner_e.func.attr == "acquire" and isinstance(inner_e.func.value, ast.Name):
                nonblocking = (inner_e.args and isinstance(inner_e.args[0], ast.Constant) and inner_e.args[0].value is False) or any(
                    (k.arg == "blocking" and isinstance(k.value, ast.Constant) and k.value.value is False)
                    or (k.arg == "timeout" and isinstance(k.value, ast.Constant) and k.value.value == 0) for k in inner_e.keywords)
                lockname = inner_e.func.value.id
                vals = assigned_values(pc, lockname)
                created_once = len(vals) == 1 and isinstance(vals[0], ast.Call) and any(
                    tt.kind == "ext" and tt.ref in ("threading.Lock", "threading.RLock") for tt in ctx.cg.typer.resolve_call(pc, vals[0]))
                kind = [tt.ref for tt in ctx.cg.typer.resolve_call(pc, vals[0])][0] if created_once else None
                success_arm = (lab == "false") if neg else (lab == "true")
                released = any(isinstance(x, ast.Call) and isinstance(x.func, ast.Attribute) and x.func.attr == "release" and unparse(x.func.value) == lockname
                               for x in ast.walk(g.node))
                fail_arm_raises = True
                other = [s for s, l in t.succ if l == ("true" if neg else "false")]
                r = cfg.reach(other, avoid={n})
                if cfg.exit in r:
                    fail_arm_raises = False
                if not nonblocking:
                    why = "acquire is blocking: a second caller waits instead of failing"
                elif not created_once:
                    why = "the lock %s is not created exactly once per preserve_context call (%s)" % (lockname, [unparse(v) for v in vals if v is not None])
                elif kind == "threading.RLock":
                    why = "an RLock can be re-acquired by the same thread: a second call from that thread runs f again"
                elif not success_arm:
                    why = "f is called on the arm where the acquire failed"
                elif released:
                    why = "the lock is released again, so a later call succeeds"
                elif not fail_arm_raises:
                    why = "the failing arm does not raise"
                else:
                    ok = True
                    why = "non-blocking %s.acquire() (lock created once per preserve_context call, never released) dominates the call of f" % lockname
            # (b) plain flag: check-then-set
            elif isinstance(inner_e, ast.Name) or (isinstance(inner_e, ast.Attribute)):
                flag = unparse(inner_e)
                # is the test + set inside one `with <lock>` region?
                enters = [w for w in cfg.live if w.kind == "with_enter" and cfg.precedes([w], [t])[0]]
                locked_ok = False
                for w_ in enters:
                    ce = w_.info["item"].context_expr
                    if not isinstance(ce, ast.Name):
                        continue
                    vals = assigned_values(pc, ce.id)
                    once = len(vals) == 1 and isinstance(vals[0], ast.Call) and any(
                        tt.kind == "ext" and tt.ref in ("threading.Lock", "threading.RLock") for tt in ctx.cg.typer.resolve_call(pc, vals[0]))
                    exits = [x for x in cfg.live if x.kind == "with_exit" and x.info["item"] is w_.info["item"]]
                    sets = [x for x in cfg.live if isinstance(x.ast, ast.Assign) and unparse(x.ast.targets[0]) == flag
                            and isinstance(x.ast.value, ast.Constant) and bool(x.ast.value.value) != neg]
                    arm = [s_ for s_, l in t.succ if l == (("true" if neg else "false"))]
                    # the flag is set on the success arm before the lock is released
                    if once and exits and sets and cfg.must_pass(arm, exits, sets)[0] and cfg.must_pass(arm, [n], sets)[0]:
                        locked_ok = True
                        why = "flag %s tested and set inside one `with %s:` region (lock created once per preserve_context call)" % (flag, ce.id)
                if locked_ok:
                    ok = True
                    continue
                why = ("single use is enforced by testing the flag `%s` and setting it in a separate statement with no lock held: two threads can both pass the test "
                       "(check-then-set), so f runs twice" % flag)
    if not ok and why.startswith("no guard dominates"):
        opaque = [unparse(X.strip_not(t.exprs[0], lab)[0])[:40] for n, c in fcalls for t, lab in cfg.guards_of(n)
                  if t.kind == "test" and isinstance(X.strip_not(t.exprs[0], lab)[0], ast.Call)]
        if opaque:
            raise AnalysisError("preserve_context: the single-use guard `%s` is a call the analyser does not model (not a direct non-blocking Lock.acquire)" % opaque[0])
    chk.req(ok, "C06.once", "preserve_context:single-use-is-atomic", where, good=why, fail=why, sites=len(cfg.live))
    # the serialized id is consumed only by the one accepted call: a rejected call must not continue the task
    ct_ = ctx.func("_action", "Action.continue_task")
    enters_ = [w_ for w_ in cfg.live if w_.kind == "with_enter" and isinstance(w_.info["item"].context_expr, ast.Call) and ct_ in ctx.targets(g, w_.info["item"].context_expr)]
    enters_ += [n_ for n_ in cfg.live if n_.kind != "with_enter" for c_, m_ in calls_in_node(n_) if ct_ in ctx.targets(g, c_)]
    if helper is not g:
        enters_ += [n_ for n_, c_ in fcalls]   # the task is continued inside the helper the callable delegates to
    guards_ = [t for t in cfg.live if t.kind == "test" and any(isinstance(x, ast.Call) and isinstance(x.func, ast.Attribute) and x.func.attr == "acquire" for x in ast.walk(t.exprs[0]))]
    guards_ += [t for t in cfg.live if t.kind == "test" and any(cfg.edge_dominates(t, l, n_) for n_, c_ in fcalls for l in ("true", "false")) and t not in guards_]
    okorder = bool(enters_) and bool(guards_) and all(cfg.precedes(guards_, [e_])[0] for e_ in enters_)
    chk.req(okorder, "C06.once", "preserve_context:rejected-calls-log-nothing", where,
            good="the single-use guard is passed before the task is continued",
            fail="the task is continued (continue_task) before the single-use guard is checked: every rejected extra call logs a start and a failed end at the one reserved position, colliding with the accepted call's messages")
    # what preserve_context hands out is that guarded callable itself: nothing that can fail or run f sits in front of the guard
    pcfg = ctx.cfg(pc)
    for r in common.returns_of(pcfg):
        v = X.inline(pc, r.ast.value) if r.ast.value is not None else None
        if isinstance(v, ast.Name) and v.id in (fparam, g.name):
            continue
        runs = [x for x in ast.walk(v) if isinstance(x, ast.Attribute) and x.attr == "run"] if v is not None else []
        shared = None
        for x in runs:
            base = X.inline(pc, x.value)
            if isinstance(base, ast.Call) and unparse(base.func).split(".")[-1] == "copy_context":
                shared = x
        if shared is not None and any(isinstance(y, ast.Name) and y.id == g.name for y in ast.walk(v)):
            chk.bad("C06.once", "preserve_context:returns-the-guarded-callable", chk.where(pc, r.lineno),
                    "the callable handed out is %s: every invocation enters the one Context copied when preserve_context was called, and a Context that is already entered "
                    "(an overlapping or re-entrant second call) makes Context.run raise RuntimeError before the single-use guard is reached, instead of TooManyCalls" % unparse(r.ast.value)[:80])
            continue
        raise AnalysisError("preserve_context returns %s (not the guarded callable itself; not modelled)" % (unparse(r.ast.value)[:60] if r.ast.value is not None else None))
    if not any(o.rule == "C06.once" and o.construct == "preserve_context:returns-the-guarded-callable" for o in chk.obs):
        chk.ok("C06.once", "preserve_context:returns-the-guarded-callable", chk.where(pc), "every return of preserve_context is f itself (no current action) or the guarded callable")
    # TooManyCalls on the failing arm
    raises = [n for n in cfg.live if n.kind == "raise_stmt" and "TooManyCalls" in unparse(n.ast)]
    chk.req(bool(raises), "C06.once", "preserve_context:later-calls-raise-TooManyCalls", where, good="raise TooManyCalls on the failing arm",
            fail="no TooManyCalls is raised for a repeated call")


def rule_transparent(chk):
    ctx = chk.ctx
    pc = ctx.func("_action", "preserve_context")
    outer_g, g, outer_cfg, deleg_ = _pc_callable(chk)
    cfg = ctx.cfg(g)
    if outer_g is not g:
        # the returned callable hands its arguments on unchanged and returns what the helper returns
        bad_ = []
        for r_ in common.returns_of(outer_cfg):
            v_ = r_.ast.value
            okd_ = any(v_ is c_ for n_, c_ in deleg_) and len(v_.args) == 2 and isinstance(v_.args[1], ast.Starred) and outer_g.node.args.vararg is not None \
                and unparse(v_.args[1].value) == outer_g.node.args.vararg.arg and len(v_.keywords) == 1 and v_.keywords[0].arg is None and outer_g.node.args.kwarg is not None \
                and unparse(v_.keywords[0].value) == outer_g.node.args.kwarg.arg
            if not okd_:
                bad_.append(unparse(v_)[:50] if v_ is not None else "None")
        chk.req(not bad_, "C06.transparent", "preserve_context:delegation-is-transparent", chk.where(outer_g), good="return <context>.run(<helper>, *args, **kwargs)",
                fail="the returned callable returns %s, not the helper's result for the unchanged arguments" % bad_)
    ca = ctx.func("_action", "current_action")
    ct = ctx.func("_action", "Action.continue_task")
    sti = ctx.func("_action", "Action.serialize_task_id")
    fparam = pc.params[0]
    problems = []
    va, kw = g.node.args.vararg, g.node.args.kwarg
    rets = common.returns_of(cfg)
    for r in rets:
        v = r.ast.value
        okc = isinstance(v, ast.Call) and isinstance(v.func, ast.Name) and v.func.id == fparam and va and kw \
            and len(v.args) == 1 and isinstance(v.args[0], ast.Starred) and unparse(v.args[0].value) == va.arg \
            and len(v.keywords) == 1 and v.keywords[0].arg is None and unparse(v.keywords[0].value) == kw.arg
        if not okc:
            problems.append("returns %s instead of f(*args, **kwargs)" % (v is not None and unparse(v)))
    if not rets:
        problems.append("the callable does not return f's result")
    if va and stores_to_name(g, va.arg) or kw and stores_to_name(g, kw.arg):
        problems.append("arguments are rebound")
    if any(isinstance(x, ast.Try) and x.handlers for x in iter_own_nodes(g.node)):
        problems.append("the callable catches exceptions")
    # inside with Action.continue_task(task_id=<serialized id>)
    enters = [w for w in cfg.live if w.kind == "with_enter"]
    okw = False
    for w in enters:
        ce = w.info["item"].context_expr
        if isinstance(ce, ast.Call) and ct in ctx.targets(g, ce):
            k = {x.arg: x.value for x in ce.keywords}
            tid = k.get("task_id")
            if isinstance(tid, ast.Name):
                vals = assigned_values(pc, tid.id)
                okw = len(vals) == 1 and isinstance(vals[0], ast.Call) and sti in ctx.targets(pc, vals[0]) and all(cfg.precedes([w], [r])[0] for r in rets)
    if not okw:
        problems.append("f does not run inside `with Action.continue_task(task_id=<the id serialized by preserve_context>)`")
    chk.req(not problems, "C06.transparent", "preserve_context:callable-is-transparent", chk.where(g),
            good="returns f(*args, **kwargs) inside the continued task; no handler", fail="; ".join(problems))
    # returns f itself when there is no current action
    pcfg = ctx.cfg(pc)
    okf = False
    for r in common.returns_of(pcfg):
        if isinstance(r.ast.value, ast.Name) and r.ast.value.id == fparam:
            for t, lab in pcfg.guards_of(r):
                if t.kind == "test" and "is None" in unparse(t.exprs[0]) and lab == "true":
                    nm = t.exprs[0].left.id if isinstance(t.exprs[0], ast.Compare) and isinstance(t.exprs[0].left, ast.Name) else None
                    vals = assigned_values(pc, nm) if nm else []
                    okf = len(vals) == 1 and isinstance(vals[0], ast.Call) and ca in ctx.targets(pc, vals[0])
    chk.req(okf and not stores_to_name(pc, fparam), "C06.transparent", "preserve_context:identity-without-current-action", chk.where(pc),
            good="returns f itself when current_action() is None", fail="preserve_context does not return f itself when there is no current action")
    # one id per preserve_context call
    sc = ctx.calls_to(pc, sti)
    rng = pcfg.count_range(pcfg.entry, [pcfg.exit], lambda x: sum(1 for n, c, m in sc if n is x))
    chk.req(rng is not None and rng[1] == 1, "C06.reserve", "preserve_context:one-id-per-callable", chk.where(pc),
            good="serialize_task_id called at most once per preserve_context (range %s)" % (rng,), fail="ids serialized per callable range %s" % (rng,))


def run(chk):
    from . import c02, c03
    rule_reserve_and_codec(chk)
    rule_once(chk)
    rule_transparent(chk)
    c02.rule_alloc(chk, prefix="C06")
    c03.rule_start(chk)
    from . import c09
    c09.rule_model(chk, prefix="C06")   # the remote sub-tree is attached by (task_uuid, task_level) alone
    c09.rule_add_dispatch(chk)
    c09.rule_upward(chk)
    from . import integration, c10
    c10.rule_line(chk, prefix="C06", flush=False)  # 'to any destination': lines of the two sides sharing one file are never torn
    integration.dask_continuation(chk, chk.pid)  # eliot.dask hands one serialized id to each wrapped task
    common.rule_forwarding(chk, "C06", keys=[("_action", "Action.continue_task"), ("_action", "Action.child"), ("_action", "Action.__init__")])
