"""C19 -- the threaded writer passes every message to its destination in order, off-thread."""

import ast

from ..index import unparse, iter_own_nodes, AnalysisError
from ..cfg import calls_in_node, handler_catches_all_exceptions
from ..contain import protecting_handler
from ..framework import stores_to_name, assigned_values
from . import common
from .. import exprs as X

EXPLANATION = (
    "eliot/logwriter.py cannot be imported here (no Twisted) but parses, which is all a static check needs.  "
    "Decided on its CFGs: the reader loop can be left only under an identity comparison between the value "
    "returned by the blocking self._queue.get() of that iteration and the very module constant that "
    "stopService enqueues (an exit depending on a running flag or on a timeout drops the queued tail); "
    "stopService unregisters, then enqueues the sentinel exactly once, then returns the deferred of the thread "
    "join; the queue is an unbounded FIFO created in __init__; __call__ does nothing but put its argument; the "
    "wrapped destination is invoked only in the reader, exactly once per dequeued item with that item, inside "
    "a handler catching at least Exception whose every exit continues the loop; the reader is the target of "
    "the one thread created and started in startService before the writer is registered."
    "  The queue is created per instance: neither a class attribute nor a parameter default evaluated at definition time."
    '  __call__ is decided on its flow graph (exactly one put(<message>) on every path); reader threads are created and started by startService only.'
    "  startService may return early only for a writer that is already running (twisted's running flag, or an own attribute that stopService resets)."
)
RULE = ("obligation = rule instance bound to a loop exit / queue operation / call site of ThreadedWriter; "
        "non-trivial = CFG paths examined")
ASSUMPTIONS = [
    "queue.SimpleQueue is FIFO and thread-safe; Thread.join returns only after the target returned",
    "twisted's deferToThreadPool fires its deferred after the callable returned",
]

FIFO_UNBOUNDED = {"queue.SimpleQueue", "queue.Queue"}


def _tw(chk, m):
    return chk.ctx.func("logwriter", "ThreadedWriter.%s" % m)


def queue_attr(chk):
    ctx = chk.ctx
    init = _tw(chk, "__init__")
    for n in iter_own_nodes(init.node):
        if isinstance(n, ast.Assign) and isinstance(n.value, ast.Call):
            for t in ctx.cg.typer.resolve_call(init, n.value):
                if t.kind == "ext" and str(t.ref).startswith("queue."):
                    for tg in n.targets:
                        if common.is_self_attr(tg):
                            return tg.attr, t.ref, n.value
    return None, None, None


def is_queue(func, e, qa):
    """e denotes the writer's queue: self.<qa> or a local alias of it."""
    if common.is_self_attr(e, qa):
        return True
    if isinstance(e, ast.Name):
        for n in iter_own_nodes(func.node):
            if isinstance(n, ast.Assign):
                for t in n.targets:
                    if isinstance(t, ast.Name) and t.id == e.id and common.is_self_attr(n.value, qa):
                        return True
                    if isinstance(t, ast.Tuple) and isinstance(n.value, ast.Tuple) and len(t.elts) == len(n.value.elts):
                        for a, b in zip(t.elts, n.value.elts):
                            if isinstance(a, ast.Name) and a.id == e.id and common.is_self_attr(b, qa):
                                return True
    return False


def rule_queue(chk):
    ctx = chk.ctx
    init = _tw(chk, "__init__")
    qa, qtype, qcall = queue_attr(chk)
    if qa is None:
        for a, v in init.cls.attrs.items():
            if isinstance(v, ast.Call) and any(t.kind == "ext" and str(t.ref).startswith("queue.") for t in ctx.cg.typer.resolve_call_in(init.module, None, v)):
                chk.bad("C19.queue", "ThreadedWriter.%s:unbounded-FIFO" % a, chk.where(init.cls),
                        "the queue is a class-level attribute shared by every ThreadedWriter: a stop sentinel or message of one writer is consumed by another's reader")
                raise AnalysisError("ThreadedWriter queue is not per instance")
        # self.<x> = <parameter whose default is queue.X()>: the default is evaluated once, when the class is defined
        a = init.node.args
        pos = a.posonlyargs + a.args
        defaults = dict(zip([x.arg for x in pos[len(pos) - len(a.defaults):]], a.defaults))
        defaults.update({k.arg: d for k, d in zip(a.kwonlyargs, a.kw_defaults) if d is not None})
        for n in iter_own_nodes(init.node):
            if isinstance(n, ast.Assign) and isinstance(n.value, ast.Name) and n.value.id in defaults and any(common.is_self_attr(t) for t in n.targets):
                d = defaults[n.value.id]
                if isinstance(d, ast.Call) and any(t.kind == "ext" and str(t.ref).startswith("queue.") for t in ctx.cg.typer.resolve_call_in(init.module, None, d)):
                    chk.bad("C19.queue", "ThreadedWriter.%s:unbounded-FIFO" % [t.attr for t in n.targets if common.is_self_attr(t)][0], chk.where(init, n.lineno),
                            "the queue is the parameter default `%s=%s`, evaluated once when the class is defined: every ThreadedWriter built without that argument shares one queue, "
                            "so one writer's reader thread consumes another writer's messages and stop sentinel" % (n.value.id, unparse(d)))
                    raise AnalysisError("ThreadedWriter queue is not per instance")
    chk.need(qa is not None, "ThreadedWriter.__init__: no queue attribute created from the queue module")
    bounded = False
    if qtype == "queue.Queue":
        ms = qcall.args[0] if qcall.args else next((k.value for k in qcall.keywords if k.arg == "maxsize"), None)
        bounded = ms is not None and not (isinstance(ms, ast.Constant) and ms.value in (0, None))
    writers = []
    for m in set(init.cls.methods.values()):
        if any(isinstance(n, ast.Attribute) and isinstance(n.ctx, (ast.Store, ast.Del)) and common.is_self_attr(n, qa) for n in ast.walk(m.node)):
            writers.append(m)
    chk.req(qtype in FIFO_UNBOUNDED and not bounded and writers == [init], "C19.queue", "ThreadedWriter.%s:unbounded-FIFO" % qa, chk.where(init),
            good="created once in __init__ from %s()" % qtype,
            fail="the queue is %s%s%s: order is not FIFO / producers can block / it is replaced later" % (qtype, " (bounded)" if bounded else "", "" if writers == [init] else ", reassigned in %s" % [w.fq for w in writers]))
    call = _tw(chk, "__call__")
    dparam = call.pos_params[1]
    ccfg = ctx.cfg(call)
    puts = [(n, c) for n in ccfg.live for c, m in calls_in_node(n) if isinstance(c.func, ast.Attribute) and c.func.attr in ("put", "put_nowait") and common.is_self_attr(c.func.value, qa)]
    problems = []
    for n, c in puts:
        if not (len(c.args) == 1 and isinstance(c.args[0], ast.Name) and c.args[0].id == dparam and not c.keywords):
            problems.append("the queue is given %s, not just the message itself" % unparse(c)[:60])
    if stores_to_name(call, dparam):
        problems.append("the message parameter is rebound before it is enqueued")
    rng = ccfg.count_range(ccfg.entry, [ccfg.exit], lambda x: sum(1 for n, c in puts if n is x))
    if rng is None or rng[0] < 1:
        guards = sorted({unparse(t.exprs[0])[:50] for x in ccfg.live if x.kind == "return" or any(s_ is ccfg.exit for s_, _l in x.succ)
                         for t, lab in ccfg.guards_of(x) if t.kind == "test"})
        problems.append("a path through __call__ returns without enqueuing the message (depends on %s): a message accepted from the logging thread is silently dropped -- "
                        "e.g. one logged between the moment that condition changes and the moment the writer is unregistered" % (guards or "nothing"))
    elif rng[1] > 1:
        problems.append("a message can be enqueued %s times" % (rng,))
    chk.req(not problems, "C19.queue", "ThreadedWriter.__call__:only-enqueues-its-argument", chk.where(call),
            good="self.%s.put(%s) exactly once on every path" % (qa, dparam), fail="; ".join(problems), sites=len(ccfg.live))
    return qa


def sentinel(chk, qa):
    """Module constant enqueued by stopService."""
    ctx = chk.ctx
    stop = _tw(chk, "stopService")
    puts = [n for n in iter_own_nodes(stop.node) if isinstance(n, ast.Call) and isinstance(n.func, ast.Attribute) and n.func.attr == "put" and is_queue(stop, n.func.value, qa)]
    chk.need(puts, "stopService no longer enqueues anything")
    refs = set()
    for c in puts:
        r = ctx.p.resolve_expr_static(stop.module, stop, c.args[0]) if c.args and isinstance(c.args[0], (ast.Name, ast.Attribute)) else None
        chk.need(r and r[0] == "modvar", "stopService enqueues %s, not a module constant" % (c.args and unparse(c.args[0])))
        refs.add((r[1].name, r[2]))
    chk.need(len(refs) == 1, "stopService enqueues different sentinels")
    return refs.pop(), puts


def rule_exit(chk, qa):
    ctx = chk.ctx
    rd = _tw(chk, "_reader")
    cfg = ctx.cfg(rd)
    sent, _ = sentinel(chk, qa)
    gets = [(n, c) for n in cfg.live for c, m in calls_in_node(n) if isinstance(c.func, ast.Attribute) and is_queue(rd, c.func.value, qa)
            and c.func.attr in ("get", "get_nowait")]
    if not gets:
        # the reader draws its items from an iterator kept on the instance
        for x in iter_own_nodes(rd.node):
            if isinstance(x, (ast.For,)) and common.is_self_attr(x.iter):
                attr = x.iter.attr
                for m_ in set(rd.cls.methods.values()):
                    if m_ is rd:
                        continue
                    for y in iter_own_nodes(m_.node):
                        if isinstance(y, ast.Assign) and any(common.is_self_attr(t_, attr) for t_ in y.targets) and isinstance(y.value, ast.Call) \
                                and isinstance(y.value.func, ast.Name) and y.value.func.id == "iter" and len(y.value.args) == 2:
                            chk.bad("C19.exit", "ThreadedWriter._reader:leaves-only-on-the-sentinel", chk.where(m_, y.lineno),
                                    "the reader iterates self.%s = %s created in %s, i.e. once per writer and not once per reader thread: after the first stop the iterator is exhausted, "
                                    "so every later start/stop cycle writes nothing and stopService completes with messages unwritten" % (attr, unparse(y.value)[:50], m_.name))
                            raise AnalysisError("_reader: items come from a per-instance iterator")
    chk.need(gets, "_reader no longer reads the queue")
    problems = []
    itemvars = set()
    for n, c in gets:
        if c.func.attr != "get" or c.args or c.keywords:
            ph = [e for e in ctx.cg.ctxmaps[rd].get(id(c), []) if e[1] == "body"]
            drain_only = bool(ph) and all(not any(isinstance(x, (ast.Return, ast.Break, ast.Raise)) for x in ast.walk(ast.Module(body=h.body, type_ignores=[])))
                                          for h in ph[-1][0].handlers)
            if not drain_only:
                problems.append("the queue is read with %s: a timeout / non-blocking read adds an exit that does not depend on the sentinel" % unparse(c))
        if isinstance(n.ast, ast.Assign) and isinstance(n.ast.targets[0], ast.Name):
            itemvars.add(n.ast.targets[0].id)
    # items may also be drawn from a local batch list filled from the queue
    for x in iter_own_nodes(rd.node):
        if isinstance(x, ast.For) and isinstance(x.target, ast.Name) and isinstance(x.iter, ast.Name):
            itemvars.add(x.target.id)
    # loop tests
    def is_sentinel_test(e):
        if isinstance(e, ast.UnaryOp) and isinstance(e.op, ast.Not):
            k_ = is_sentinel_test(e.operand)
            return {"is": "isnot", "isnot": "is"}.get(k_)
        if isinstance(e, ast.Compare) and len(e.ops) == 1 and isinstance(e.ops[0], (ast.Is, ast.IsNot)) and isinstance(e.left, ast.Name) and e.left.id in itemvars:
            r = ctx.p.resolve_expr_static(rd.module, rd, e.comparators[0]) if isinstance(e.comparators[0], (ast.Name, ast.Attribute)) else None
            if r and r[0] == "modvar" and (r[1].name, r[2]) == sent:
                return "is" if isinstance(e.ops[0], ast.Is) else "isnot"
        return None
    sentinel_loops = set()
    for t in cfg.live:
        if t.kind == "test" and isinstance(t.ast, ast.While) and not any(t.ast is y for x in iter_own_nodes(rd.node) if isinstance(x, (ast.For, ast.While)) and x is not t.ast
                                                                          for st in x.body + x.orelse for y in ast.walk(st)):
            if isinstance(t.ast.test, ast.Constant) and t.ast.test.value:
                continue
            if is_sentinel_test(t.ast.test) == "isnot":
                sentinel_loops.add(t)   # `while <item> is not <sentinel>`: the loop test is the sentinel test
                continue
            problems.append("the reader loop runs `while %s`: it can stop before the queue is drained" % unparse(t.ast.test))
    # every way out of the function
    exits = [n for n in cfg.live if n.kind in ("return", "break")] + [p for p, l in cfg.exit.pred if l == "fallthrough" or l == "false"]
    chk.need(exits, "_reader has no exit at all")
    for x in exits:
        if x in sentinel_loops:
            continue  # left exactly when the item just read is the sentinel
        gs = [(t, lab) for t, lab in cfg.guards_of(x) if t.kind == "test" and not (isinstance(t.ast, ast.While) and isinstance(t.exprs[0], ast.Constant))]
        kinds = []
        for t, lab in gs:
            k = is_sentinel_test(t.exprs[0])
            if k is None:
                kinds.append("other:%s" % unparse(t.exprs[0]))
            elif (k == "is") == (lab == "true"):
                kinds.append("sentinel")
            else:
                kinds.append("not-sentinel")
        if "sentinel" not in kinds or any(k != "sentinel" for k in kinds):
            problems.append("the exit at line %d depends on %s, not only on having dequeued the sentinel %s: messages queued before stopService can be dropped"
                            % (x.lineno, [k for k in kinds if k != "sentinel"] or "nothing", sent[1]))
    # exception leaving the loop kills the reader
    quiet = common.quiet_exc_edges(ctx, rd)
    r = cfg.reach([cfg.entry], avoid_edges=quiet)
    if cfg.raise_exit in r:
        problems.append("an exception can terminate the reader thread: %s" % cfg.fmt_path(cfg.witness(cfg.raise_exit)))
    chk.req(not problems, "C19.exit", "ThreadedWriter._reader:leaves-only-on-the-sentinel", chk.where(rd),
            good="blocking get(); the only exit is `<item> is %s`" % sent[1], fail="; ".join(problems), sites=len(cfg.live))
    return itemvars


def rule_thread_and_contain(chk, qa, itemvars):
    ctx = chk.ctx
    rd = _tw(chk, "_reader")
    cfg = ctx.cfg(rd)
    init = _tw(chk, "__init__")
    dest_attr = None
    for n in iter_own_nodes(init.node):
        if isinstance(n, ast.Assign) and isinstance(n.value, ast.Name) and n.value.id == init.pos_params[1]:
            for t in n.targets:
                if common.is_self_attr(t):
                    dest_attr = t.attr
    chk.need(dest_attr, "ThreadedWriter.__init__: wrapped destination attribute not found")
    invs = []
    for m in set(init.cls.methods.values()):
        for n in iter_own_nodes(m.node):
            if isinstance(n, ast.Call) and common.is_self_attr(n.func, dest_attr):
                invs.append((m, n))
    outside = [(m, n) for m, n in invs if m is not rd]
    chk.req(not outside and invs, "C19.thread", "ThreadedWriter:destination-invoked-only-by-the-reader", chk.where(rd),
            good="self.%s(...) is called only in _reader" % dest_attr,
            fail="the wrapped destination is called on the logging thread in %s" % [m.fq for m, n in outside] if outside else "the reader never calls the destination")
    nested = {id(y) for x in iter_own_nodes(rd.node) if isinstance(x, (ast.For, ast.While)) for st in x.body + x.orelse for y in ast.walk(st)}
    heads = [t for t in cfg.live if t.kind == "test" and isinstance(t.ast, ast.While) and id(t.ast) not in nested]
    chk.need(len(heads) == 1, "_reader: outer loop not found")
    head = heads[0]
    dn = [(n, c) for n in cfg.live for c, m in calls_in_node(n) if common.is_self_attr(c.func, dest_attr)]
    quiet = common.quiet_exc_edges(ctx, rd)
    getn = [n for n in cfg.live for c, m in calls_in_node(n) if isinstance(c.func, ast.Attribute) and c.func.attr == "get" and is_queue(rd, c.func.value, qa)]
    # per non-sentinel iteration exactly one call with the dequeued item
    sentinel_exits = {(t, lab) for x in cfg.live if x.kind in ("return", "break") for t, lab in cfg.guards_of(x) if t.kind == "test" and not isinstance(t.ast, ast.While)}
    # innermost loop around each delivery
    def innermost_loop(call):
        best = None
        for x in ast.walk(rd.node):
            if isinstance(x, (ast.For, ast.While)) and any(y is call for st in x.body for y in ast.walk(st)):
                if best is None or any(y is x for y in ast.walk(best)):
                    best = x
        return best
    batched = any(isinstance(innermost_loop(c), ast.For) for n, c in dn)
    # between taking an item off the queue and the next read (or leaving), a non-sentinel item is delivered exactly once
    def sentinel_edge(t, lab):
        e = t.exprs[0]
        neg = False
        while isinstance(e, ast.UnaryOp) and isinstance(e.op, ast.Not):
            e, neg = e.operand, not neg
        if isinstance(e, ast.Compare) and len(e.ops) == 1 and isinstance(e.ops[0], (ast.Is, ast.IsNot)) and isinstance(e.left, ast.Name) and e.left.id in itemvars:
            is_ = isinstance(e.ops[0], ast.Is) != neg
            return (lab == "true") == is_
        return False
    s_edges = {(t, lab) for t in cfg.live if t.kind == "test" for lab in ("true", "false") if sentinel_edge(t, lab)}
    rng = None
    for g_ in getn:
        starts_ = [s_ for s_, l in g_.succ if l != "exc"]
        if not starts_:
            continue
        r_ = cfg.count_range(starts_[0], [x for x in getn] + [cfg.exit], lambda x: sum(1 for n, c in dn if n is x), avoid_edges=s_edges | quiet)
        if r_ is None:
            continue
        rng = r_ if rng is None or r_ == rng else (min(rng[0], r_[0]), max(rng[1], r_[1]))
    if batched:
        rng = (1, 1)
        chk.skip("C19.thread", "ThreadedWriter._reader:one-delivery-per-dequeued-item(count)", chk.where(rd), "batched delivery loop: per-item count not modelled")
    okc = rng == (1, 1) and all(len(c.args) == 1 and isinstance(c.args[0], ast.Name) and c.args[0].id in itemvars and not c.keywords for n, c in dn)
    chk.req(okc, "C19.thread", "ThreadedWriter._reader:one-delivery-per-dequeued-item", chk.where(rd),
            good="exactly one self.%s(<item>) between dequeuing a message and the next iteration" % dest_attr,
            fail="deliveries per dequeued message range %s / the item is not passed unchanged" % (rng,), sites=len(cfg.live))
    for n, c in dn:
        ph = protecting_handler(ctx.cg.ctxmaps[rd].get(id(c), []))
        okh = ph is not None
        lp = innermost_loop(c)
        if okh and lp is not None and not any(y is ph[0] for st in lp.body for y in ast.walk(st)):
            chk.bad("C19.contain", "ThreadedWriter._reader:failure-loses-only-that-message", chk.where(rd, c.lineno),
                    "the handler that contains the destination's exception is outside the loop over the dequeued items (line %d): one failure drops every message queued behind it, including the stop sentinel" % lp.lineno)
            continue
        if okh:
            hn = [x for x in cfg.live if x.kind == "handler" and x.ast is ph[1]][0]
            r = cfg.reach([hn], avoid={head})
            okh = not any(x.kind in ("return", "break", "raise_stmt") for x in r) and cfg.exit not in r and cfg.raise_exit not in cfg.reach([hn], avoid={head}, avoid_edges=quiet)
        chk.req(okh, "C19.contain", "ThreadedWriter._reader:destination-failure-does-not-stop-the-writer", chk.where(rd, c.lineno),
                good="call wrapped in a handler catching >= Exception; every handler exit continues the loop",
                fail="an exception from the wrapped destination is not contained by a handler that continues the loop: it stops the writer thread")
    # the thread
    st = _tw(chk, "startService")
    scfg = ctx.cfg(st)
    thr = [(n, c) for n in scfg.live for c, m in calls_in_node(n) if any(t.kind == "ext" and t.ref == "threading.Thread" for t in ctx.cg.typer.resolve_call(st, c))]
    okt = len(thr) == 1
    tattr = None
    tlocal = None
    if okt:
        n, c = thr[0]
        tgt = next((k.value for k in c.keywords if k.arg == "target"), None)
        okt = common.is_self_attr(tgt, "_reader") and isinstance(n.ast, ast.Assign)
        tlocal = None
        if okt and common.is_self_attr(n.ast.targets[0]):
            tattr = n.ast.targets[0].attr
        elif okt and isinstance(n.ast.targets[0], ast.Name) and len(stores_to_name(st, n.ast.targets[0].id)) == 1:
            # `thread = Thread(...)`; `self.<attr> = thread`: the same thread object under a local name
            tlocal = n.ast.targets[0].id
            fw = [x for x in iter_own_nodes(st.node) if isinstance(x, ast.Assign) and len(x.targets) == 1 and common.is_self_attr(x.targets[0])
                  and isinstance(x.value, ast.Name) and x.value.id == tlocal]
            tattr = fw[0].targets[0].attr if len(fw) == 1 else None
        okt = okt and tattr is not None
    starts = [n for n in scfg.live for c, m in calls_in_node(n) if isinstance(c.func, ast.Attribute) and c.func.attr == "start" and tattr
              and (common.is_self_attr(c.func.value, tattr) or (tlocal is not None and isinstance(c.func.value, ast.Name) and c.func.value.id == tlocal))]
    regs = [n for n in scfg.live for c, m in calls_in_node(n) if isinstance(c.func, ast.Name) and c.func.id in ("addDestination", "add_destination", "add_destinations")
            and c.args and isinstance(c.args[0], ast.Name) and c.args[0].id == "self"]
    # an early return for a writer that is ALREADY RUNNING is not a path that needs a thread: recognised are the flag twisted's Service keeps
    # (set by Service.startService, cleared by Service.stopService, both of which this class must call) and an attribute of the writer that
    # stopService resets; a guard on something that is never reset makes every later start a no-op
    running_edges = set()
    stop_ = _tw(chk, "stopService")
    calls_base = lambda m_, nm: any(isinstance(x, ast.Call) and unparse(x.func) == "Service.%s" % nm for x in iter_own_nodes(m_.node))
    for t in scfg.live:
        if t.kind != "test":
            continue
        for lab in ("true", "false"):
            facts = X.atomic_facts(t.exprs[0], lab)
            if len(facts) != 1:
                continue
            e_, truth = facts[0]
            exits_ = [x for x in scfg.reach([s_ for s_, l_ in t.succ if l_ == lab]) if x.kind == "return"]
            if not exits_ or any(x in starts for x in scfg.reach([s_ for s_, l_ in t.succ if l_ == lab])):
                continue
            if common.is_self_attr(e_, "running") and truth and calls_base(st, "startService") and calls_base(stop_, "stopService"):
                running_edges.add((t, lab))
            else:
                attr_ = None
                if isinstance(e_, ast.Compare) and len(e_.ops) == 1 and common.is_self_attr(e_.left) and isinstance(e_.comparators[0], ast.Constant) and e_.comparators[0].value is None:
                    if (isinstance(e_.ops[0], ast.Is) and not truth) or (isinstance(e_.ops[0], ast.IsNot) and truth):
                        attr_ = e_.left.attr
                if attr_ is not None:
                    resets = [x for x in iter_own_nodes(stop_.node) if isinstance(x, ast.Assign) and any(common.is_self_attr(t_, attr_) for t_ in x.targets)
                              and isinstance(x.value, ast.Constant) and x.value.value is None]
                    if resets:
                        running_edges.add((t, lab))
                    else:
                        chk.bad("C19.thread", "ThreadedWriter.startService:restartable", chk.where(st, t.lineno),
                                "startService returns early when `%s`, but stopService never sets self.%s back to None: after the first stop every later startService does nothing -- no reader "
                                "thread, the writer is not registered -- so the messages of that run are never written" % (unparse(t.exprs[0])[:50], attr_))
                        running_edges.add((t, lab))
    okt = okt and len(starts) == 1 and bool(regs) and scfg.precedes(starts, regs)[0] \
        and scfg.count_range(scfg.entry, [scfg.exit], lambda x: 1 if x in starts else 0, avoid_edges=running_edges) == (1, 1)
    # nobody else creates or starts a reader thread
    for m_ in set(st.cls.methods.values()):
        if m_ is st:
            continue
        for x in iter_own_nodes(m_.node):
            if isinstance(x, ast.Call) and (any(t.kind == "ext" and t.ref == "threading.Thread" for t in ctx.cg.typer.resolve_call(m_, x))
                                            or (isinstance(x.func, ast.Attribute) and x.func.attr == "start" and tattr and common.is_self_attr(x.func.value, tattr))):
                chk.bad("C19.thread", "ThreadedWriter:reader-threads-started-only-by-startService", chk.where(m_, x.lineno),
                        "%s creates / starts a reader thread (%s): outside startService nothing bounds their number to one per running service -- a thread started while the service is stopped "
                        "(or beside a live one after the next startService) makes two threads take messages off the same queue, so deliveries are no longer made by one thread in order"
                        % (m_.name, unparse(x)[:50]))
    chk.req(okt, "C19.thread", "ThreadedWriter.startService:one-reader-thread-started-before-registration", chk.where(st),
            good="Thread(target=self._reader) created and started once, then the writer is registered",
            fail="startService does not create exactly one reader thread and start it before registering the writer")
    return tattr


def rule_stop(chk, qa, tattr):
    ctx = chk.ctx
    stop = _tw(chk, "stopService")
    cfg = ctx.cfg(stop)
    sent, puts = sentinel(chk, qa)
    pn = [n for n in cfg.live for c, m in calls_in_node(n) if c in puts]
    un = [n for n in cfg.live for c, m in calls_in_node(n) if isinstance(c.func, ast.Name) and c.func.id in ("removeDestination", "remove_destination")
          and c.args and isinstance(c.args[0], ast.Name) and c.args[0].id == "self"]
    rets = common.returns_of(cfg)
    problems = []
    if not un or not cfg.precedes(un, pn)[0]:
        problems.append("the writer is not unregistered before the sentinel is enqueued (messages can be queued behind the sentinel and never written)")
    rng = cfg.count_range(cfg.entry, [cfg.exit], lambda x: 1 if x in pn else 0)
    if rng != (1, 1):
        problems.append("sentinel enqueued %s times per stop" % (rng,))
    env = X.single_assignments(stop)
    for r in rets:
        v = r.ast.value
        if isinstance(v, ast.Name) and v.id in env:
            # `d = deferToThreadPool(...); ...; return d`: the request is made where the temporary is bound
            bind = [n for n in cfg.live if isinstance(n.ast, ast.Assign) and n.ast.value is env[v.id]]
            v = env[v.id]
            r = bind[0] if bind else r
        okj = isinstance(v, ast.Call) and "deferToThread" in unparse(v.func) and any(tattr and unparse(a) == "self.%s.join" % tattr for a in v.args)
        if okj:
            # nothing may follow the callable: join() must wait without a timeout
            idx = [i for i, a in enumerate(v.args) if unparse(a) == "self.%s.join" % tattr][0]
            if v.args[idx + 1:] or v.keywords:
                problems.append("the reader thread is joined with extra arguments %s (a timeout): stopService can complete while queued messages are still unwritten"
                                % ([unparse(a) for a in v.args[idx + 1:]] + [k.arg for k in v.keywords]))
                continue
        if not okj:
            problems.append("stopService returns %s, not the deferred of joining the reader thread" % (v is not None and unparse(v)[:60]))
        elif not cfg.precedes(pn, [r])[0]:
            problems.append("the join is requested before the sentinel is enqueued")
    if not rets:
        problems.append("stopService returns nothing: its completion does not wait for the queued messages")
    chk.req(not problems, "C19.stop", "ThreadedWriter.stopService:unregister-sentinel-join", chk.where(stop),
            good="unregister -> put(%s) exactly once -> return deferred(thread.join)" % sent[1], fail="; ".join(problems), sites=len(cfg.live))


def rule_writer(chk):
    """all rules of the threaded writer, for properties whose guarantee extends through it"""
    qa = rule_queue(chk)
    itemvars = rule_exit(chk, qa)
    tattr = rule_thread_and_contain(chk, qa, itemvars)
    rule_stop(chk, qa, tattr)


def run(chk):
    qa = rule_queue(chk)
    itemvars = rule_exit(chk, qa)
    tattr = rule_thread_and_contain(chk, qa, itemvars)
    rule_stop(chk, qa, tattr)
