"""C04 -- the current action is scoped to its block and always restored on exit."""

import ast

from ..index import unparse, iter_own_nodes, AnalysisError
from ..cfg import calls_in_node
from ..framework import stores_to_name, assigned_values
from . import common

EXPLANATION = (
    "Typestate / pairing analysis on the one context variable: every `<var>.set(x)` in the production "
    "modules is paired with a `<var>.reset(token)` whose token is, by value provenance, the result of that "
    "set (through a never-rebound local, or through one attribute from __enter__ to __exit__), and the reset "
    "lies on every CFG path from the set to every exit of the function (normal return, exception, generator "
    "close/throw at a yield); for __enter__/__exit__ the reset lies on every path of __exit__ to every exit, exceptional edges included.  No other "
    "write of the variable exists.  Parent lookup at creation is by current_action() only; start_task and "
    "the context-less branch of log_message build a fresh root and never touch the variable."
    "  The repo's generator wrapper resumes a decorated generator only inside that generator's own context copy (C15.inside), so an action a generator is suspended in never becomes current in its driver."
    '  Action.context() may not hand out one context-manager object kept on the action: the reset token is per-entry state (a fresh object per call is not modelled: exit 2).'
)
RULE = ("obligation = one set/reset pair, one use of the variable, or one parent-lookup site; non-trivial = "
        "at least one CFG path from set to exit enumerated by reachability")
ASSUMPTIONS = [
    "contextvars.ContextVar.set/reset/get semantics (reset(token) restores the value before the matching set)",
    "`with action:` entered twice nested on the *same* Action object overwrites its saved token; outside the property's quantifier (it names context() and run() for re-entry)",
]


def context_var(chk):
    """Locate the variable through current_action(): -> (module, name, defining Call)."""
    ctx = chk.ctx
    ca = ctx.func("_action", "current_action")
    rets = [n for n in iter_own_nodes(ca.node) if isinstance(n, ast.Return)]
    chk.need(rets, "current_action has no return")
    var = None
    for r in rets:
        v = r.value
        if isinstance(v, ast.Name):
            vals = assigned_values(ca, v.id)
            if len(vals) == 1 and vals[0] is not None and len(stores_to_name(ca, v.id)) == 1:
                v = vals[0]
        if not (isinstance(v, ast.Call) and isinstance(v.func, ast.Attribute) and v.func.attr == "get"):
            return None, ca, "current_action returns %s, not <ContextVar>.get(...)" % unparse(v)
        ref = ctx.p.resolve_expr_static(ca.module, ca, v.func.value)
        if not ref or ref[0] != "modvar":
            return None, ca, "current_action reads %s, which is not a module-level variable" % unparse(v.func.value)
        if var is not None and (var[1] is not ref[1] or var[2] != ref[2]):
            return None, ca, "current_action reads two different variables"
        var = ref
    return var, ca, ""


def var_uses(chk, var):
    """All references to the variable in production functions:
    [(func, node, kind, call)] kind in set/reset/get/other."""
    ctx = chk.ctx
    out = []
    for f in ctx.p.all_funcs():
        parents = {}
        for n in iter_own_nodes(f.node):
            for ch in ast.iter_child_nodes(n):
                parents[id(ch)] = n
        for n in iter_own_nodes(f.node):
            if isinstance(n, (ast.Name, ast.Attribute)):
                if isinstance(n, ast.Attribute) and isinstance(parents.get(id(n)), ast.Attribute) and False:
                    continue
                ref = ctx.p.resolve_expr_static(f.module, f, n) if (isinstance(n, ast.Name) or isinstance(n.value, (ast.Name, ast.Attribute))) else None
                if ref and ref[0] == "modvar" and ref[1] is var[1] and ref[2] == var[2]:
                    par = parents.get(id(n))
                    kind, call = "other", None
                    if isinstance(par, ast.Attribute) and par.value is n:
                        gp = parents.get(id(par))
                        if isinstance(gp, ast.Call) and gp.func is par and par.attr in ("set", "reset", "get"):
                            kind, call = par.attr, gp
                    if isinstance(n, ast.Name) and isinstance(n.ctx, ast.Store):
                        kind = "rebind"
                    out.append((f, n, kind, call))
    return out


def rule_pairs(chk):
    ctx = chk.ctx
    var, ca, why = context_var(chk)
    if var is None:
        chk.bad("C04.pair", "current_action:reads-the-context-variable", chk.where(ca), why)
        return
    uses = var_uses(chk, var)
    sets = [(f, c, c.args[0] if len(c.args) == 1 else None) for f, n, k, c in uses if k == "set"]
    resets = [(f, c, c.args[0] if len(c.args) == 1 else None) for f, n, k, c in uses if k == "reset"]
    # thin private wrappers: `def push(a): return <var>.set(a)` / `def pop(t): <var>.reset(t)` -- their call sites are the set / reset sites
    wrappers = {}
    for kind, lst in (("set", sets), ("reset", resets)):
        for f, c, _a in list(lst):
            if f.cls is not None and f.pos_params[:1] == ["self"]:
                fparams = f.pos_params[1:]
            else:
                fparams = f.pos_params
            body = [st for st in f.node.body if not (isinstance(st, ast.Expr) and isinstance(st.value, ast.Constant))]
            if len(c.args) == 1 and isinstance(c.args[0], ast.Name) and c.args[0].id in fparams and len(body) == 1 and not stores_to_name(f, c.args[0].id):
                st = body[0]
                is_wrapper = (kind == "set" and isinstance(st, ast.Return) and st.value is c) or (kind == "reset" and isinstance(st, (ast.Expr, ast.Return)) and st.value is c)
                if is_wrapper:
                    wrappers[f] = (kind, f.pos_params.index(c.args[0].id))
                    lst.remove((f, c, _a))
    for f in ctx.p.all_funcs():
        for s_ in ctx.cg.sites.get(f, []):
            if s_.call is None:
                continue
            tg = s_.repo_targets()
            if tg and all(t in wrappers for t in tg) and len({wrappers[t] for t in tg}) == 1:
                kind, idx = wrappers[tg[0]]
                c = s_.call
                # bound-method call: the receiver takes parameter 0
                implicit = isinstance(c.func, ast.Attribute) and tg[0].cls is not None
                ai = idx - (1 if implicit else 0)
                if 0 <= ai < len(c.args):
                    (sets if kind == "set" else resets).append((f, c, c.args[ai]))
    chk.instances("C04.pair:set calls", len(sets), 1)
    # each of the three scoping constructs installs the action (directly or through a helper method)
    setters = {f for f, c, _a in sets}
    for q in ("Action.run", "Action.context", "Action.__enter__"):
        g = ctx.func("_action", q)
        reach = {g}
        todo = [g]
        while todo:
            h = todo.pop()
            for s in ctx.cg.sites.get(h, []):
                for t in s.repo_targets():
                    if t.cls is g.cls and t not in reach:
                        reach.add(t)
                        todo.append(t)
        if not (reach & setters) and q == "Action.context":
            # the context manager is an object of another class: a fresh one per call is equivalent to the generator form (not modelled);
            # one object kept on the action and handed out again shares its per-entry state between overlapping entries
            kept = [x for x in iter_own_nodes(g.node) if isinstance(x, ast.Assign) and any(common.is_self_attr(t) for t in x.targets) and isinstance(x.value, ast.Call)]
            rets = [x for x in iter_own_nodes(g.node) if isinstance(x, ast.Return) and x.value is not None]
            if not kept:
                # `return self._context`, the object being made once (in __init__ or lazily elsewhere)
                for r_ in rets:
                    if common.is_self_attr(r_.value):
                        for m_ in set(g.cls.methods.values()):
                            kept += [x for x in iter_own_nodes(m_.node) if isinstance(x, ast.Assign) and any(common.is_self_attr(t, r_.value.attr) for t in x.targets) and isinstance(x.value, ast.Call)]
            if kept and rets:
                attr = [t.attr for x in kept for t in x.targets if common.is_self_attr(t)][0]
                chk.bad("C04.entered", "Action.context:per-entry-state-is-per-entry", chk.where(g, kept[0].lineno),
                        "context() hands out one %s object kept in self.%s for the action's whole life: the token needed to restore the previous action is per-entry state, and overlapping entries of "
                        "the same action's context (nested `with a.context():` blocks, two asyncio tasks or callbacks inside the same long-lived action) overwrite each other's token, so leaving "
                        "restores the wrong action or raises" % (unparse(kept[0].value.func), attr))
                continue
            raise AnalysisError("Action.context is not a generator-based context manager that sets the context variable itself (returned context manager object not modelled)")
        chk.req(bool(reach & setters), "C04.entered", "%s:installs-the-action" % q, chk.where(g),
                good="sets the context variable (in %s)" % ", ".join(sorted(x.name for x in reach & setters)),
                fail="%s does not make the action current" % q)
    matched_resets = set()

    def token_source(g, e):
        """what a reset argument denotes: ("local", name) / ("attr", name), looking through one snapshot temporary `t = self.<attr>`"""
        if isinstance(e, ast.Name):
            vals = assigned_values(g, e.id)
            if len(vals) == 1 and vals[0] is not None and common.is_self_attr(vals[0]) and e.id not in g.params:
                return ("attr", vals[0].attr, e.id)
            return ("local", e.id, None)
        if common.is_self_attr(e):
            return ("attr", e.attr, None)
        return (None, None, None)
    from ..inline import known_functions
    by_value, witness = [], False
    for f, c, arg in sets:
        if isinstance(arg, ast.Name) and arg.id == "self":
            continue
        snap_sites = []
        if isinstance(arg, ast.Name):
            snap_sites = [(f, v) for v in assigned_values(f, arg.id) if v is not None]
        elif common.is_self_attr(arg) and f.cls is not None:
            for m_ in set(f.cls.methods.values()):
                for x in iter_own_nodes(m_.node):
                    if isinstance(x, ast.Assign) and any(common.is_self_attr(t_, arg.attr) for t_ in x.targets):
                        snap_sites.append((m_, x.value))
        is_snap = lambda v: isinstance(v, ast.Call) and (unparse(v.func) in ("current_action", "_ACTION_CONTEXT.get"))
        if any(is_snap(v) for m_, v in snap_sites):
            by_value.append((f, c))
            shared_slot = sorted({m_.name for m_, v in snap_sites if is_snap(v) and m_.name in ("run", "context")}) if common.is_self_attr(arg) else []
            if shared_slot and not witness:
                witness = True
                chk.bad("C04.pair", "%s:per-entry-state-is-per-entry" % f.fq, chk.where(f, c.lineno),
                        "the action to go back to is kept in ONE attribute of the action (self.%s), written by %s: run() and context() can be entered again while already entered "
                        "(nested use, two tasks or threads inside the same long-lived action), each entry overwrites the slot, and leaving then installs the wrong action "
                        "(the pinned code keeps that per-entry state in a local of run()/context())" % (arg.attr, "/".join(shared_slot)))
            if any(is_snap(v) and m_.name == "__init__" for m_, v in snap_sites):
                witness = True
                chk.bad("C04.pair", "%s:restores-what-was-current-at-entry" % f.fq, chk.where(f, c.lineno),
                        "`%s` puts back the action that was current when the Action object was CONSTRUCTED (sampled in __init__), not when the block was entered: an action created "
                        "under one action and entered elsewhere (another task, thread or generator) leaves the creator's action installed there after the block" % unparse(c)[:60])
    if by_value:
        # restoring by value (`_ACTION_CONTEXT.set(<what current_action() returned earlier>)`) instead of reset(token): beyond the witness above, not modelled
        raise AnalysisError("%s restores the previous action by value (`%s`) instead of resetting a token: this pairing is not modelled" % (by_value[0][0].fq, unparse(by_value[0][1])[:50]))
    for f, c, arg in sets:
        known = known_functions().get(f.module.short)
        if f.cls is not None and known is not None and not any(k.startswith(f.cls.name + ".") for k in known):
            raise AnalysisError("the context variable is set in %s, a method of a class the rules do not know (its pairing with a reset is not modelled)" % f.fq)
        cfg = ctx.cfg(f)
        node, mult = common.node_of_call(cfg, c)
        label = "%s:set" % f.fq
        where = chk.where(f, c.lineno)
        chk.need(node is not None, "set call not in CFG of %s" % f.fq)
        # C04.entered
        argok = isinstance(arg, ast.Name) and arg.id == "self" and f.cls is not None
        chk.req(argok, "C04.entered", label, where, good="the value installed is the action itself (self)",
                fail="the value installed by %s is not the action itself" % unparse(c))
        st = node.ast
        tok_local = tok_attr = None
        attr_store = st
        if isinstance(st, ast.Assign) and st.value is c and len(st.targets) == 1:
            t = st.targets[0]
            if isinstance(t, ast.Name):
                tok_local = t.id
            elif common.is_self_attr(t):
                tok_attr = t.attr
        if tok_local is not None and len(stores_to_name(f, tok_local)) == 1:
            # `token = <set>; self.<attr> = token` is the attribute protocol written with a temporary
            fwd = [n for n in iter_own_nodes(f.node) if isinstance(n, ast.Assign) and len(n.targets) == 1 and common.is_self_attr(n.targets[0])
                   and isinstance(n.value, ast.Name) and n.value.id == tok_local]
            uses_of_local = [n for n in iter_own_nodes(f.node) if isinstance(n, ast.Name) and n.id == tok_local and isinstance(n.ctx, ast.Load)]
            if len(fwd) == 1 and len(uses_of_local) == 1:
                fnode = [x for x in cfg.live if x.ast is fwd[0]]
                starts = [s_ for s_, l in node.succ if l != "exc"]
                if fnode and cfg.must_pass(starts, [cfg.exit], fnode, skip_labels=("exc",))[0]:
                    tok_attr, tok_local, attr_store = fwd[0].targets[0].attr, None, fwd[0]
        if tok_local is not None:
            single = len(stores_to_name(f, tok_local)) == 1
            rnodes = []
            for n in cfg.live:
                for c2, m2 in calls_in_node(n):
                    for ff, cc, aa in resets:
                        if ff is f and cc is c2 and isinstance(aa, ast.Name) and aa.id == tok_local:
                            rnodes.append(n)
                            matched_resets.add(id(c2))
            starts = [s for s, l in node.succ if l != "exc"]
            ok, wit = cfg.must_pass(starts, [cfg.exit, cfg.raise_exit], rnodes)
            chk.req(single and bool(rnodes) and ok, "C04.pair", label, where,
                    good="token %s (assigned once) is reset on every path from the set to every exit (%d reset node(s))" % (tok_local, len(rnodes)),
                    fail=("token %s is rebound" % tok_local) if not single else
                         ("no reset(%s) in %s" % (tok_local, f.fq)) if not rnodes else
                         "a path leaves %s without restoring the previous action: %s" % (f.fq, cfg.fmt_path(wit)),
                    sites=len(cfg.live))
        elif tok_attr is not None:
            # __enter__ -> __exit__ through self.<attr>
            ok_enter = f.name == "__enter__"
            ex = f.cls.find_method("__exit__") if f.cls else None
            if not ok_enter or ex is None:
                chk.bad("C04.pair", label, where, "token stored in self.%s outside the __enter__/__exit__ protocol" % tok_attr)
                continue
            xcfg = ctx.cfg(ex)
            rnodes = []
            snapshot_bad = []
            for n in xcfg.live:
                for c2, m2 in calls_in_node(n):
                    for ff, cc, aa in resets:
                        if ff is ex and cc is c2:
                            kind, nm, tmp = token_source(ex, aa)
                            if kind == "attr" and nm == tok_attr:
                                rnodes.append(n)
                                matched_resets.add(id(c2))
                                if tmp is not None:
                                    # the snapshot must be taken before the attribute is overwritten
                                    snap = [x for x in xcfg.live if isinstance(x.ast, ast.Assign) and isinstance(x.ast.targets[0], ast.Name) and x.ast.targets[0].id == tmp]
                                    wr = [x for x in xcfg.live if isinstance(x.ast, ast.Assign) and any(common.is_self_attr(t_, tok_attr) for t_ in x.ast.targets)]
                                    if not snap or (wr and not xcfg.precedes(snap, wr)[0]):
                                        snapshot_bad.append(tmp)
            ok1, wit = xcfg.must_pass([xcfg.entry], [xcfg.exit, xcfg.raise_exit], rnodes)
            # (whatever runs before the reset must not be able to leave __exit__ without it:
            #  that is exactly the must-pass query above, exceptional edges included)
            early = []
            # other writers of the token attribute
            writers = []
            for m in set(f.cls.methods.values()):
                for n in iter_own_nodes(m.node):
                    if isinstance(n, ast.Assign):
                        for t in n.targets:
                            if common.is_self_attr(t, tok_attr):
                                writers.append((m, n))
            bad_writers = []
            for m, n in writers:
                if m is f and n is attr_store:
                    continue
                if m is ex:
                    # allowed only after the reset
                    wnode = [x for x in xcfg.live if x.ast is n]
                    if wnode and not xcfg.precedes(rnodes, wnode)[0]:
                        bad_writers.append((m, n))
                    continue
                bad_writers.append((m, n))
            chk.req(bool(rnodes) and ok1 and not early and not bad_writers and not snapshot_bad, "C04.pair", label, where,
                    good="__exit__ resets with self.%s on every path to every exit (normal and exceptional)" % tok_attr,
                    fail=lambda: ("__exit__ has no reset(self.%s)" % tok_attr) if not rnodes else
                         ("a path through __exit__ skips the reset: %s" % xcfg.fmt_path(wit)) if not ok1 else
                         ("__exit__ does `%s` before restoring the previous action" % early[0].text()) if early else
                         ("the token is read into %s after self.%s was overwritten" % (snapshot_bad[0], tok_attr)) if snapshot_bad else
                         "self.%s is also written by %s" % (tok_attr, bad_writers[0][0].fq),
                    sites=len(xcfg.live))
        else:
            chk.bad("C04.only", label, where,
                    "`%s`: the token of this set is dropped, so the previous action can never be restored" % unparse(st)[:80])
    for f, c, arg in resets:
        if id(c) not in matched_resets:
            chk.bad("C04.only", "%s:reset" % f.fq, chk.where(f, c.lineno),
                    "reset(%s) is not paired with a set in the same scope/protocol" % (unparse(arg) if arg is not None else ""))
    others = [(f, n, k) for f, n, k, c in uses if k in ("other", "rebind")]
    for f, n, k in others:
        chk.bad("C04.only", "%s:%s" % (f.fq, k), chk.where(f, n.lineno),
                "the context variable is used other than through set/reset/get: %s" % k)
    if not others:
        chk.ok("C04.only", "context-variable:only-set-reset-get", chk.where(ca),
               "%d uses: %d set, %d reset, %d get" % (len(uses), len(sets), len(resets), len([1 for u in uses if u[2] == "get"])),
               sites=len(uses))
    gets = [(f, c) for f, n, k, c in uses if k == "get"]
    for f, c in gets:
        chk.req(f is ca, "C05.read", "%s:get" % f.fq, chk.where(f, c.lineno),
                good="read in current_action", fail="the context variable is read outside current_action()")
    return var


def rule_parent(chk):
    ctx = chk.ctx
    ca = ctx.func("_action", "current_action")
    sa = ctx.func("_action", "start_action")
    st = ctx.func("_action", "startTask")
    lm = ctx.func("_action", "log_message")
    child = ctx.func("_action", "Action.child")
    var, _, _ = context_var(chk)

    # start_action: parent only from current_action(); None -> startTask; else parent.child
    cfg = ctx.cfg(sa)
    ca_calls = ctx.calls_to(sa, ca)
    chk.need(ca_calls, "start_action no longer calls current_action()")
    pnames = set()
    for n, c, m in ca_calls:
        if isinstance(n.ast, ast.Assign) and n.ast.value is c and isinstance(n.ast.targets[0], ast.Name):
            pnames.add(n.ast.targets[0].id)
    chk.need(len(pnames) == 1, "start_action: current_action() result not bound to one local")
    pname = pnames.pop()
    rebound = len(stores_to_name(sa, pname)) != 1
    task_calls = ctx.calls_to(sa, st)
    child_calls = [(n, c, m) for (n, c, m) in ctx.calls_to(sa, child)]
    problems = []
    if rebound:
        problems.append("%s is rebound" % pname)
    if not task_calls or not child_calls:
        problems.append("both creation arms (start_task / parent.child) must exist")

    def polarity(node):
        """+1 if node only runs when pname is None, -1 if only when not None, 0 otherwise."""
        for t, lab in cfg.guards_of(node):
            if t.kind != "test":
                continue
            e = t.exprs[0]
            if isinstance(e, ast.Compare) and len(e.ops) == 1 and isinstance(e.left, ast.Name) and e.left.id == pname \
                    and isinstance(e.comparators[0], ast.Constant) and e.comparators[0].value is None:
                isnone = isinstance(e.ops[0], (ast.Is, ast.Eq))
                isnot = isinstance(e.ops[0], (ast.IsNot, ast.NotEq))
                if isnone:
                    return 1 if lab == "true" else -1
                if isnot:
                    return -1 if lab == "true" else 1
        return 0
    for n, c, m in task_calls:
        if polarity(n) != 1:
            problems.append("start_task arm at line %d is not taken exactly when there is no current action" % c.lineno)
    for n, c, m in child_calls:
        if polarity(n) != -1:
            problems.append("child creation at line %d is not guarded by `%s is not None`" % (c.lineno, pname))
        if not (isinstance(c.func, ast.Attribute) and isinstance(c.func.value, ast.Name) and c.func.value.id == pname):
            problems.append("child is not created from the current action (%s)" % unparse(c.func))
    chk.req(not problems, "C04.parent", "start_action:parent-from-current-action", chk.where(sa),
            good="parent = current_action(); None -> start_task, else parent.child(...)", fail="; ".join(problems), sites=len(cfg.live))

    # startTask never looks at the context
    def touches_context(f):
        for n in iter_own_nodes(f.node):
            if isinstance(n, ast.Call) and ca in ctx.targets(f, n):
                return n
            if isinstance(n, (ast.Name, ast.Attribute)) and var is not None:
                try:
                    ref = ctx.p.resolve_expr_static(f.module, f, n)
                except Exception:
                    ref = None
                if ref and ref[0] == "modvar" and ref[1] is var[1] and ref[2] == var[2]:
                    return n
        return None
    init = ctx.func("_action", "Action.__init__")
    for f in (st, init):
        t = touches_context(f)
        chk.req(t is None, "C04.parent", "%s:context-free" % f.fq, chk.where(f),
                good="does not read the current action", fail="%s reads the current action at line %s: start_task must always begin a new tree" % (f.fq, getattr(t, "lineno", "?")))
    # root construction in startTask: TaskLevel(level=[]) and uuid4()
    from . import c02
    c02.rule_uuid(chk, only=("startTask", "log_message"))
    # log_message: parent from current_action; context-less branch builds a root action and does not install it
    cfgm = ctx.cfg(lm)
    cac = ctx.calls_to(lm, ca)
    chk.req(bool(cac), "C04.parent", "log_message:parent-from-current-action", chk.where(lm),
            good="action = current_action()", fail="log_message does not obtain the action from current_action()")
    # the context-less arm builds a root action (empty level, fresh uuid) exactly when there is no current action
    from .. import exprs as X
    rs = c02.root_sites(ctx, lm)
    ctors = [(n, c) for n in cfgm.live for c, m in calls_in_node(n) if any(c is r for r in rs)]
    okroot = len(ctors) == 1
    if okroot:
        n_, c_ = ctors[0]
        # taken exactly when current_action() returned None
        cnames = {n.ast.targets[0].id for n, c, m in cac if isinstance(n.ast, ast.Assign) and n.ast.value is c and isinstance(n.ast.targets[0], ast.Name)}

        def none_branch(e, lab):
            e, lab = X.strip_not(e, lab)
            op = X.compare_of(e, lambda x: isinstance(x, ast.Name) and x.id in cnames, lambda x: X.is_const(x, None))
            if op in (ast.Is, ast.Eq):
                return lab == "true"
            if op in (ast.IsNot, ast.NotEq):
                return lab == "false"
            return False
        okroot = any(t.kind == "test" and none_branch(t.exprs[0], lab) for t, lab in cfgm.guards_of(n_))
    chk.req(okroot, "C04.parent", "log_message:context-less-message-is-its-own-root", chk.where(lm),
            good="without a current action: Action(logger, uuid4, TaskLevel(level=[]), ...) -- a one-message task",
            fail="a message logged with no current action is not placed in a fresh root (empty level) of its own")
    installs = [n for n in iter_own_nodes(lm.node) if isinstance(n, (ast.With, ast.AsyncWith))]
    chk.req(not installs and not any(k == "set" for f, n, k, c in (var_uses(chk, var) if var else []) if f is lm),
            "C04.parent", "log_message:does-not-install", chk.where(lm),
            good="the one-message task is not installed as current action", fail="log_message changes the current action")


def run(chk):
    rule_pairs(chk)
    rule_parent(chk)
    # a generator suspended inside `with action:` must not leave that action current in whoever drives it:
    # the repo's generator wrapper resumes the generator only inside the generator's own context (C15.inside)
    from . import c15
    cvar = c15.rule_ctx(chk)
    if cvar:
        c15.rule_inside(chk, cvar)
