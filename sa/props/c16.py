"""C16 -- loggers are safe to write to from many threads at once."""

import ast

from ..index import unparse, iter_own_nodes, AnalysisError
from ..cfg import calls_in_node
from ..framework import stores_to_name, assigned_values
from . import common

EXPLANATION = (
    "Lock-discipline analysis (E7) of MemoryLogger: the shared mutable fields are computed from the class "
    "body (attributes written by any method other than __init__); every method that reads or writes one of "
    "them must hold the per-instance lock for its whole body -- through a decorator that is *proved* to call "
    "the wrapped function only inside `with self._lock` and to return its result, or through a body that is "
    "one `with self._lock:` -- except private helpers called only from locked methods; the lock is created "
    "once per instance in __init__ before the first locked call; with a non-reentrant Lock no locked method "
    "calls a locked method on self; in write() the appends to the parallel lists happen exactly once each on "
    "every path with nothing that can raise between them.  File output: one write call per line and no "
    "mutable state in FileDestination (C10.line)."
    "  The threaded writer's own rules (C19: unregister before the stop marker is queued, reader leaves only on the marker, a destination failure is contained inside the loop, one delivery per dequeued item) are part of this property as well."
)
RULE = ("obligation = (method, shared field) pairs, the decorator proof, the lock creation, the parallel-list "
        "appends; non-trivial = the method's accesses / CFG paths were examined")
ASSUMPTIONS = [
    "a single write() call of the underlying io object is atomic w.r.t. other write() calls (stdlib); user file-like objects are the user's responsibility",
    "races inside Destinations (registration vs send) are covered by C12.lock, not here",
    "threading.Lock semantics (mutual exclusion, happens-before on release/acquire)",
]


def lock_decorators(chk):
    """Functions proved to be 'call the wrapped function while holding self._lock'.
    -> {FuncInfo decorator: lock attr}"""
    ctx = chk.ctx
    out = {}
    for f in ctx.p.mod("_output").funcs.values():
        if f.parent is not None or f.cls is not None or f.is_lambda or len(f.params) != 1:
            continue
        inner = [g for g in f.nested.values() if not g.is_lambda]
        if len(inner) != 1:
            continue
        g = inner[0]
        fparam = f.params[0]
        rets = [n for n in iter_own_nodes(f.node) if isinstance(n, ast.Return)]
        if not (len(rets) == 1 and isinstance(rets[0].value, ast.Name) and rets[0].value.id == g.name):
            continue
        cfg = ctx.cfg(g)
        calls = [(n, c) for n in cfg.live for c, m in calls_in_node(n) if isinstance(c.func, ast.Name) and c.func.id == fparam]
        if not calls or not g.params:
            continue
        selfp = g.params[0]
        enters = [n for n in cfg.live if n.kind == "with_enter" and isinstance(n.info["item"].context_expr, ast.Attribute)
                  and isinstance(n.info["item"].context_expr.value, ast.Name) and n.info["item"].context_expr.value.id == selfp]
        if enters:
            lock_attr = enters[0].info["item"].context_expr.attr
            exits = [n for n in cfg.live if n.kind == "with_exit" and unparse(n.info["item"].context_expr) == "%s.%s" % (selfp, lock_attr)]
        else:
            # explicit acquire() ... try: call finally: release()
            acq = [(n, c) for n in cfg.live for c, m in calls_in_node(n) if isinstance(c.func, ast.Attribute) and c.func.attr == "acquire" and not c.args and not c.keywords
                   and isinstance(c.func.value, ast.Attribute) and isinstance(c.func.value.value, ast.Name) and c.func.value.value.id == selfp]
            if not acq:
                continue
            lock_attr = acq[0][1].func.value.attr
            enters = [n for n, c in acq]
            exits = [n for n in cfg.live for c, m in calls_in_node(n) if isinstance(c.func, ast.Attribute) and c.func.attr == "release"
                     and unparse(c.func.value) == "%s.%s" % (selfp, lock_attr)]
            if not exits:
                continue
        ok = True
        for n, c in calls:
            # acquired before, released after, on every path
            if not cfg.precedes(enters, [n])[0]:
                ok = False
            if not cfg.must_pass([s for s, l in n.succ], [cfg.exit, cfg.raise_exit], exits)[0]:
                ok = False
            # result returned, receiver passed first
            if not (isinstance(n.ast, ast.Return) and n.ast.value is c):
                ok = False
            if not (c.args and isinstance(c.args[0], ast.Name) and c.args[0].id == selfp):
                ok = False
        rng = cfg.count_range(cfg.entry, [cfg.exit], lambda x: sum(1 for n, c in calls if n is x))
        if rng != (1, 1):
            ok = False
        if ok:
            out[f] = lock_attr
    return out


def method_locked(chk, m, lockdecs):
    """-> lock attr if m holds a lock for its whole body, else None"""
    ctx = chk.ctx
    for d in m.decorators:
        r = ctx.p.resolve_expr_static(m.module, None, d if not isinstance(d, ast.Call) else d.func)
        if r and r[0] == "func" and r[1] in lockdecs:
            return lockdecs[r[1]]
    body = [s for s in m.node.body if not (isinstance(s, ast.Expr) and isinstance(s.value, ast.Constant))]
    if len(body) == 1 and isinstance(body[0], ast.With) and len(body[0].items) == 1 and common.is_self_attr(body[0].items[0].context_expr):
        return body[0].items[0].context_expr.attr
    return None


def field_accesses(m):
    """{attr: 'r'|'w'|'rw'} for self.<attr> in method m (nested closures included)."""
    acc = {}
    for n in ast.walk(m.node):
        if isinstance(n, ast.Attribute) and isinstance(n.value, ast.Name) and n.value.id == "self":
            kind = "w" if isinstance(n.ctx, (ast.Store, ast.Del)) else "r"
            acc[n.attr] = "".join(sorted(set(acc.get(n.attr, "") + kind)))
    for n in ast.walk(m.node):
        if isinstance(n, ast.Call) and isinstance(n.func, ast.Attribute) and common.is_self_attr(n.func.value) and n.func.attr in (
                "append", "extend", "pop", "remove", "clear", "insert", "update", "sort"):
            a = n.func.value.attr
            acc[a] = "".join(sorted(set(acc.get(a, "") + "w")))
    return acc


def rule_lock(chk):
    ctx = chk.ctx
    cls = ctx.cls("_output", "MemoryLogger")
    lockdecs = lock_decorators(chk)
    chk.req(bool(lockdecs), "C16.wrapper", "exclusively:holds-the-instance-lock-around-the-call", chk.where(cls),
            good="decorator(s) %s proved: single call of the wrapped function inside `with self.%s`, result returned"
                 % (", ".join(f.fq for f in lockdecs), ",".join(sorted(set(lockdecs.values())))),
            fail="no decorator in _output.py is provably 'call the wrapped function once, inside with self._lock, and return its result'")
    methods = {}
    for name, m in cls.methods.items():
        methods.setdefault(m, []).append(name)
    # shared mutable fields: written by some method other than __init__
    shared = set()
    for m in methods:
        if m.name == "__init__":
            continue
        for a, k in field_accesses(m).items():
            if "w" in k:
                shared.add(a)
    lock_attrs = set(lockdecs.values()) or {"_lock"}
    shared -= lock_attrs
    chk.instances("C16.lock:shared mutable fields of MemoryLogger", len(shared), 4)
    locked = {m: method_locked(chk, m, lockdecs) for m in methods}
    n_touching = len([m for m in methods if m.name != "__init__" and any(a in shared for a in field_accesses(m))])
    chk.instances("C16.lock:methods of MemoryLogger touching shared fields", n_touching, 5)
    prod = set(ctx.p.all_funcs())
    for m in sorted(methods, key=lambda x: x.lineno):
        if m.name == "__init__":
            continue
        acc = {a: k for a, k in field_accesses(m).items() if a in shared}
        if not acc:
            continue
        label = "MemoryLogger.%s" % m.name
        if locked[m]:
            chk.ok("C16.lock", "%s:holds-lock" % label, chk.where(m), "touches %s under self.%s" % (sorted(acc), locked[m]), sites=len(acc))
            continue
        # the lock is taken for a part of the method only: every access to a shared field must lie inside a `with self.<lock>:` block, and what
        # leaves the block may not be the stored (mutable) elements themselves -- validate() rewrites the stored dictionaries in place
        withs = [x for x in iter_own_nodes(m.node) if isinstance(x, ast.With) and any(common.is_self_attr(it.context_expr) and it.context_expr.attr in lock_attrs for it in x.items)]
        if withs:
            inside = {id(y) for wth in withs for st_ in wth.body for y in ast.walk(st_)}
            outside_acc = [x for x in iter_own_nodes(m.node) if common.is_self_attr(x) and x.attr in shared and id(x) not in inside]
            if not outside_acc:
                escapes = []
                for wth in withs:
                    for st_ in wth.body:
                        if isinstance(st_, ast.Assign) and any(common.is_self_attr(y) and y.attr in shared for y in ast.walk(st_.value)):
                            copies = any(isinstance(y, ast.Call) and ((isinstance(y.func, ast.Attribute) and y.func.attr in ("copy", "deepcopy")) or (isinstance(y.func, ast.Name) and y.func.id in ("dict", "deepcopy")))
                                         and not any(common.is_self_attr(z) for z in ast.walk(y)) for y in ast.walk(st_.value))
                            used_after = any(isinstance(y, ast.Name) and any(isinstance(t_, ast.Name) and t_.id == y.id for t_ in st_.targets) and id(y) not in inside
                                             for y in iter_own_nodes(m.node))
                            if used_after and not copies:
                                escapes.append(st_)
                chk.req(not escapes, "C16.lock", "%s:holds-lock" % label, chk.where(m, (escapes or withs)[0].lineno),
                        good="touches %s only inside `with self.%s:`; what leaves the block are copies of the stored messages" % (sorted(acc), sorted(lock_attrs)[0]),
                        fail="`%s` takes only REFERENCES to the stored message dictionaries out of the locked block: they are read (copied, serialized) after the lock is released, while "
                             "validate() -- which rewrites the stored dictionaries in place, field by field -- may be half way through one of them" % (unparse(escapes[0])[:70] if escapes else ""),
                        sites=len(acc))
                continue
        # helper only called from locked methods of the class?
        callers = [s.func for s in ctx.cg.callers_of(m) if s.func in prod]
        helper_ok = m.name.startswith("_") and callers and all((c in locked and locked[c]) for c in callers)
        chk.req(helper_ok, "C16.lock", "%s:holds-lock" % label, chk.where(m),
                good="unlocked helper called only from locked methods (%s)" % ", ".join(sorted(c.name for c in callers)),
                fail="%s touches the shared fields %s without holding the instance lock: concurrent writers/validators can interleave inside it"
                     % (label, sorted(acc)), sites=len(acc))
    # aliases must alias the locked object
    for name, val in cls.attrs.items():
        if isinstance(val, (ast.Name, ast.Attribute)) and not isinstance(val, ast.Name):
            base = val
            while isinstance(base, ast.Attribute):
                base = base.value
            if isinstance(base, ast.Name) and base.id in cls.methods:
                chk.bad("C16.lock", "MemoryLogger.%s:alias-of-locked-method" % name, chk.where(cls),
                        "class attribute %s = %s bypasses the lock wrapper" % (name, unparse(val)))
    return locked, shared, lockdecs


def rule_lock_creation(chk, lock_attrs):
    ctx = chk.ctx
    cls = ctx.cls("_output", "MemoryLogger")
    init = cls.find_method("__init__")
    cfg = ctx.cfg(init)
    for la in sorted(lock_attrs):
        stores = []
        for m in set(cls.methods.values()):
            for n in iter_own_nodes(m.node):
                if isinstance(n, ast.Assign) and any(common.is_self_attr(t, la) for t in n.targets):
                    stores.append((m, n))
        ok = len(stores) == 1 and stores[0][0] is init and isinstance(stores[0][1].value, ast.Call)
        kind = None
        if ok:
            for t in ctx.cg.typer.resolve_call(init, stores[0][1].value):
                if t.kind == "ext" and t.ref in ("threading.Lock", "threading.RLock"):
                    kind = t.ref
            ok = kind is not None
        class_level = la in cls.attrs
        chk.req(ok and not class_level, "C16.wrapper", "MemoryLogger.%s:per-instance-lock" % la, chk.where(init),
                good="created once in __init__ from %s()" % kind,
                fail="the lock is not a per-instance threading.Lock/RLock created exactly once in __init__%s" % (" (class-level attribute shared by all instances)" if class_level else ""))
        if ok:
            snode = [n for n in cfg.live if n.ast is stores[0][1]]
            firstlocked = [n for n in cfg.live for c, m in calls_in_node(n) if isinstance(c.func, ast.Attribute) and common.is_self_attr(c.func.value) is False
                           and isinstance(c.func.value, ast.Name) and c.func.value.id == "self"]
            okp = cfg.precedes(snode, firstlocked)[0] if firstlocked else True
            chk.req(okp, "C16.wrapper", "MemoryLogger.%s:created-before-first-locked-call" % la, chk.where(init),
                    good="lock exists before __init__ calls any method", fail="__init__ calls a locked method before creating the lock")
        yield la, kind


def rule_noreentry(chk, locked, kinds):
    ctx = chk.ctx
    cls = ctx.cls("_output", "MemoryLogger")
    for m, la in locked.items():
        if not la or kinds.get(la) != "threading.Lock":
            continue
        for s in ctx.cg.sites[m]:
            for t in s.repo_targets():
                if t in locked and locked[t] == la and s.call is not None and isinstance(s.call.func, ast.Attribute) \
                        and isinstance(s.call.func.value, ast.Name) and s.call.func.value.id == "self":
                    chk.bad("C16.noreentry", "MemoryLogger.%s->%s" % (m.name, t.name), s.where,
                            "locked method calls locked method %s on self with a non-reentrant Lock: deadlock" % t.name)
    chk.ok("C16.noreentry", "MemoryLogger:no-locked-to-locked-self-calls", chk.where(cls), "no locked method calls a locked method on self")


def rule_pairing(chk):
    ctx = chk.ctx
    w = ctx.func("_output", "MemoryLogger.write")
    cfg = ctx.cfg(w)
    params = w.pos_params
    dparam, sparam = params[1], params[2]

    def appends(attr):
        return [(n, c) for n in cfg.live for c, m in calls_in_node(n)
                if isinstance(c.func, ast.Attribute) and c.func.attr == "append" and common.is_self_attr(c.func.value, attr)]
    am, as_ = appends("messages"), appends("serializers")
    chk.need(am and as_, "MemoryLogger.write no longer appends to messages/serializers")
    quiet = common.quiet_exc_edges(ctx, w)
    problems = []
    for lst, what, par in ((am, "messages", dparam), (as_, "serializers", sparam)):
        rng = cfg.count_range(cfg.entry, [cfg.exit], lambda x: sum(1 for n, c in lst if n is x), avoid_edges=quiet)
        if rng != (1, 1):
            problems.append("appends to %s per completed write range %s" % (what, rng))
        for n, c in lst:
            if not (len(c.args) == 1 and isinstance(c.args[0], ast.Name) and c.args[0].id == par and not stores_to_name(w, par)):
                problems.append("%s.append gets %s, not the %s given to write" % (what, unparse(c.args[0]) if c.args else "?", par))
    # the two lists move together: once one append happened the other follows before any exit
    an, sn_ = [n for n, c in am], [n for n, c in as_]
    for a_, b_, wa, wb in ((an, sn_, "messages", "serializers"), (sn_, an, "serializers", "messages")):
        first_of_pair = [x for x in a_ if not cfg.precedes(b_, [x])[0]]
        for x in first_of_pair:
            okp, wit = cfg.must_pass([s for s, l in x.succ if (x, l) not in quiet], [cfg.exit, cfg.raise_exit], b_, avoid_edges=quiet)
            if not okp:
                problems.append("after the append to %s a path leaves write without the append to %s: %s" % (wa, wb, cfg.fmt_path(wit)))
    # nothing that can raise between the two appends
    first = [n for n, c in am + as_]
    for a in first:
        region = cfg.reach([s for s, l in a.succ if l != "exc"], avoid=set(first))
        # nodes strictly between: those from which another append is still reachable
        for n in region:
            if n in (cfg.exit, cfg.raise_exit):
                continue
            reaches_other = any(x in cfg.reach([n]) for x in first if x is not a)
            if reaches_other:
                for c, m in calls_in_node(n):
                    if common.call_may_raise(ctx, w, c):
                        problems.append("`%s` can raise between the two appends: the parallel lists get out of step" % unparse(c)[:40])
    chk.req(not problems, "C16.pairing", "MemoryLogger.write:parallel-lists-in-step", chk.where(w),
            good="one append to each list on every path, given parameters, nothing raising in between", fail="; ".join(problems), sites=len(cfg.live))
    # traceback list
    at = appends("tracebackMessages")
    okt = bool(at)
    from .. import exprs as X

    def is_tb_serializer_edge(t, lab):
        """taking this branch means the message was written with the traceback serializer"""
        e, lab2 = X.strip_not(t.exprs[0], lab)
        op = X.compare_of(e, lambda x: isinstance(x, ast.Name) and x.id == sparam, lambda x: unparse(x) == "TRACEBACK_MESSAGE._serializer")
        return (op is ast.Is and lab2 == "true") or (op is ast.IsNot and lab2 == "false")
    for n, c in at:
        okt = okt and any(t.kind == "test" and is_tb_serializer_edge(t, lab) for t, lab in cfg.guards_of(n)) \
            and len(c.args) == 1 and isinstance(c.args[0], ast.Name) and c.args[0].id == dparam
    chk.req(okt, "C16.pairing", "MemoryLogger.write:traceback-list-consistent", chk.where(w),
            good="traceback messages recorded iff written with the traceback serializer, same dict",
            fail="tracebackMessages is not appended exactly for messages written with the traceback serializer")


def rule_file(chk):
    from . import c10
    c10.rule_line(chk, prefix="C16", flush=False)
    ctx = chk.ctx
    cls = ctx.cls("_output", "FileDestination")
    muts = []
    for m in set(cls.methods.values()):
        for n in iter_own_nodes(m.node):
            if isinstance(n, (ast.Assign, ast.AugAssign)):
                tg = n.targets if isinstance(n, ast.Assign) else [n.target]
                for t in tg:
                    b = t.value if isinstance(t, ast.Subscript) else t
                    if common.is_self_attr(b):
                        muts.append(n)
            if isinstance(n, ast.Call) and unparse(n.func) in ("object.__setattr__", "setattr"):
                muts.append(n)
    chk.req(not muts and any("PClass" in b for b in cls.base_exprs), "C16.file", "FileDestination:immutable-record", chk.where(cls),
            good="PClass record, no attribute store after construction", fail="FileDestination keeps mutable state shared between threads")


def run(chk):
    locked, shared, lockdecs = rule_lock(chk)
    kinds = dict(rule_lock_creation(chk, set(lockdecs.values()) or {"_lock"}))
    rule_noreentry(chk, locked, kinds)
    rule_pairing(chk)
    common.rule_instance_state(chk, "C16", [("_output", "MemoryLogger")])
    rule_file(chk)
    from . import c19
    c19.rule_writer(chk)  # many threads writing through the threaded writer: a line is dropped if the reader dies or stops early
