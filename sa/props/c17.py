"""C17 -- test helpers reconstruct the same action tree as the parser (partial)."""

import ast

from ..index import unparse, iter_own_nodes, AnalysisError
from ..cfg import calls_in_node
from ..framework import stores_to_name, assigned_values
from . import common
from .. import exprs as X

EXPLANATION = (
    "PARTIAL.  Not decided (headline): equality of the tree built by LoggedAction with the tree built by "
    "eliot.parse on every message list -- an equivalence of two algorithms over runtime data; the prefix "
    "arithmetic on task_level in fromMessages is not checked.  Decided: the selection predicates of "
    "LoggedAction.of_type / LoggedMessage.of_type are functions of the type/status fields only (dependency "
    "slice of the filter: reading task_level, task_uuid or a position is a violation) and compare with the "
    "requested type and the started status; the scan covers the whole message list in order with one result per "
    "selected message; fromMessages classifies same-level messages by action_status against the started and the "
    "two completed statuses (folded values equal _action's constants), skips other tasks' messages and recurses "
    "with the full list; descendants yields a child before that child's descendants, in children order; "
    "type_tree uses the same order; assertHasMessage/assertHasAction take element 0 after asserting "
    "non-emptiness, compare `succeeded`, and use the superset comparison of assertContainsFields."
    "  C03.truthful is included: the success flag the helpers expose is the status Action.finish stores, which must be 'succeeded' exactly when no exception was given."
    "  of_type may rebuild an action from that task's messages only if they are ALL of them in log order (defaultdict(list) + append loop); itertools.groupby over the unsorted log keeps the last run only."
)
RULE = "obligation = rule instance bound to a filter / loop / call of eliot/testing.py; non-trivial = expressions or CFG paths examined"
ASSUMPTIONS = ["agreement with eliot.parse on arbitrary trees is NOT decided by this check",
               "a harmless extra dependence of a selection predicate would also be flagged (conservative; stated in DESIGN.md)"]


def _keys_read(ctx, f, expr, var):
    """Folded keys of `var[...]` / var.get(...) inside expr; other uses of var -> '<other>'."""
    keys = set()
    consumed = set()
    for n in ast.walk(expr):
        if isinstance(n, ast.Subscript) and isinstance(n.value, ast.Name) and n.value.id == var:
            ok, k = ctx.try_fold(f, n.slice)
            keys.add(k if ok else "<unfoldable>")
            consumed.add(id(n.value))
        elif isinstance(n, ast.Call) and isinstance(n.func, ast.Attribute) and n.func.attr == "get" and isinstance(n.func.value, ast.Name) and n.func.value.id == var and n.args:
            ok, k = ctx.try_fold(f, n.args[0])
            keys.add(k if ok else "<unfoldable>")
            consumed.add(id(n.func.value))
    for n in ast.walk(expr):
        if isinstance(n, ast.Name) and n.id == var and id(n) not in consumed:
            keys.add("<whole message>")
    return keys


def _groupings(f, listparam):
    """Locals that hold the message list split by a key of each message, in log order:
    name -> ("ordered", key-expr, loop node)  for  `G = defaultdict(list)` + `for e in <list>: G[e[K]].append(e)` (every message kept, order kept)
    name -> ("runs", key-expr, node)          for  `{k: list(g) for k, g in groupby(<list>, key=...)}` (only the LAST consecutive run of each key survives)"""
    out = {}
    for x in iter_own_nodes(f.node):
        if isinstance(x, ast.For) and isinstance(x.iter, ast.Name) and x.iter.id == listparam and isinstance(x.target, ast.Name) and len(x.body) == 1 and not x.orelse \
                and isinstance(x.body[0], ast.Expr) and isinstance(x.body[0].value, ast.Call):
            c = x.body[0].value
            if isinstance(c.func, ast.Attribute) and c.func.attr == "append" and len(c.args) == 1 and isinstance(c.args[0], ast.Name) and c.args[0].id == x.target.id:
                recv = c.func.value
                g, key = None, None
                if isinstance(recv, ast.Subscript) and isinstance(recv.value, ast.Name):
                    g, key = recv.value.id, recv.slice
                elif isinstance(recv, ast.Call) and isinstance(recv.func, ast.Attribute) and recv.func.attr == "setdefault" and isinstance(recv.func.value, ast.Name) \
                        and len(recv.args) == 2 and isinstance(recv.args[1], ast.List) and not recv.args[1].elts:
                    g, key = recv.func.value.id, recv.args[0]
                if g is not None and isinstance(key, ast.Subscript) and isinstance(key.value, ast.Name) and key.value.id == x.target.id:
                    vals = [v for v in assigned_values(f, g) if not (isinstance(v, ast.Constant) and v.value is None)]
                    fresh = len(vals) == 1 and vals[0] is not None and (unparse(vals[0]) in ("defaultdict(list)", "collections.defaultdict(list)") if isinstance(recv, ast.Subscript)
                                                                       else unparse(vals[0]) in ("{}", "dict()"))
                    if fresh:
                        out[g] = ("ordered", key.slice, x)
        if isinstance(x, ast.Assign) and len(x.targets) == 1 and isinstance(x.targets[0], ast.Name) and isinstance(x.value, ast.DictComp) and len(x.value.generators) == 1:
            it = x.value.generators[0].iter
            if isinstance(it, ast.Call) and unparse(it.func).split(".")[-1] == "groupby" and it.args and isinstance(it.args[0], ast.Name) and it.args[0].id == listparam:
                out[x.targets[0].id] = ("runs", None, x)
    return out


def _scan(chk, f, listparam):
    """Locate the selection scan over `listparam`: returns (kind, loopvar, filter exprs, result exprs, problems)."""
    ctx = chk.ctx
    cfg = ctx.cfg(f)
    problems = []
    groups = _groupings(f, listparam)
    grouping_loops = {id(v[2]) for v in groups.values() if v[0] == "ordered"}
    loops = [n for n in cfg.live if n.kind == "for_next" and isinstance(n.ast.iter, ast.Name) and n.ast.iter.id == listparam and id(n.ast) not in grouping_loops]
    comps = [x for x in iter_own_nodes(f.node) if isinstance(x, ast.ListComp) and len(x.generators) == 1 and isinstance(x.generators[0].iter, ast.Name)
             and x.generators[0].iter.id == listparam]
    if loops:
        head = loops[0]
        lv = head.ast.target.id
        quiet = common.quiet_exc_edges(ctx, f)
        region = common.loop_region(cfg, head)
        apps = [(n, c) for n in region for c, m in calls_in_node(n) if isinstance(c.func, ast.Attribute) and c.func.attr == "append"
                and not (isinstance(c.func.value, ast.Subscript) and isinstance(c.func.value.value, ast.Name) and c.func.value.value.id in groups)
                and not (isinstance(c.func.value, ast.Call) and isinstance(c.func.value.func, ast.Attribute) and isinstance(c.func.value.func.value, ast.Name)
                         and c.func.value.func.value.id in groups)]
        if any(n.kind in ("break", "return") for n in region):
            problems.append("the scan can stop before the end of the message list")
        filt = []
        for n, c in apps:
            for t, lab in cfg.guards_of(n):
                if t.kind == "test" and t in region:
                    filt.append((t.exprs[0], lab))
        res = [c.args[0] for n, c in apps if c.args]
        if len(apps) != 1:
            problems.append("expected one append per selected message (found %d)" % len(apps))
        return "loop", lv, filt, res, problems
    if comps:
        g = comps[0].generators[0]
        return "comprehension", g.target.id, [(e, "true") for e in g.ifs], [comps[0].elt], problems
    # the result is produced group by group instead of message by message: its order is then the order of the groups, not of the log
    for x in iter_own_nodes(f.node):
        if isinstance(x, ast.For) and isinstance(x.iter, ast.Call) and isinstance(x.iter.func, ast.Attribute) and x.iter.func.attr in ("items", "values") \
                and isinstance(x.iter.func.value, ast.Name) and x.iter.func.value.id in groups:
            chk.bad("C17.select", "%s:selects-in-log-order" % f.qualname, chk.where(f, x.lineno),
                    "the result is built by walking `%s` task by task: actions of different tasks come out grouped by task (in order of each task's first message), not in the order in which "
                    "they were logged -- with interleaved tasks the list differs from the log order the helper is documented to keep" % unparse(x.iter)[:40])
            raise AnalysisError("%s: scan is per task" % f.fq)
    raise AnalysisError("%s: scan over %s not found (sliced / filtered / enumerated iteration is not modelled)" % (f.fq, listparam))


def rule_select(chk):
    ctx = chk.ctx
    p = ctx.p
    act, msg = p.mod("_action"), p.mod("_message")
    AT, AS = p.fold_global(act, "ACTION_TYPE_FIELD"), p.fold_global(act, "ACTION_STATUS_FIELD")
    STARTED = p.fold_global(act, "STARTED_STATUS")
    MT, UU, TL = (p.fold_global(msg, k) for k in ("MESSAGE_TYPE_FIELD", "TASK_UUID_FIELD", "TASK_LEVEL_FIELD"))
    la = ctx.func("testing", "LoggedAction.of_type")
    lparam = la.params[1]
    tparam = la.params[2]
    kind, lv, filt, res, problems = _scan(chk, la, lparam)
    keys = set()
    cmp_started = cmp_type = False
    for e, lab in filt:
        keys |= _keys_read(ctx, la, e, lv)
        for x in ast.walk(e):
            if isinstance(x, ast.Compare) and isinstance(x.ops[0], ast.Eq):
                sides = [x.left, x.comparators[0]]
                if any(ctx.try_fold(la, s) == (True, STARTED) for s in sides):
                    cmp_started = True
                if any(isinstance(s, ast.Name) and s.id == tparam for s in sides):
                    cmp_type = True
        extra_names = {x.id for x in ast.walk(e) if isinstance(x, ast.Name)} - {lv, tparam} - set(act.assigns) - {"ACTION_TYPE_FIELD", "ACTION_STATUS_FIELD", "STARTED_STATUS"}
        if extra_names - {n for n in extra_names if p.resolve_name(la.module, la, n)[0] in ("modvar", "builtin", "class", "func")}:
            problems.append("the filter also depends on %s" % sorted(extra_names))
    if keys != {AT, AS}:
        problems.append("the selection predicate reads %s of the candidate message; it must depend on exactly %s" % (sorted(map(str, keys)), sorted([AT, AS])))
    if not (cmp_started and cmp_type):
        problems.append("the predicate does not compare the type with the requested type and the status with %r" % STARTED)
    chk.req(not problems, "C17.select", "LoggedAction.of_type:selects-by-type-and-started-status-only", chk.where(la),
            good="%s over the whole list; predicate reads only %s/%s" % (kind, AT, AS), fail="; ".join(problems), sites=len(filt) + 1)
    # what is built per selected message
    fm = ctx.func("testing", "LoggedAction.fromMessages")
    okb = len(res) == 1 and isinstance(res[0], ast.Call) and fm in ctx.targets(la, res[0]) and len(res[0].args) == 3 \
        and unparse(res[0].args[0]) == "%s[%s]" % (lv, "TASK_UUID_FIELD") and unparse(res[0].args[1]) == "%s[%s]" % (lv, "TASK_LEVEL_FIELD") \
        and isinstance(res[0].args[2], ast.Name) and res[0].args[2].id == lparam
    if not okb and len(res) == 1 and isinstance(res[0], ast.Call) and len(res[0].args) == 3:
        a0, a1 = res[0].args[0], res[0].args[1]
        okb = fm in ctx.targets(la, res[0]) and isinstance(a0, ast.Subscript) and ctx.try_fold(la, a0.slice) == (True, UU) and isinstance(a1, ast.Subscript) \
            and ctx.try_fold(la, a1.slice) == (True, TL) and isinstance(res[0].args[2], ast.Name) and res[0].args[2].id == lparam
    if not okb and len(res) == 1 and isinstance(res[0], ast.Call) and len(res[0].args) == 3 and fm in ctx.targets(la, res[0]):
        # the third argument may be the messages of that task only, as long as it is ALL of them in log order (fromMessages skips other tasks anyway)
        def _res1(e):
            e = X.inline(la, e)
            if isinstance(e, ast.Name):
                vals_ = [v for v in assigned_values(la, e.id) if v is not None]
                if len(vals_) == 1:
                    return vals_[0]
            return e
        a0, a1, a2 = [_res1(a) for a in res[0].args]
        uu_ok = isinstance(a0, ast.Subscript) and isinstance(a0.value, ast.Name) and a0.value.id == lv and ctx.try_fold(la, a0.slice) == (True, UU)
        tl_ok = isinstance(a1, ast.Subscript) and isinstance(a1.value, ast.Name) and a1.value.id == lv and ctx.try_fold(la, a1.slice) == (True, TL)
        groups = _groupings(la, lparam)
        if uu_ok and tl_ok and isinstance(a2, ast.Subscript) and isinstance(a2.value, ast.Name) and a2.value.id in groups:
            kind_, key_, node_ = groups[a2.value.id]
            sl = _res1(a2.slice)
            same_key = isinstance(sl, ast.Subscript) and isinstance(sl.value, ast.Name) and sl.value.id == lv and ctx.try_fold(la, sl.slice) == (True, UU)
            if kind_ == "runs":
                chk.bad("C17.select", "LoggedAction.of_type:builds-each-action-from-the-full-list", chk.where(la, node_.lineno),
                        "each action is rebuilt from %s[...], a dict built from itertools.groupby over the log: groupby starts a new group whenever the key changes, so for a task whose messages "
                        "are interleaved with another task's (two threads, two asyncio tasks) only its LAST consecutive run of messages survives -- children are lost or the start message is "
                        "'missing', depending on the schedule" % a2.value.id)
                okb = None
            elif same_key and ctx.try_fold(la, key_) == (True, UU):
                okb = True
            else:
                raise AnalysisError("LoggedAction.of_type: the per-task message lists are keyed by something else than the task uuid (not modelled)")
        elif uu_ok and tl_ok and not (isinstance(a2, ast.Name) and a2.id == lparam):
            raise AnalysisError("LoggedAction.of_type: fromMessages is given %s instead of the message list (not modelled)" % unparse(res[0].args[2])[:40])
    if okb is not None:
        chk.req(okb, "C17.select", "LoggedAction.of_type:builds-each-action-from-the-full-list", chk.where(la),
                good="fromMessages(message uuid, message level, <all messages of that task, in log order>)", fail="the LoggedAction is not built from the start message's uuid/level and the full message list")
    lm = ctx.func("testing", "LoggedMessage.of_type")
    kind, lv, filt, res, problems = _scan(chk, lm, lm.params[1])
    keys = set()
    for e, lab in filt:
        keys |= _keys_read(ctx, lm, e, lv)
    if keys != {MT}:
        problems.append("the predicate reads %s; it must depend on exactly %s" % (sorted(map(str, keys)), MT))
    okr = len(res) == 1 and isinstance(res[0], ast.Call) and len(res[0].args) == 1 and isinstance(res[0].args[0], ast.Name) and res[0].args[0].id == lv
    if not okr:
        problems.append("the result is not one LoggedMessage(message) per selected message")
    chk.req(not problems, "C17.select", "LoggedMessage.of_type:selects-by-message-type-only", chk.where(lm),
            good="%s over the whole list; predicate reads only %s" % (kind, MT), fail="; ".join(problems))


def rule_own(chk):
    ctx = chk.ctx
    p = ctx.p
    act = p.mod("_action")
    AS = p.fold_global(act, "ACTION_STATUS_FIELD")
    STARTED, SUCC, FAIL = (p.fold_global(act, k) for k in ("STARTED_STATUS", "SUCCEEDED_STATUS", "FAILED_STATUS"))
    tm = p.mod("testing")
    comp = p.fold_global(tm, "COMPLETED_STATUSES")
    chk.req(set(comp) == {SUCC, FAIL}, "C17.own", "COMPLETED_STATUSES:equals-the-writer's-end-statuses", "%s:1" % tm.relpath,
            good="completed statuses = %s" % sorted(comp), fail="COMPLETED_STATUSES folds to %s, the writer's end statuses are %s" % (sorted(comp), sorted([SUCC, FAIL])))
    fm = ctx.func("testing", "LoggedAction.fromMessages")
    cfg = ctx.cfg(fm)
    mparam = fm.params[3]
    loops = [n for n in cfg.live if n.kind == "for_next" and isinstance(n.ast.iter, ast.Name) and n.ast.iter.id == mparam]
    chk.need(len(loops) == 1, "fromMessages: loop over all messages not found")
    head = loops[0]
    lv = head.ast.target.id
    region = common.loop_region(cfg, head)
    problems = []
    if any(n.kind in ("break", "return") for n in region):
        chk.bad("C17.own", "LoggedAction.fromMessages:classification-of-own-messages", chk.where(fm, next(n.lineno for n in region if n.kind in ("break", "return"))),
                "the scan over the messages can stop early: messages and child actions emitted after that point (e.g. a remote sub-task continued after the parent's end message) "
                "are dropped from children / descendants / type_tree, while the parser still attaches them")
        return

    env = X.single_assignments(fm)

    def is_status(x):
        """x reads the action_status of the loop's message"""
        if isinstance(x, ast.Call) and isinstance(x.func, ast.Attribute) and x.func.attr == "get" and isinstance(x.func.value, ast.Name) and x.func.value.id == lv and x.args:
            return ctx.try_fold(fm, x.args[0]) == (True, AS)
        return isinstance(x, ast.Subscript) and isinstance(x.value, ast.Name) and x.value.id == lv and ctx.try_fold(fm, x.slice) == (True, AS)

    def guard_facts(n):
        """(inlined test expression with leading nots stripped, label) for every test dominating n"""
        out = []
        for t, lab in cfg.guards_of(n):
            if t.kind == "test":
                e, lab2 = X.strip_not(X.inline(fm, t.exprs[0], env), lab)
                vals = e.values if isinstance(e, ast.BoolOp) and isinstance(e.op, ast.And) and lab2 == "true" else [e]
                out += [(v, lab2) for v in vals]
        return out

    def is_started(e, lab):
        op = X.compare_of(e, is_status, lambda x: ctx.try_fold(fm, x) == (True, STARTED))
        return (op is ast.Eq and lab == "true") or (op is ast.NotEq and lab == "false")

    def is_completed(e, lab):
        if isinstance(e, ast.Compare) and len(e.ops) == 1 and is_status(e.left):
            ok, v = ctx.try_fold(fm, e.comparators[0])
            if ok and v is not None and not isinstance(v, str):
                try:
                    same = set(v) == {SUCC, FAIL}
                except TypeError:
                    same = False
                return same and ((isinstance(e.ops[0], ast.In) and lab == "true") or (isinstance(e.ops[0], ast.NotIn) and lab == "false"))
        return False
    # which locals end up as the action's start and end message: the first two arguments of the constructor call returned at the end
    ctor = [v for _r, v in X.returns(fm) if isinstance(v, ast.Call) and len(v.args) >= 3]
    chk.need(len(ctor) == 1 and all(isinstance(a, ast.Name) for a in ctor[0].args[:2]), "fromMessages: `return <class>(start, end, children)` not found")
    start_name, end_name = ctor[0].args[0].id, ctor[0].args[1].id
    start_as = [n for n in region if isinstance(n.ast, ast.Assign) and isinstance(n.ast.targets[0], ast.Name) and n.ast.targets[0].id == start_name]
    end_as = [n for n in region if isinstance(n.ast, ast.Assign) and isinstance(n.ast.targets[0], ast.Name) and n.ast.targets[0].id == end_name]
    chk.need(start_as and end_as, "fromMessages: the start/end message variables are not assigned inside the scan over the messages")
    if not all(isinstance(n.ast.value, ast.Name) and n.ast.value.id == lv and any(is_started(e, lab) for e, lab in guard_facts(n)) for n in start_as):
        problems.append("the start message is not the same-level message with status %r" % STARTED)
    if not all(isinstance(n.ast.value, ast.Name) and n.ast.value.id == lv and any(is_completed(e, lab) for e, lab in guard_facts(n)) for n in end_as):
        problems.append("the end message is not the same-level message whose status is one of the two completed statuses")
    # level arithmetic that separates own messages from direct child actions
    lparam = fm.params[2]
    TL = p.fold_global(p.mod("_message"), "TASK_LEVEL_FIELD")

    def norm(e):
        """source text of e with temporaries substituted, the message's level written <L> and the start level's prefix <P>"""
        e = X.inline(fm, e, env)

        class R(ast.NodeTransformer):
            def visit_Subscript(self, node):
                self.generic_visit(node)
                if isinstance(node.value, ast.Name) and node.value.id == lv and ctx.try_fold(fm, node.slice) == (True, TL):
                    return ast.Name(id="<L>", ctx=ast.Load())
                if isinstance(node.value, ast.Name) and node.value.id == lparam and isinstance(node.slice, ast.Slice) and node.slice.lower is None \
                        and unparse(node.slice.upper) == "-1":
                    return ast.Name(id="<P>", ctx=ast.Load())
                return node
        return unparse(R().visit(e))
    def facts_at(n):
        """positive atomic conditions (normalised text) that hold at node n"""
        out = set()
        for t, lab in cfg.guards_of(n):
            if t.kind == "test":
                for a_, truth in X.atomic_facts(X.inline(fm, t.exprs[0], env), lab):
                    if truth:
                        out.add(norm(a_))
        return out
    rec_nodes = [n for n in region for c, m in calls_in_node(n) if fm in ctx.targets(fm, c)]
    own_nodes = start_as + end_as
    conj = set()
    for n in rec_nodes + own_nodes:
        conj |= facts_at(n)
    own_ok = bool(own_nodes) and all("<L>[:-1] == <P>" in facts_at(n) for n in own_nodes)
    rec_ok = bool(rec_nodes) and all({"len(<L>) == len(<P>) + 2", "<L>[:-2] == <P>", "<L>[-1] == 1"} <= facts_at(n) for n in rec_nodes)
    if not (own_ok and rec_ok):
        problems.append("own messages / direct child starts are not told apart by `level[:-1] == prefix` and `len == len(prefix)+2, level[:-2] == prefix, level[-1] == 1` (found %s)" % sorted(c for c in conj if "[" in c or "len" in c))
    # other tasks skipped
    UU = p.fold_global(p.mod("_message"), "TASK_UUID_FIELD")
    uparam = fm.params[1]
    def same_task(e, lab):
        op = X.compare_of(e, lambda x: isinstance(x, ast.Subscript) and isinstance(x.value, ast.Name) and x.value.id == lv and ctx.try_fold(fm, x.slice) == (True, UU),
                          lambda x: isinstance(x, ast.Name) and x.id == uparam)
        return (op is ast.Eq and lab == "true") or (op is ast.NotEq and lab == "false")
    # everything that classifies a message happens only for messages of this task
    acting = start_as + end_as + [n for n in region for c, m in calls_in_node(n) if isinstance(c.func, ast.Attribute) and c.func.attr == "append"]
    if not acting or not all(any(same_task(e, lab) for e, lab in guard_facts(n)) for n in acting):
        problems.append("messages of other tasks (different task_uuid) are not skipped")
    # recursion with the full list
    rec = [(n, c) for n in region for c, m in calls_in_node(n) if fm in ctx.targets(fm, c)]
    if not rec or not all(len(c.args) == 3 and isinstance(c.args[2], ast.Name) and c.args[2].id == mparam and isinstance(c.args[0], ast.Name) and c.args[0].id == uparam for n, c in rec):
        problems.append("child actions are not built recursively from the same uuid and the full message list")
    chk.req(not problems, "C17.own", "LoggedAction.fromMessages:classification-of-own-messages", chk.where(fm),
            good="start = status %r, end = completed status, others children; other tasks skipped; recursion over the full list" % STARTED, fail="; ".join(problems), sites=len(region))


def rule_preorder(chk):
    ctx = chk.ctx
    d = ctx.func("testing", "LoggedAction.descendants")
    cfg = ctx.cfg(d)
    loops = [n for n in cfg.live if n.kind == "for_next" and unparse(n.ast.iter) == "self.children"]
    problems = []
    if len(loops) != 1:
        # an iterative walk with an explicit work list: decided only where the order is visibly wrong
        rev = [x for x in iter_own_nodes(d.node) if isinstance(x, ast.Call) and isinstance(x.func, ast.Attribute) and x.func.attr == "extendleft" and x.args
               and not (isinstance(x.args[0], ast.Call) and unparse(x.args[0].func) == "reversed")]
        MUT = ("pop", "remove", "append", "clear", "insert", "sort", "reverse", "extend", "popleft", "appendleft", "extendleft", "__delitem__", "__setitem__")
        aliases = {t.id for x in iter_own_nodes(d.node) if isinstance(x, ast.Assign) and unparse(x.value) == "self.children" for t in x.targets if isinstance(t, ast.Name)}
        muts = [x for x in iter_own_nodes(d.node) if isinstance(x, ast.Call) and isinstance(x.func, ast.Attribute) and x.func.attr in MUT
                and (unparse(x.func.value) == "self.children" or (isinstance(x.func.value, ast.Name) and x.func.value.id in aliases))]
        if muts:
            problems.append("`%s` changes the action's own children list (the work list is bound to self.children itself, not to a copy): enumerating the descendants removes children from the "
                            "LoggedAction, so a second look at children / descendants / type_tree no longer matches the parsed tree" % unparse(muts[0])[:50])
        elif rev:
            problems.append("the work list is refilled with `%s`: deque.extendleft inserts its items one by one at the left, i.e. in REVERSED order, so the children of every nested action are "
                            "enumerated last-to-first (visible as soon as a non-root action has two children)" % unparse(rev[0])[:60])
        elif any(isinstance(x, ast.Yield) for x in iter_own_nodes(d.node)) or any(isinstance(x, ast.Return) for x in iter_own_nodes(d.node)):
            raise AnalysisError("LoggedAction.descendants is not the recursive `for child in self.children` walk (traversal order of this shape is not modelled)")
        else:
            problems.append("descendants does not enumerate self.children")
    else:
        head = loops[0]
        lv = head.ast.target.id
        region = common.loop_region(cfg, head)
        ych = [n for n in region for e in n.exprs for x in ast.walk(e) if isinstance(x, ast.Yield) and isinstance(x.value, ast.Name) and x.value.id == lv]
        recs = [n for n in region for c, m in calls_in_node(n) if isinstance(c.func, ast.Attribute) and c.func.attr == "descendants" and isinstance(c.func.value, ast.Name) and c.func.value.id == lv]
        body = [s for s, l in head.succ if l == "body"]
        if not ych or not recs:
            problems.append("descendants must yield each child and recurse into child actions")
        else:
            if not cfg.must_pass(body, recs, ych, skip_labels=("exc",))[0]:
                problems.append("a child's descendants can be enumerated before the child itself (not pre-order)")
            if not cfg.must_pass(body, [head], ych, skip_labels=("exc",))[0]:
                problems.append("some child is not yielded")
            rg = [(t, lab) for r in recs for t, lab in cfg.guards_of(r) if t.kind == "test" and t in region]
            if not all("isinstance(%s, LoggedAction)" % lv in unparse(t.exprs[0]) and lab == "true" for t, lab in rg) or not rg:
                problems.append("recursion is not exactly for child actions")
    chk.req(not problems, "C17.preorder", "LoggedAction.descendants:pre-order-in-children-order", chk.where(d),
            good="for child in self.children: yield child, then its descendants", fail="; ".join(problems))
    tt = ctx.func("testing", "LoggedAction.type_tree")
    tcfg = ctx.cfg(tt)
    loops = [n for n in tcfg.live if n.kind == "for_next" and unparse(n.ast.iter) == "self.children"]
    comps = [x for x in iter_own_nodes(tt.node) if isinstance(x, (ast.ListComp, ast.GeneratorExp)) and len(x.generators) == 1 and unparse(x.generators[0].iter) == "self.children"]
    okt = len(loops) == 1
    if not loops and len(comps) == 1:
        # one element per child, in children order: a comprehension over self.children without a filter
        okt = not comps[0].generators[0].ifs
    elif okt:
        region = common.loop_region(tcfg, loops[0])
        apps = [c for n in region for c, m in calls_in_node(n) if isinstance(c.func, ast.Attribute) and c.func.attr == "append"]
        body = [s for s, l in loops[0].succ if l == "body"]
        okt = len(apps) == 2 and tcfg.count_range(body[0], [loops[0]], lambda x: sum(1 for c, m in calls_in_node(x) if isinstance(c.func, ast.Attribute) and c.func.attr == "append")) == (1, 1)
    chk.req(okt, "C17.preorder", "LoggedAction.type_tree:children-in-order", chk.where(tt), good="one entry per child, in children order", fail="type_tree does not add exactly one entry per child in children order")


def rule_first(chk):
    ctx = chk.ctx
    p = ctx.p
    act = p.mod("_action")
    AS = p.fold_global(act, "ACTION_STATUS_FIELD")
    SUCC = p.fold_global(act, "SUCCEEDED_STATUS")
    for q, oftype, extra in (("assertHasMessage", "LoggedMessage.of_type", 1), ("assertHasAction", "LoggedAction.of_type", 2)):
        f = ctx.func("testing", q)
        cfg = ctx.cfg(f)
        oft = ctx.func("testing", oftype)
        calls = ctx.calls_to(f, oft)
        problems = []
        lst = None
        if len(calls) != 1 or not isinstance(calls[0][0].ast, ast.Assign):
            problems.append("does not collect the entries with %s exactly once" % oftype)
        else:
            lst = calls[0][0].ast.targets[0].id
            c = calls[0][1]
            if not (len(c.args) == 2 and unparse(c.args[0]) == "%s.messages" % f.params[1] and isinstance(c.args[1], ast.Name) and c.args[1].id == f.params[2]):
                problems.append("the entries are not taken from logger.messages for the requested type")
        if lst:
            def is_first(e):
                return isinstance(e, ast.Subscript) and isinstance(e.value, ast.Name) and e.value.id == lst and ctx.try_fold(f, e.slice) == (True, 0)
            named = [n for n in cfg.live if isinstance(n.ast, ast.Assign) and is_first(n.ast.value) and isinstance(n.ast.targets[0], ast.Name)]
            firsts = named or [n for n in cfg.live if any(is_first(x) for e in n.exprs for x in ast.walk(e))]
            bad_index = [x for n in cfg.live for e in n.exprs for x in ast.walk(e) if isinstance(x, ast.Subscript) and isinstance(x.value, ast.Name) and x.value.id == lst and not is_first(x)]
            if bad_index:
                problems.append("takes %s instead of the first entry" % unparse(bad_index[0]))
            asserts = [n for n in cfg.live for c, m in calls_in_node(n) if isinstance(c.func, ast.Attribute) and c.func.attr == "assertTrue" and c.args and unparse(c.args[0]) == lst]
            if not firsts:
                problems.append("does not take element 0 of the entries")
            elif not asserts or not cfg.precedes(asserts, firsts)[0]:
                problems.append("non-emptiness is not asserted before taking the first entry")
            acf = ctx.func("testing", "assertContainsFields")
            n_acf = len(ctx.calls_to(f, acf))
            if n_acf != extra:
                problems.append("expected %d assertContainsFields call(s), found %d" % (extra, n_acf))
            if q == "assertHasAction":
                eqs = [c for n in cfg.live for c, m in calls_in_node(n) if isinstance(c.func, ast.Attribute) and c.func.attr == "assertEqual"]
                if not any(len(c.args) == 2 and {unparse(c.args[0]).split(".")[-1], unparse(c.args[1]).split(".")[-1]} >= {"succeeded"} and f.params[3] in (unparse(c.args[0]), unparse(c.args[1])) for c in eqs):
                    problems.append("the outcome is not compared with the expected `succeeded` flag")
            rets = common.returns_of(cfg)
            first_name = named[0].ast.targets[0].id if named else None
            if firsts and not all((first_name and isinstance(r.ast.value, ast.Name) and r.ast.value.id == first_name) or is_first(r.ast.value) for r in rets):
                problems.append("does not return the first entry")
        chk.req(not problems, "C17.first", "%s:first-entry-outcome-superset" % q, chk.where(f), good="first entry of the type; asserted non-empty; fields compared as superset", fail="; ".join(problems))
    acf = ctx.func("testing", "assertContainsFields")
    txt = " ".join(unparse(s) for s in acf.node.body)
    okc = "if key in %s" % acf.params[2] in txt and "assertEqual" in txt and "%s.items()" % acf.params[1] in txt
    chk.req(okc, "C17.first", "assertContainsFields:superset-comparison", chk.where(acf), good="restricts the message to the expected keys and compares for equality",
            fail="assertContainsFields no longer compares the message restricted to the expected keys with the expectation")
    su = ctx.func("testing", "LoggedAction.succeeded")
    rets = [n for n in iter_own_nodes(su.node) if isinstance(n, ast.Return)]
    oks = len(rets) == 1 and isinstance(rets[0].value, ast.Compare) and isinstance(rets[0].value.ops[0], ast.Eq) and "endMessage" in unparse(rets[0].value.left) \
        and ctx.try_fold(su, rets[0].value.left.slice if isinstance(rets[0].value.left, ast.Subscript) else ast.Constant(value=0)) == (True, AS) \
        and ctx.try_fold(su, rets[0].value.comparators[0]) == (True, SUCC)
    chk.req(oks, "C17.first", "LoggedAction.succeeded:end-status-is-succeeded", chk.where(su), good="endMessage[action_status] == %r" % SUCC, fail="succeeded is %s" % (rets and unparse(rets[0].value)))


def run(chk):
    # "its success flag": LoggedAction.succeeded reads the end message's status, which Action.finish must set truthfully
    from . import c03
    c03.rule_truthful(chk)
    rule_select(chk)
    rule_own(chk)
    rule_preorder(chk)
    rule_first(chk)
