"""C12 -- start-up buffering and (un)registration lose and duplicate no message."""

import ast

from ..index import unparse, iter_own_nodes, AnalysisError
from ..cfg import calls_in_node
from ..framework import stores_to_name, assigned_values
from .. import exprs as X
from . import common

EXPLANATION = (
    "Ordering / pairing rules on BufferingDestination and Destinations.add, plus a lock-discipline rule: the "
    "buffer appends at the tail and evicts from the head while longer than the documented 1000 and is the sole "
    "initial destination; on the first add (guarded by a flag that is set there and never cleared) the buffered "
    "list is captured before the destination list is replaced, the new destinations are installed exactly once "
    "and BEFORE the re-delivery loop, which sends every captured message exactly once in order through send(); "
    "on later adds the re-delivery loop is unreachable (constant propagation of the captured-list variable); "
    "global fields are merged inside send before the fan-out; remove() removes only the given element.  "
    "C12.lock: the hand-over state is read by send() from any thread and swapped by add() with no common lock -- "
    "reported on the pinned tree as a KNOWN FINDING (genuine lost-message race, see DESIGN.md section 4, D5)."
    "  The buffer is a list: add() iterates the live buffer while send() may append, which a deque answers with RuntimeError."
    "  The threaded writer's own rules (C19: unregister before the stop marker is queued, reader leaves only on the marker, a destination failure is contained inside the loop, one delivery per dequeued item) are part of this property as well."
    '  Destinations.add/remove may not store a value computed from an earlier read of the destination list without a lock (lost update).'
    "  The buffering destination's list may not be replaced during the hand-over (a store to <buffer>.messages in add / an expanded helper)."
)
RULE = ("obligation = rule instance bound to a statement / loop / flag of BufferingDestination, Destinations.add/"
        "remove/send; non-trivial = CFG paths examined")
ASSUMPTIONS = [
    "arbitrary interleavings of add/remove/log from several threads are decided only through the lock-discipline rule C12.lock",
    "list.append/pop(0)/extend semantics",
]

DOCUMENTED_BOUND = 1000


def rule_buffer(chk):
    ctx = chk.ctx
    bcls = ctx.cls("_output", "BufferingDestination")
    call = bcls.find_method("__call__")
    init = bcls.find_method("__init__")
    if call is not None and init is None and "messages" in bcls.attrs:
        chk.bad("C12.buffer", "BufferingDestination.messages:per-instance", chk.where(bcls),
                "the buffer list is a class-level attribute shared by every BufferingDestination (every Destinations instance, e.g. in tests, replays the others' messages)")
        return
    chk.need(call is not None and init is not None, "BufferingDestination.__call__/__init__ vanished")
    cfg = ctx.cfg(call)
    mparam = call.pos_params[1]
    # storage kind
    store = None
    for n in iter_own_nodes(init.node):
        if isinstance(n, ast.Assign) and any(common.is_self_attr(t, "messages") for t in n.targets):
            store = n.value
    chk.need(store is not None, "BufferingDestination.messages not initialised in __init__")
    apps = [(n, c) for n in cfg.live for c, m in calls_in_node(n) if isinstance(c.func, ast.Attribute) and common.is_self_attr(c.func.value, "messages")
            and c.func.attr in ("append", "appendleft", "insert", "extend")]
    problems = []
    rebinds = [n for n in iter_own_nodes(call.node) if isinstance(n, (ast.Assign, ast.AugAssign)) and any(
        common.is_self_attr(t, "messages") for t in (n.targets if isinstance(n, ast.Assign) else [n.target]))]
    if rebinds:
        problems.append("the buffer list is rebound in __call__ (line %d): add() re-delivers from the list object it captured, so messages appended after a rebind are delivered nowhere" % rebinds[0].lineno)
    rng = cfg.count_range(cfg.entry, [cfg.exit], lambda x: sum(1 for n, c in apps if n is x))
    if rng != (1, 1) or not all(c.func.attr == "append" and len(c.args) == 1 and isinstance(c.args[0], ast.Name) and c.args[0].id == mparam for n, c in apps):
        problems.append("each call must append exactly the given message at the tail once (range %s)" % (rng,))
    bound = None
    if isinstance(store, ast.List) and not store.elts:
        # explicit eviction
        ev = [(n, c) for n in cfg.live for c, m in calls_in_node(n) if isinstance(c.func, ast.Attribute) and common.is_self_attr(c.func.value, "messages") and c.func.attr == "pop"]
        dels = [n for n in cfg.live if isinstance(n.ast, ast.Delete) and "self.messages" in unparse(n.ast)]
        if not ev and not dels and not rebinds:
            problems.append("nothing is ever evicted: unbounded buffer")
        for n, c in ev:
            if not (len(c.args) == 1 and isinstance(c.args[0], ast.Constant) and c.args[0].value == 0):
                problems.append("eviction `%s` does not remove the oldest message" % unparse(c))
            g = [(t, lab) for t, lab in cfg.guards_of(n) if t.kind == "test"]
            okg = False
            for t, lab in g:
                e = t.exprs[0]
                if isinstance(e, ast.Compare) and len(e.ops) == 1 and unparse(e.left) == "len(self.messages)" and lab == "true":
                    okb, b = ctx.try_fold(call, e.comparators[0])
                    if not okb and common.is_self_attr(e.comparators[0]):
                        # a per-instance bound: self.<attr> = <parameter with a constant default>, and the library builds its own buffer with that default
                        battr = e.comparators[0].attr
                        writes = [(m_, x) for m_ in set(call.cls.methods.values()) for x in iter_own_nodes(m_.node)
                                  if isinstance(x, (ast.Assign, ast.AugAssign)) and any(common.is_self_attr(t_, battr) for t_ in (x.targets if isinstance(x, ast.Assign) else [x.target]))]
                        a_ = init.node.args
                        pos_ = a_.posonlyargs + a_.args
                        dflt = dict(zip([z.arg for z in pos_[len(pos_) - len(a_.defaults):]], a_.defaults))
                        dflt.update({z.arg: d_ for z, d_ in zip(a_.kwonlyargs, a_.kw_defaults) if d_ is not None})
                        if len(writes) == 1 and writes[0][0] is init and isinstance(writes[0][1], ast.Assign) and isinstance(writes[0][1].value, ast.Name) and writes[0][1].value.id in dflt \
                                and not stores_to_name(init, writes[0][1].value.id):
                            okd, dv = ctx.try_fold(init, dflt[writes[0][1].value.id])
                            ctor_sites = [x for f_ in ctx.p.all_funcs() for x in iter_own_nodes(f_.node) if isinstance(x, ast.Call) and isinstance(x.func, ast.Name) and x.func.id == call.cls.name]
                            if okd and ctor_sites and all(not x.args and not x.keywords for x in ctor_sites):
                                okb, b = True, dv
                            elif okd:
                                raise AnalysisError("BufferingDestination is built with an explicit bound somewhere (%s): not modelled" % [unparse(x)[:40] for x in ctor_sites if x.args or x.keywords][:1])
                    if okb and isinstance(e.ops[0], ast.Gt):
                        bound = b
                        okg = True
                    elif okb and isinstance(e.ops[0], ast.GtE):
                        bound = b - 1
                        okg = True
            if not okg:
                problems.append("eviction is not guarded by len(self.messages) > bound")
        if ev and not cfg.precedes([n for n, c in apps], [n for n, c in ev])[0]:
            problems.append("eviction can run before the append")
    elif isinstance(store, ast.Call) and unparse(store.func).split(".")[-1] == "deque":
        kw = {k.arg: k.value for k in store.keywords}
        ml = kw.get("maxlen", store.args[1] if len(store.args) > 1 else None)
        if ml is not None:
            okb, bound = ctx.try_fold(init, ml)
            if not okb:
                bound = None
        problems.append("the buffer is a collections.deque: add() re-delivers by iterating the live buffer (C12.handover requires that), and a deque raises RuntimeError('deque mutated during "
                        "iteration') as soon as a concurrent send() appends to it, so the rest of the buffered messages is lost; a list tolerates appends during iteration")
    else:
        problems.append("buffer storage %s not recognised" % unparse(store))
    if bound != DOCUMENTED_BOUND and not problems:
        problems.append("the buffer retains %s messages, the documented bound is %d" % (bound, DOCUMENTED_BOUND))
    chk.req(not problems, "C12.buffer", "BufferingDestination:tail-append-head-evict-bound-1000", chk.where(call),
            good="append at tail; oldest evicted while longer than %d" % DOCUMENTED_BOUND, fail="; ".join(problems), sites=len(cfg.live))
    dinit = ctx.func("_output", "Destinations.__init__")
    ok = False
    for n in iter_own_nodes(dinit.node):
        if isinstance(n, ast.Assign) and any(common.is_self_attr(t, "_destinations") for t in n.targets):
            v = n.value
            ok = isinstance(v, ast.List) and len(v.elts) == 1 and isinstance(v.elts[0], ast.Call) and bcls.find_method("__init__") in ctx.targets(dinit, v.elts[0])
    chk.req(ok, "C12.buffer", "Destinations.__init__:buffer-is-sole-initial-destination", chk.where(dinit),
            good="_destinations = [BufferingDestination()]", fail="the initial destination list is not exactly one BufferingDestination")


def rule_handover(chk):
    ctx = chk.ctx
    add = ctx.func("_output", "Destinations.add")
    send = ctx.func("_output", "Destinations.send")
    cfg = ctx.cfg(add)
    cls = add.cls
    # the flag
    flag_tests = []
    for t in cfg.live:
        if t.kind == "test":
            e = t.exprs[0]
            if isinstance(e, ast.UnaryOp) and isinstance(e.op, ast.Not) and common.is_self_attr(e.operand, "_any_added"):
                flag_tests.append((t, "true"))
            elif common.is_self_attr(e, "_any_added"):
                flag_tests.append((t, "false"))
    chk.need(len(flag_tests) == 1, "Destinations.add: first-add test on self._any_added not found exactly once")
    ft, flab = flag_tests[0]
    other = "false" if flab == "true" else "true"
    writers = []
    for m in set(cls.methods.values()):
        for n in iter_own_nodes(m.node):
            if isinstance(n, ast.Assign) and any(common.is_self_attr(t, "_any_added") for t in n.targets):
                writers.append((m, n))
    set_true = [n for n in cfg.live if isinstance(n.ast, ast.Assign) and any(common.is_self_attr(t, "_any_added") for t in n.ast.targets)
                and isinstance(n.ast.value, ast.Constant) and n.ast.value.value is True]
    okflag = bool(set_true) and all(cfg.edge_dominates(ft, flab, n) for n in set_true) \
        and all((m.name == "__init__" and isinstance(n.value, ast.Constant) and n.value.value is False) or (m is add and isinstance(n.value, ast.Constant) and n.value.value is True)
                for m, n in writers)
    # set on every first-add path
    starts = [s for s, l in ft.succ if l == flab]
    okflag = okflag and cfg.must_pass(starts, [cfg.exit], set_true)[0]
    chk.req(okflag, "C12.handover", "Destinations.add:first-add-flag-set-once-never-cleared", chk.where(add, ft.lineno),
            good="flag False in __init__, set True on every first-add path, no other writer", fail="the first-add flag is not set exactly on the first add / is written elsewhere")
    # capture before replacement
    caps = [n for n in cfg.live if isinstance(n.ast, ast.Assign) and isinstance(n.ast.targets[0], ast.Name) and "self._destinations[0].messages" in unparse(X.inline(add, n.ast.value))]
    cap_is_destination = False
    if not caps:
        # the buffering destination itself is captured (`buffer = self._destinations[0]`) and its .messages read later
        caps = [n for n in cfg.live if isinstance(n.ast, ast.Assign) and isinstance(n.ast.targets[0], ast.Name) and unparse(n.ast.value) == "self._destinations[0]"]
        cap_is_destination = bool(caps)
    repl = [n for n in cfg.live if isinstance(n.ast, ast.Assign) and any(common.is_self_attr(t, "_destinations") for t in n.ast.targets)]
    inplace = [n for n in cfg.live for c, m in calls_in_node(n) if isinstance(c.func, ast.Attribute) and common.is_self_attr(c.func.value, "_destinations")
               and c.func.attr in ("clear", "pop", "remove", "__delitem__")]
    inplace += [n for n in cfg.live if isinstance(n.ast, (ast.Delete, ast.Assign)) and any(
        isinstance(t, ast.Subscript) and common.is_self_attr(t.value, "_destinations") for t in (n.ast.targets if hasattr(n.ast, "targets") else []))]
    if inplace:
        chk.bad("C12.handover", "Destinations.add:buffer-swapped-out-by-rebinding", chk.where(add, inplace[0].lineno),
                "`%s` empties the destination list in place: a logging thread that is iterating that very list inside send() runs on into the newly installed destinations (duplicate / out-of-order delivery); "
                "the hand-over must rebind self._destinations to a fresh list" % inplace[0].text()[:60])
        if not repl:
            return
    chk.need(caps and repl, "Destinations.add: capture of the buffered list / replacement of _destinations not found")
    capname = caps[0].ast.targets[0].id
    fresh_capture = isinstance(caps[0].ast.value, ast.Call)  # list(...) snapshot is fine too
    okcap = cfg.precedes(caps, repl)[0] and all(cfg.edge_dominates(ft, flab, n) for n in caps + repl)
    chk.req(not fresh_capture, "C12.handover", "Destinations.add:redelivers-from-the-live-buffer", chk.where(add, caps[0].lineno),
            good="the re-delivery loop iterates the buffer's own list, so messages appended by concurrent loggers while it runs are still delivered",
            fail="the buffer is snapshotted (%s) before re-delivery: every message a concurrent logger appends to the old buffer after the copy is delivered nowhere" % unparse(caps[0].ast.value)[:60])
    chk.req(okcap, "C12.handover", "Destinations.add:buffer-captured-before-swap", chk.where(add, caps[0].lineno),
            good="%s captured before _destinations is replaced, on the first-add arm only" % capname,
            fail="the buffered messages are not captured before the destination list is replaced (they are lost)")
    # install exactly once, before re-delivery
    dparam = add.node.args.vararg.arg if add.node.args.vararg else None
    inst = [(n, c) for n in cfg.live for c, m in calls_in_node(n) if isinstance(c.func, ast.Attribute) and common.is_self_attr(c.func.value, "_destinations")
            and c.func.attr in ("extend", "append")]
    rng = cfg.count_range(cfg.entry, [cfg.exit], lambda x: sum(1 for n, c in inst if n is x), avoid_edges=common.quiet_exc_edges(ctx, add))
    okinst = rng == (1, 1) and all(c.func.attr == "extend" and len(c.args) == 1 and isinstance(c.args[0], ast.Name) and c.args[0].id == dparam for n, c in inst)
    chk.req(okinst, "C12.handover", "Destinations.add:installs-given-destinations-exactly-once", chk.where(add),
            good="_destinations.extend(<given destinations>) exactly once on every path", fail="installation of the given destinations per add ranges %s / is not extend(%s)" % (rng, dparam))
    loops = [n for n in cfg.live if n.kind == "for_next" and isinstance(n.ast.iter, ast.Name) and n.ast.iter.id == capname]
    if cap_is_destination:
        loops = [n for n in cfg.live if n.kind == "for_next" and unparse(n.ast.iter) == "%s.messages" % capname]
    # the buffer's list may not be replaced during the hand-over: a sender that already holds the buffering destination appends to
    # whatever list the destination has at that moment, and only the list being iterated is ever read again
    detach = [n for n in cfg.live if isinstance(n.ast, ast.Assign) and n.kind != "test" and any(
        isinstance(x, ast.Attribute) and isinstance(x.ctx, ast.Store) and x.attr == "messages" for t in n.ast.targets for x in ast.walk(t))]
    if detach:
        chk.bad("C12.handover", "Destinations.add:redelivers-from-the-live-buffer", chk.where(add, detach[0].lineno),
                "`%s` gives the buffering destination a NEW list during the hand-over and re-delivers from the detached old one: a logging thread that had already fetched the buffering "
                "destination inside send() appends its message to the new list, which nobody reads -- the message is lost" % detach[0].text()[:70])
        return
    chk.need(len(loops) == 1, "Destinations.add: re-delivery loop over the captured list not found")
    head = loops[0]
    okorder = cfg.precedes([n for n, c in inst], [head])[0] and cfg.must_pass([cfg.entry], [n for n, c in inst], repl, avoid_edges={(ft, other)})[0]
    chk.req(okorder, "C12.handover", "Destinations.add:install-before-redelivery", chk.where(add, head.lineno),
            good="buffer swapped out, new destinations installed, then re-delivery", fail="buffered messages are re-sent before the new destinations are installed (they go nowhere, or back into the buffer)")
    quiet = common.quiet_exc_edges(ctx, add)
    total, n_, s_ = common.loop_is_total(cfg, head, quiet)
    region = common.loop_region(cfg, head, avoid_edges=quiet)
    sends = [(n, c) for n in region for c, m in calls_in_node(n) if send in ctx.targets(add, c)]
    lv = head.ast.target.id if isinstance(head.ast.target, ast.Name) else None
    rng2 = cfg.count_range([s for s, l in head.succ if l == "body"][0], [head], lambda x: sum(1 for n, c in sends if n is x), avoid_edges=quiet) if total else None
    okloop = total and rng2 == (1, 1) and all(len(c.args) >= 1 and isinstance(c.args[0], ast.Name) and c.args[0].id == lv and isinstance(c.func, ast.Attribute)
                                                and isinstance(c.func.value, ast.Name) and c.func.value.id == "self" for n, c in sends)
    chk.req(okloop, "C12.handover", "Destinations.add:redelivers-each-buffered-message-once-in-order", chk.where(add, head.lineno),
            good="for message in <captured list>: self.send(message) -- once each, list order", fail="re-delivery is not exactly one self.send(message) per buffered message (range %s)" % (rng2,),
            sites=len(region))
    # later adds never re-deliver
    inf = common.infeasible_edges(cfg, add, avoid_edges={(ft, flab)})
    r = cfg.reach([cfg.entry], avoid_edges={(ft, flab)} | inf)
    chk.req(not any(n in r for n, c in sends), "C12.handover", "Destinations.add:redelivery-only-on-first-add", chk.where(add, head.lineno),
            good="without the first-add arm the captured-list variable is None/empty: the loop is unreachable",
            fail="the re-delivery loop is reachable on a later add: buffered messages can be delivered again / to destinations of a later call")


def rule_global(chk):
    ctx = chk.ctx
    send = ctx.func("_output", "Destinations.send")
    cfg = ctx.cfg(send)
    mparam = send.pos_params[1]
    ups = [n for n in cfg.live for c, m in calls_in_node(n) if isinstance(c.func, ast.Attribute) and c.func.attr == "update" and isinstance(c.func.value, ast.Name)
           and c.func.value.id == mparam and len(c.args) == 1 and common.is_self_attr(c.args[0], "_globalFields")]
    from . import c08
    _s, _c, head, var = c08.fanout_loop(chk)
    ok = bool(ups) and cfg.precedes(ups, [head])[0]
    chk.req(ok, "C12.global", "Destinations.send:global-fields-merged-before-fan-out", chk.where(send),
            good="message.update(self._globalFields) dominates the fan-out loop (so re-delivered buffered messages carry the fields set by then)",
            fail="global fields are not merged into every message before delivery")
    ag = ctx.func("_output", "Destinations.addGlobalFields")
    okg = any(isinstance(n, ast.Call) and isinstance(n.func, ast.Attribute) and n.func.attr == "update" and common.is_self_attr(n.func.value, "_globalFields")
              for n in iter_own_nodes(ag.node))
    chk.req(okg, "C12.global", "Destinations.addGlobalFields:updates-the-shared-dict", chk.where(ag), good="_globalFields.update(fields)", fail="addGlobalFields does not update the global field dict")


def rule_atomic_updates(chk):
    """Every update of the destination list is one in-place container operation (list.extend / list.remove: one step under the
    interpreter lock) or a store of a value that does not derive from an earlier read of the list.  A read--copy--store sequence
    outside any lock loses whichever of two concurrent add()/remove() calls stores first."""
    ctx = chk.ctx
    found = 0
    for q in ("Destinations.add", "Destinations.remove"):
        g = ctx.func("_output", q)
        locked = any(isinstance(x, ast.With) for x in iter_own_nodes(g.node))
        tainted = set()
        changed = True
        reads = lambda e: any(common.is_self_attr(y, "_destinations") and isinstance(y.ctx, ast.Load) for y in ast.walk(e)) or any(isinstance(y, ast.Name) and y.id in tainted for y in ast.walk(e))
        while changed:
            changed = False
            for x in iter_own_nodes(g.node):
                if isinstance(x, ast.Assign) and reads(x.value):
                    for t in x.targets:
                        if isinstance(t, ast.Name) and t.id not in tainted:
                            tainted.add(t.id)
                            changed = True
        for x in iter_own_nodes(g.node):
            if isinstance(x, (ast.Assign, ast.AugAssign)) and any(common.is_self_attr(t, "_destinations") for t in (x.targets if isinstance(x, ast.Assign) else [x.target])):
                found += 1
                if (isinstance(x, ast.AugAssign) or reads(x.value)) and not locked:
                    chk.bad("C12.remove", "%s:destination-list-updated-in-one-step" % q, chk.where(g, x.lineno),
                            "`%s` stores a value computed from an earlier read of self._destinations with no lock held: of two concurrent add()/remove() calls the one that stores last "
                            "overwrites the other's update -- a destination whose add() already returned is dropped (it never receives later messages), or a removed one comes back" % unparse(x)[:70])
    chk.ok("C12.remove", "Destinations:list-updates-examined", "eliot/_output.py", "%d stores to self._destinations examined in add/remove" % found, sites=max(found, 1))


def rule_remove(chk):
    ctx = chk.ctx
    rm = ctx.func("_output", "Destinations.remove")
    dparam = rm.pos_params[1]
    rule_atomic_updates(chk)
    calls = [n for n in iter_own_nodes(rm.node) if isinstance(n, ast.Call)]
    inplace = [c for c in calls if isinstance(c.func, ast.Attribute) and c.func.attr == "remove" and common.is_self_attr(c.func.value, "_destinations")]
    if not inplace:
        if any(o.status == "VIOLATED" and o.rule == "C12.remove" for o in chk.obs):
            return
        raise AnalysisError("Destinations.remove does not call self._destinations.remove(...) (not modelled)")
    ok = len(inplace) == 1 and len(inplace[0].args) == 1 and isinstance(inplace[0].args[0], ast.Name) and inplace[0].args[0].id == dparam and not stores_to_name(rm, dparam)
    others = [c for c in calls if c not in inplace and any(common.is_self_attr(y, "_destinations") for y in ast.walk(c))]
    stores = [n for n in iter_own_nodes(rm.node) if isinstance(n, (ast.Assign, ast.AugAssign, ast.Delete))
              and any(common.is_self_attr(y, "_destinations") or common.is_self_attr(y, "_any_added") for t in (n.targets if not isinstance(n, ast.AugAssign) else [n.target]) for y in ast.walk(t))]
    chk.req(ok and not stores and not others, "C12.remove", "Destinations.remove:removes-exactly-the-given-destination", chk.where(rm),
            good="self._destinations.remove(destination) is the only change to the destination list",
            fail="remove() removes %s / also changes the destination list by %s" % ([unparse(c)[:40] for c in inplace], [unparse(x)[:40] for x in stores + others]))


def rule_lock(chk):
    """E7 on the hand-over state."""
    ctx = chk.ctx
    cls = ctx.cls("_output", "Destinations")
    state = {"_destinations", "_any_added"}
    init = cls.find_method("__init__")
    locks = set()
    for n in iter_own_nodes(init.node):
        if isinstance(n, ast.Assign) and isinstance(n.value, ast.Call):
            for t in ctx.cg.typer.resolve_call(init, n.value):
                if t.kind == "ext" and t.ref in ("threading.Lock", "threading.RLock"):
                    for tg in n.targets:
                        if common.is_self_attr(tg):
                            locks.add(tg.attr)
    unlocked = []
    examined = 0
    for mname in ("send", "add", "remove"):
        m = cls.find_method(mname)
        chk.need(m is not None, "Destinations.%s vanished" % mname)
        cfg = ctx.cfg(m)
        for n in cfg.live:
            touched = set()
            for e in n.exprs + ([n.ast.iter] if n.kind == "for_iter" else []):
                for x in ast.walk(e):
                    if isinstance(x, ast.Attribute) and isinstance(x.value, ast.Name) and x.value.id == "self" and x.attr in state:
                        touched.add(x.attr)
            if not touched:
                continue
            examined += 1
            held = False
            for la in locks:
                enters = [w for w in cfg.live if w.kind == "with_enter" and common.is_self_attr(w.info["item"].context_expr, la)]
                exits = [w for w in cfg.live if w.kind == "with_exit" and common.is_self_attr(w.info["item"].context_expr, la)]
                if enters and cfg.precedes(enters, [n])[0] and cfg.must_pass([n], [cfg.exit, cfg.raise_exit], exits)[0]:
                    held = True
            if not held:
                unlocked.append((m, n, sorted(touched)))
    if unlocked:
        m, n, t = unlocked[0]
        chk.bad("C12.lock", "Destinations.add/send", chk.where(cls),
                "the hand-over state %s is read by send() (any logging thread) and swapped by add() without a common lock (%d unlocked accesses, first: %s:%d %s): "
                "a thread that already read the old destination list appends to the orphaned buffer after the re-delivery finished, and the message is delivered nowhere"
                % (sorted(state), len(unlocked), m.fq, n.lineno, t), sites=examined)
    else:
        chk.ok("C12.lock", "Destinations.add/send", chk.where(cls), "every access of %s in send/add/remove holds self.%s" % (sorted(state), "/".join(sorted(locks))), sites=examined)


def run(chk):
    rule_buffer(chk)
    rule_handover(chk)
    rule_global(chk)
    rule_remove(chk)
    common.rule_instance_state(chk, "C12", [("_output", "Destinations"), ("_output", "BufferingDestination")])
    common.rule_defaults(chk, "C12", modules=("_output",))
    from . import c13
    c13.rule_copy(chk)  # the start-up buffer retains what Logger.write hands it: it must be a private copy, not the caller's (re-usable) dict
    rule_lock(chk)
    from . import c19
    c19.rule_writer(chk)  # unregistration of the threaded writer: the stop marker is queued only after the writer stopped accepting messages
