"""C08 -- every destination gets each message once, in order; faults isolated and reported."""

import ast

from ..index import unparse, iter_own_nodes, AnalysisError
from ..cfg import calls_in_node, INF, handler_catches_all_exceptions
from ..contain import protecting_handler, in_handler
from ..framework import stores_to_name, assigned_values
from .. import exprs as X
from . import common

EXPLANATION = (
    "Path analysis of Destinations.send on its CFG (exceptional edges refined by the call "
    "classification): the fan-out loop over the registered destinations has no exit other than "
    "exhaustion, invokes the loop variable exactly once per iteration on every path with the unmodified "
    "message object, inside a handler catching at least Exception whose every exit continues the loop; "
    "the error list is appended exactly once per caught failure iff the recursion guard is false; the "
    "report loop logs exactly one eliot:destination_failure per collected error through log_message with "
    "the required keys; the guard constant and key agree by folded value with the report's own type "
    "(termination of the report recursion); who-may-call: destinations are invoked and the list is "
    "mutated nowhere else."
    "  The threaded writer's own rules (C19: unregister before the stop marker is queued, reader leaves only on the marker, a destination failure is contained inside the loop, one delivery per dequeued item) are part of this property as well."
)
RULE = ("obligation = rule instance bound to a loop / call site / handler / constant of Destinations.send "
        "and its callers; distinct constructs; non-trivial = at least one CFG path examined")
ASSUMPTIONS = [
    "delivery order across threads is not decided (no lock in Destinations; see C12.lock)",
    "list iteration and list.append on the library's own lists do not raise",
]


def _send(chk):
    return chk.ctx.func("_output", "Destinations.send")


def fanout_anchor(ctx):
    """The containment analysis (which exceptions can leave which call) rests on the fan-out loop of Destinations.send; without it in a
    recognisable form every result that depends on "logging does not raise" is unfounded: not evaluated."""
    send = ctx.func("_output", "Destinations.send")
    cfg = ctx.cfg(send)
    WHOLE = ("self._destinations", "self._destinations[:]", "list(self._destinations)", "tuple(self._destinations)", "self._destinations.copy()")
    loops = common.for_loops(cfg, lambda st: unparse(st.iter) in WHOLE)
    partial = common.for_loops(cfg, lambda st: "self._destinations" in unparse(st.iter))
    if len(loops) != 1 and not partial:
        raise AnalysisError("fan-out loop `for <dest> in self._destinations` not found exactly once in Destinations.send (found %d): the exception-containment analysis has no anchor" % len(loops))


def _return_value_witness(chk, send):
    """A destination's return value is unspecified (file.write returns a count, callbacks return True, ...): code that hands each
    destination to a helper and takes the helper's result as "the failure" may not let the destination's own return value through."""
    ctx = chk.ctx
    for n in iter_own_nodes(send.node):
        if not isinstance(n, (ast.ListComp, ast.GeneratorExp, ast.For)):
            continue
        it = n.generators[0].iter if not isinstance(n, ast.For) else n.iter
        tgt = n.generators[0].target if not isinstance(n, ast.For) else n.target
        if "self._destinations" not in unparse(it) or not isinstance(tgt, ast.Name):
            continue
        for c in ast.walk(n):
            if isinstance(c, ast.Call) and isinstance(c.func, ast.Name) and any(isinstance(a, ast.Name) and a.id == tgt.id for a in c.args):
                for h in ctx.targets(send, c):
                    idx = [i for i, a in enumerate(c.args) if isinstance(a, ast.Name) and a.id == tgt.id][0]
                    if idx >= len(h.pos_params):
                        continue
                    dp = h.pos_params[idx]
                    for r in iter_own_nodes(h.node):
                        if isinstance(r, ast.Return) and isinstance(r.value, ast.Call) and isinstance(r.value.func, ast.Name) and r.value.func.id == dp:
                            chk.bad("C08.report", "send:only-raised-exceptions-are-failures", chk.where(h, r.lineno),
                                    "%s returns `%s`, the destination's own return value, where its caller expects the exception the destination raised (or None): a destination that accepts "
                                    "the message but returns anything (file.write's count, True, ...) is reported as failed -- a spurious eliot:destination_failure for every message"
                                    % (h.name, unparse(r.value)[:50]))
                            return True
    return False


def fanout_loop(chk):
    send = _send(chk)
    cfg = chk.ctx.cfg(send)
    _return_value_witness(chk, send)
    WHOLE = ("self._destinations", "self._destinations[:]", "list(self._destinations)", "tuple(self._destinations)", "self._destinations.copy()")
    loops = common.for_loops(cfg, lambda st: unparse(st.iter) in WHOLE)
    if not loops:
        partial = common.for_loops(cfg, lambda st: "self._destinations" in unparse(st.iter))
        for h in partial:
            chk.bad("C08.fanout", "send:iterates-whole-list", chk.where(send, h.lineno),
                    "the fan-out loop iterates %s, not every registered destination" % unparse(h.ast.iter))
        if partial:
            raise AnalysisError("fan-out loop does not iterate the whole destination list")
    chk.need(len(loops) == 1, "fan-out loop `for <dest> in self._destinations` not found exactly once in Destinations.send (found %d)" % len(loops))
    head = loops[0]
    chk.need(isinstance(head.ast.target, ast.Name), "fan-out loop target is not a simple name")
    return send, cfg, head, head.ast.target.id


def rule_fanout(chk):
    ctx = chk.ctx
    send, cfg, head, var = fanout_loop(chk)
    quiet = common.quiet_exc_edges(ctx, send)
    where = chk.where(send, head.lineno)
    ok, n, s = common.loop_is_total(cfg, head, quiet)
    chk.req(ok, "C08.fanout", "send:loop-has-no-early-exit", where,
            good="every path through the loop body returns to the loop head",
            fail="the fan-out loop can be left early at %s -> %s: later destinations do not get the message"
                 % (n and cfg.fmt_path([n]), s and s.text()))
    if not ok:
        return []
    # exactly one invocation per iteration
    region = common.loop_region(cfg, head, avoid_edges=quiet)
    inv = []
    for n in region:
        for c, m in calls_in_node(n):
            if isinstance(c.func, ast.Name) and c.func.id == var:
                inv.append((n, c, m))
    chk.need(inv, "no invocation of the loop variable %r in the fan-out loop" % var)

    def w(n):
        return sum(1 for (nn, c, m) in inv if nn is n)
    body_starts = [s for s, l in head.succ if l == "body"]
    # count along paths body-start -> head (next iteration)
    rng = cfg.count_range(body_starts[0], [head], w, avoid_edges=quiet)
    mults = {m for (_, _, m) in inv}
    chk.req(rng == (1, 1) and mults == {"once"}, "C08.fanout", "send:one-invocation-per-destination", where,
            good="min=max=1 invocation of %s(...) on every path of one iteration" % var,
            fail="invocations of the destination per iteration range %s (multiplicity %s): a destination is skipped or called twice on some path" % (rng, sorted(mults)),
            sites=len(region))
    # same unmodified message
    for n, c, m in inv:
        args_ok = len(c.args) == 1 and not c.keywords and isinstance(c.args[0], ast.Name)
        if args_ok:
            # the same object for every destination: the name is not rebound inside the loop
            nm = c.args[0].id
            args_ok = not any(isinstance(x.ast, (ast.Assign, ast.AugAssign)) and nm in {y.id for y in ast.walk(x.ast) if isinstance(y, ast.Name) and isinstance(y.ctx, ast.Store)}
                              for x in region if x.ast is not None)
            # and it denotes the message given to send (the parameter, or a merge/copy of it made before the loop)
            if nm not in send.params:
                vals = [v for v in assigned_values(send, nm) if v is not None]
                args_ok = args_ok and bool(vals) and all(any(isinstance(y, ast.Name) and y.id in send.params for y in ast.walk(v)) for v in vals)
        chk.req(args_ok, "C08.fanout", "send:same-message-object", chk.where(send, c.lineno),
                good="every destination is called with the same message object %s" % (c.args[0].id if c.args else "?"),
                fail="destinations are not all called with the one message given to send: %s" % unparse(c))
        site_ctx = ctx.cg.ctxmaps[send].get(id(c), [])
        ph = protecting_handler(site_ctx)
        chk.req(ph is not None, "C08.fanout", "send:destination-call-contained", chk.where(send, c.lineno),
                good="handler at line %s catches >= Exception" % (ph[1].lineno if ph else "?"),
                fail="destination call is not inside a try catching at least Exception: one failing destination starves the others")
    # the loop iterates the attribute itself, not a slice/filter (whole list, in order)
    chk.ok("C08.fanout", "send:iterates-whole-list", where, "iterates self._destinations directly (whole list, list order)")
    return inv


def guard_info(chk):
    """Locate the recursion guard: variable G = (message.get(K, ..) == CONST)."""
    ctx = chk.ctx
    send = _send(chk)
    out = []
    for n in iter_own_nodes(send.node):
        if isinstance(n, ast.Assign) and len(n.targets) == 1 and isinstance(n.targets[0], ast.Name) \
                and isinstance(n.value, ast.Compare) and len(n.value.ops) == 1 and isinstance(n.value.ops[0], ast.Eq):
            l, r = n.value.left, n.value.comparators[0]
            for a, b in ((l, r), (r, l)):
                if isinstance(a, ast.Call) and isinstance(a.func, ast.Attribute) and a.func.attr == "get" and a.args \
                        and isinstance(a.func.value, ast.Name) and a.func.value.id in send.params:
                    okk, k = ctx.try_fold(send, a.args[0])
                    okg, g = ctx.try_fold(send, b)
                    if okk and okg:
                        out.append((n.targets[0].id, k, g, n, a.func.value.id))
    return out


def guard_cut(chk, record=True):
    """C08.guard (i)-(iv).  Returns (ok, detail)."""
    ctx = chk.ctx
    p = ctx.p
    send = _send(chk)
    cfg = ctx.cfg(send)
    msgmod = p.mod("_message")
    outmod = p.mod("_output")
    problems = []
    K = p.fold_global(msgmod, "MESSAGE_TYPE_FIELD")
    G = p.fold_global(outmod, "DESTINATION_FAILURE")
    gi = guard_info(chk)
    if not gi:
        return False, "no guard of the form <var> = (message.get(K) == CONST) in send"
    gvar, k, g, gnode, msgname = gi[0]
    if k != K:
        problems.append("guard reads key %r but the message type key is %r" % (k, K))
    if g != G:
        problems.append("guard compares with %r but reports are typed %r" % (g, G))
    if stores_to_name(send, gvar) and len(stores_to_name(send, gvar)) != 1:
        problems.append("guard variable %s is assigned more than once" % gvar)
    # (ii) appends in handler context are dominated by the guard being false
    appends = []
    ctxmap = ctx.cg.ctxmaps[send]
    for n in cfg.live:
        for c, m in calls_in_node(n):
            if isinstance(c.func, ast.Attribute) and c.func.attr in ("append", "extend", "add", "insert") and in_handler(ctxmap.get(id(c), [])):
                appends.append((n, c))
    if not appends:
        problems.append("no error collection in the handler")
    for n, c in appends:
        guards = cfg.guards_of(n)
        okg = False
        for t, lab in guards:
            if t.kind != "test":
                continue
            e = t.exprs[0]
            if isinstance(e, ast.UnaryOp) and isinstance(e.op, ast.Not) and isinstance(e.operand, ast.Name) and e.operand.id == gvar and lab == "true":
                okg = True
            if isinstance(e, ast.Name) and e.id == gvar and lab == "false":
                okg = True
        if not okg:
            problems.append("error collection at line %d is not control-dependent on the guard being false" % c.lineno)
    # (iii) the report dict stores G under K
    rep = report_dict(chk)
    if rep is None:
        problems.append("report message not found")
    else:
        keys = rep
        if K not in keys:
            problems.append("report does not store its type under %r" % K)
        else:
            okv, v = ctx.try_fold(send, keys[K])
            if not okv or v != G:
                problems.append("report is typed %r, the guard tests %r" % (v if okv else unparse(keys[K]), G))
    # (iv) log_message -> Action.log -> write keeps K
    lm = ctx.func("_action", "log_message")
    alog = ctx.func("_action", "Action.log")
    pos = lm.pos_params
    if not pos or pos[0] != K:
        problems.append("log_message's first parameter is %r, but the report passes its type under keyword %r" % (pos[:1], K))
    else:
        passes = False
        for n in iter_own_nodes(lm.node):
            if isinstance(n, ast.Call) and alog in ctx.targets(lm, n) and n.args and isinstance(n.args[0], ast.Name) and n.args[0].id == pos[0]:
                passes = True
        if not passes or stores_to_name(lm, pos[0]):
            problems.append("log_message does not pass its message_type parameter unchanged to Action.log")
    apos = alog.pos_params
    wcalls = [(n, c) for n in ctx.cfg(alog).live for c, _m in calls_in_node(n)
              if isinstance(c.func, ast.Attribute) and c.func.attr == "write" and c.args and isinstance(c.args[0], ast.Name)]
    if not wcalls or len(apos) < 2:
        problems.append("Action.log: write call not found")
    else:
        for n, c in wcalls:
            st = common.must_keys(ctx, alog, c.args[0].id, c)
            v = st.present.get(K) if st else None
            if not v or not (isinstance(v[1], ast.Name) and v[1].id == apos[1]):
                problems.append("Action.log does not store its message_type parameter under %r before write" % K)
    detail = "guard %s = (%s.get(%r) == %r); report typed %r under %r; log_message/Action.log preserve it" % (gvar, msgname, k, g, G, K)
    if problems:
        return False, "; ".join(problems)
    return True, detail


def report_loop(chk):
    """The loop that reports the collected errors."""
    ctx = chk.ctx
    send = _send(chk)
    cfg = ctx.cfg(send)
    ctxmap = ctx.cg.ctxmaps[send]
    lists = set()
    for n in iter_own_nodes(send.node):
        if isinstance(n, ast.Call) and isinstance(n.func, ast.Attribute) and n.func.attr == "append" \
                and isinstance(n.func.value, ast.Name) and in_handler(ctxmap.get(id(n), [])):
            lists.add(n.func.value.id)
    shared = [n for n in iter_own_nodes(send.node) if isinstance(n, ast.Call) and isinstance(n.func, ast.Attribute) and n.func.attr in ("append", "add", "extend")
              and not isinstance(n.func.value, ast.Name) and in_handler(ctxmap.get(id(n), []))]
    for n in shared:
        chk.bad("C08.report", "send:error-list-is-per-call", chk.where(send, n.lineno),
                "failures are collected in %s, which outlives the call: concurrent or re-entrant sends report each other's failures (or drop them)" % unparse(n.func.value))
    for nm in sorted(lists):
        vals = assigned_values(send, nm)
        if not (vals and all(isinstance(v, (ast.List, ast.Call)) and (isinstance(v, ast.List) and not v.elts or isinstance(v, ast.Call) and unparse(v.func) in ("list", "deque")) for v in vals if v is not None)):
            chk.bad("C08.report", "send:error-list-is-per-call", chk.where(send),
                    "the error list %s is not created empty inside send (%s)" % (nm, [v is not None and unparse(v)[:30] for v in vals]))
    loops = common.for_loops(cfg, lambda st: any(isinstance(x, ast.Name) and x.id in lists for x in ast.walk(st.iter)))
    return send, cfg, loops, lists


def report_dict(chk):
    """key -> value ast of the dict passed (by **) to log_message in the report loop."""
    ctx = chk.ctx
    send, cfg, loops, lists = report_loop(chk)
    lm = ctx.func("_action", "log_message")
    for head in loops:
        region = common.loop_region(cfg, head)
        for n in region:
            for c, m in calls_in_node(n):
                if lm in ctx.targets(send, c):
                    for kw in c.keywords:
                        if kw.arg is None and isinstance(kw.value, ast.Name):
                            st = common.must_keys(ctx, send, kw.value.id, c)
                            if st is None:
                                return None
                            d = {k: v[1] for k, v in st.present.items() if v[1] is not None}
                            # fields given beside the splat: explicit keywords, and positional arguments under log_message's parameter names
                            for kw2 in c.keywords:
                                if kw2.arg:
                                    d[kw2.arg] = kw2.value
                            for i, a in enumerate(c.args):
                                if i < len(lm.pos_params) and not isinstance(a, ast.Starred):
                                    d[lm.pos_params[i]] = a
                            return d
                    d = {}
                    for kw in c.keywords:
                        if kw.arg:
                            d[kw.arg] = kw.value
                    lmpos = lm.pos_params
                    for i, a in enumerate(c.args):
                        if i < len(lmpos):
                            d[lmpos[i]] = a
                    return d
    return None


def rule_report(chk, content=True):
    ctx = chk.ctx
    p = ctx.p
    send, cfg, loops, lists = report_loop(chk)
    chk.need(len(loops) == 1, "report loop over the collected errors not found exactly once in send (found %d)" % len(loops))
    head = loops[0]
    quiet = common.quiet_exc_edges(ctx, send)
    where = chk.where(send, head.lineno)
    chk.req(isinstance(head.ast.iter, ast.Name), "C08.report", "send:report-loop-iterates-all-collected-errors", where,
            good="iterates the collected error list itself", fail="the report loop iterates %s, not every collected error: some failures are never reported" % unparse(head.ast.iter))
    lm = ctx.func("_action", "log_message")
    # one append per caught failure when the guard is false
    gi = guard_info(chk)
    fsend, fcfg, fhead, var = fanout_loop(chk)
    if not common.loop_is_total(cfg, fhead, quiet)[0]:
        return  # already reported by C08.fanout; the regions below would be meaningless
    handlers = [n for n in common.loop_region(cfg, fhead) if n.kind == "handler"]
    chk.need(handlers, "fan-out handler vanished")
    listname = sorted(lists)[0]
    for h in handlers:
        hname = h.ast.name
        apps = []
        for n in common.loop_region(cfg, fhead):
            for c, m in calls_in_node(n):
                if isinstance(c.func, ast.Attribute) and c.func.attr == "append" and isinstance(c.func.value, ast.Name) and c.func.value.id in lists:
                    apps.append((n, c))
        guard_false_edges = set()
        if gi:
            gvar = gi[0][0]
            for t in cfg.live:
                if t.kind == "test":
                    e = t.exprs[0]
                    if isinstance(e, ast.UnaryOp) and isinstance(e.op, ast.Not) and isinstance(e.operand, ast.Name) and e.operand.id == gvar:
                        guard_false_edges.add((t, "false"))  # `not G` false  == guard true: skip
                    elif isinstance(e, ast.Name) and e.id == gvar:
                        guard_false_edges.add((t, "true"))
        # remove the guard-true arm and count appends handler -> loop head
        saved = {}
        rng = _count_avoiding(cfg, h, [fhead], lambda n: sum(1 for (nn, c) in apps if nn is n), guard_false_edges | quiet)
        chk.req(rng == (1, 1), "C08.report", "send:one-collected-error-per-failure", chk.where(send, h.lineno),
                good="exactly one append to %s on every handler path where the guard is false" % listname,
                fail="collected errors per caught failure (guard false) range %s: failures are dropped or reported twice" % (rng,),
                sites=len(apps))
        for n, c in apps:
            chk.req(len(c.args) == 1 and isinstance(c.args[0], ast.Name) and c.args[0].id == hname,
                    "C08.report", "send:collects-the-caught-exception", chk.where(send, c.lineno),
                    good="appends the caught exception %s" % hname,
                    fail="what is collected (%s) is not the caught exception" % unparse(c))
    ok, n, s = common.loop_is_total(cfg, head, quiet)
    chk.req(ok, "C08.report", "send:report-loop-covers-all-errors", where,
            good="report loop has no early exit", fail="report loop can be left early at %s" % (n and n.text()))
    region = common.loop_region(cfg, head, avoid_edges=quiet)
    calls = [(n, c, m) for n in region for c, m in calls_in_node(n) if lm in ctx.targets(send, c)]
    chk.need(calls, "report loop no longer calls log_message")
    body_start = [s for s, l in head.succ if l == "body"][0]
    rng = _count_avoiding(cfg, body_start, [head], lambda n: sum(1 for (nn, c, m) in calls if nn is n), quiet)
    chk.req(rng == (1, 1) and all(m == "once" for _, _, m in calls), "C08.report", "send:one-report-per-error", where,
            good="exactly one log_message per collected error", fail="reports per collected error range %s" % (rng,), sites=len(region))
    # reports go through log_message, not directly to destinations / send (C02.report-path)
    direct = [c for n in region for c, m in calls_in_node(n)
              if (isinstance(c.func, ast.Attribute) and c.func.attr in ("send", "write")) or (isinstance(c.func, ast.Name) and c.func.id == var)]
    chk.req(not direct, "C08.report", "send:report-through-normal-path", where,
            good="reports are emitted only through log_message", fail="report loop delivers directly: %s" % [unparse(c)[:40] for c in direct])
    # containment of the report itself
    for n, c, m in calls:
        ph = protecting_handler(ctx.cg.ctxmaps[send].get(id(c), []))
        chk.req(ph is not None, "C08.report", "send:report-contained", chk.where(send, c.lineno),
                good="report logging wrapped in catch-all", fail="a failure while reporting can propagate to the application")
    if not content:
        return
    # content of the report
    rep = report_dict(chk)
    chk.need(rep is not None, "report dict not analysable")
    rep = {k_: X.inline(send, v_) for k_, v_ in rep.items()}  # temporaries holding a report field are looked through
    K = p.fold_global(p.mod("_message"), "MESSAGE_TYPE_FIELD")
    RK = p.fold_global(p.mod("_message"), "REASON_FIELD")
    EK = p.fold_global(p.mod("_message"), "EXCEPTION_FIELD")
    G = p.fold_global(p.mod("_output"), "DESTINATION_FAILURE")
    loopvar = head.ast.target.id if isinstance(head.ast.target, ast.Name) else None
    su = ctx.func("_util", "safeunicode")
    sud = ctx.func("_output", "_safe_unicode_dictionary")
    v = rep.get(K)
    chk.req(v is not None and ctx.try_fold(send, v) == (True, G), "C08.report", "send:report-type", where,
            good="report carries %s=%r" % (K, G), fail="report does not carry %s=%r" % (K, G))
    v = rep.get(RK)
    chk.req(isinstance(v, ast.Call) and su in ctx.targets(send, v) and len(v.args) == 1 and isinstance(v.args[0], ast.Name) and v.args[0].id == loopvar,
            "C08.report", "send:report-reason", where, good="reason = safeunicode(<the exception>)",
            fail="reason is not safeunicode(%s): %s" % (loopvar, v is not None and unparse(v)))
    v = rep.get(EK)
    txt = unparse(v) if v is not None else ""
    if isinstance(v, ast.Call) and len(v.args) == 1 and unparse(v.args[0]) in ("%s.__class__" % loopvar, "type(%s)" % loopvar):
        for g in ctx.targets(send, v):
            if len(g.params) == 1:
                body = " ".join(unparse(s_) for s_ in g.node.body)
                if "%s.__module__" % g.params[0] in body and "%s.__name__" % g.params[0] in body:
                    txt = "%s.__class__.__module__ %s.__class__.__name__ (via %s)" % (loopvar, loopvar, g.fq)
    chk.req(v is not None and "%s.__class__.__module__" % loopvar in txt and "%s.__class__.__name__" % loopvar in txt,
            "C08.report", "send:report-exception-class", where, good="exception = module-qualified class name",
            fail="exception field is not built from the class's __module__ and __name__: %s" % txt)
    v = rep.get("message")
    chk.req(isinstance(v, ast.Call) and sud in ctx.targets(send, v) and len(v.args) == 1 and isinstance(v.args[0], ast.Name)
            and v.args[0].id in send.params, "C08.report", "send:report-affected-message", where,
            good="message = _safe_unicode_dictionary(<the message>)", fail="affected message not rendered: %s" % (v is not None and unparse(v)))


def _count_avoiding(cfg, src, dsts, weight, avoid_edges):
    return cfg.count_range(src, dsts, weight, avoid_edges=avoid_edges)


def rule_report_path(chk):
    """(used by C02) failure reports are emitted through log_message -- never by invoking a
    destination or send() directly with a hand-built message -- so they consume a position."""
    ctx = chk.ctx
    send, cfg, loops, lists = report_loop(chk)
    lm = ctx.func("_action", "log_message")
    chk.need(loops, "report loop over the collected errors not found in send")
    fsend, fcfg, fhead, var = fanout_loop(chk)
    for head in loops:
        region = common.loop_region(cfg, head)
        calls = [c for n in region for c, m in calls_in_node(n) if lm in ctx.targets(send, c)]
        direct = [c for n in region for c, m in calls_in_node(n)
                  if (isinstance(c.func, ast.Attribute) and c.func.attr in ("send", "write")) or (isinstance(c.func, ast.Name) and c.func.id == var)]
        chk.req(bool(calls) and not direct, "C08.report", "send:report-through-normal-path", chk.where(send, head.lineno),
                good="reports are emitted only through log_message", fail="the failure report is delivered directly (%s) instead of being logged through log_message: it carries no position of its own" % [unparse(c)[:40] for c in direct])


def rule_report_logger(chk):
    """The report is offered to all destinations again: it is written through the logger
    that performed the failed delivery, whatever the current action's own logger is."""
    ctx = chk.ctx
    send = _send(chk)
    lw = ctx.func("_output", "Logger.write")
    lm = ctx.func("_action", "log_message")
    alog = ctx.func("_action", "Action.log")
    KEY = "__eliot_logger__"
    problems = []
    # 1. Logger.write hands itself to send
    ok1 = any(send in s_.repo_targets() and s_.call is not None and len(s_.call.args) == 2 and isinstance(s_.call.args[1], ast.Name) and s_.call.args[1].id == "self"
              for s_ in ctx.cg.sites[lw])
    if not ok1:
        problems.append("Logger.write does not pass itself to send() as the writing logger")
    # 2. send puts it into the report
    lparam = send.pos_params[2] if len(send.pos_params) > 2 else None
    ok2 = False
    for n in iter_own_nodes(send.node):
        if isinstance(n, ast.Assign) and isinstance(n.targets[0], ast.Subscript) and isinstance(n.targets[0].slice, ast.Constant) and n.targets[0].slice.value == KEY \
                and isinstance(n.value, ast.Name) and n.value.id == lparam:
            ok2 = True
    if not ok2:
        problems.append("the report does not carry the writing logger under %s" % KEY)
    # 3. log_message does not strip it when there is a current action
    calls = [(n, c) for n, c, m in ctx.calls_to(lm, alog)]
    from . import c02 as _c02
    roots_lm = _c02.root_sites(ctx, lm)
    for n, c in calls:
        recv = c.func.value if isinstance(c.func, ast.Attribute) else None
        if isinstance(recv, ast.Name):
            rv = assigned_values(lm, recv.id)
            if len(rv) == 1 and any(rv[0] is r_ for r_ in roots_lm):
                continue  # the context-less arm: a fresh one-message task built from the popped logger
        elif any(recv is r_ for r_ in roots_lm):
            continue
        kwv = [k.value.id for k in c.keywords if k.arg is None and isinstance(k.value, ast.Name)]
        if not kwv:
            problems.append("log_message does not pass its fields on to Action.log")
            continue
        st = common.must_keys(ctx, lm, kwv[0], c)
        if st is not None and KEY in st.absent:
            problems.append("log_message removes %s before Action.log on every path: with a current action the report is written to that action's own logger and never reaches the registered destinations" % KEY)
    # 4. Action.log writes through the logger given in the fields
    cfg = ctx.cfg(alog)
    wr = [(n, c) for n in cfg.live for c, m in calls_in_node(n) if isinstance(c.func, ast.Attribute) and c.func.attr == "write"]
    ok4 = False
    for n, c in wr:
        r = X.inline(alog, c.func.value)
        if isinstance(r, ast.Call) and isinstance(r.func, ast.Attribute) and r.func.attr == "pop" and len(r.args) == 2:
            ok4 = ok4 or (ctx.try_fold(alog, r.args[0]) == (True, KEY) and common.is_self_attr(r.args[1], "_logger"))
    if not ok4:
        problems.append("Action.log does not write through fields.pop(%r, self._logger)" % KEY)
    chk.req(not problems, "C08.report", "send:report-written-through-the-failing-logger", chk.where(send),
            good="Logger.write -> send(message, self) -> report[%s] -> log_message -> Action.log pops it and writes through it" % KEY, fail="; ".join(problems), sites=4)


def rule_guard(chk):
    send = _send(chk)
    ok, detail = guard_cut(chk)
    chk.req(ok, "C08.guard", "send:report-recursion-terminates", chk.where(send), good=detail,
            fail="a permanently broken destination recurses without bound: " + detail, sites=4)


def rule_who(chk):
    ctx = chk.ctx
    p = ctx.p
    send = _send(chk)
    dcls = ctx.cls("_output", "Destinations")
    allowed_mutators = {"__init__", "add", "remove"}
    n_refs = 0
    for f in p.all_funcs():
        for n in iter_own_nodes(f.node):
            if isinstance(n, ast.Attribute) and n.attr == "_destinations":
                n_refs += 1
                base = unparse(n.value)
                inside_cls = f.cls is dcls or (f.parent is not None and f.parent.cls is dcls)
                if base == "self" and inside_cls:
                    continue
                # Logger._destinations / self._destinations on a Logger: the Destinations instance
                t = ctx.cg.typer.type_of(f, n)
                if dcls in t:
                    continue
                chk.bad("C08.who", "%s:touches-_destinations" % f.fq, chk.where(f, n.lineno),
                        "%s reads the registered-destination list outside Destinations" % unparse(n))
    # mutations of self._destinations inside Destinations
    for m in set(dcls.methods.values()):
        for n in iter_own_nodes(m.node):
            mut = None
            if isinstance(n, (ast.Assign, ast.AugAssign, ast.Delete)):
                tg = n.targets if not isinstance(n, ast.AugAssign) else [n.target]
                for t in tg:
                    b = t.value if isinstance(t, ast.Subscript) else t
                    if common.is_self_attr(b, "_destinations"):
                        mut = n
            if isinstance(n, ast.Call) and isinstance(n.func, ast.Attribute) and common.is_self_attr(n.func.value, "_destinations") \
                    and n.func.attr in ("append", "extend", "remove", "insert", "pop", "clear", "sort", "reverse"):
                mut = n
            if mut is not None:
                chk.req(m.name in allowed_mutators, "C08.who" if m.name != "send" else "C08.later",
                        "%s:mutates-_destinations" % m.fq, chk.where(m, mut.lineno),
                        good="registration API", fail="%s changes the destination list (a failing destination must still receive later messages; only add/remove may change it)" % m.fq)
    chk.instances("C08.who:_destinations references", n_refs, 6)
    # destinations are invoked only by send: no other method of Destinations calls a caller-supplied callable
    for m in set(dcls.methods.values()):
        if m is send:
            continue
        for s_ in ctx.cg.sites[m]:
            if s_.call is not None and isinstance(s_.call.func, ast.Name) and ctx.cg.classify(s_) in ("foreign", "unknown"):
                chk.bad("C08.who", "%s:invokes-a-destination" % m.fq, s_.where,
                        "`%s`: a destination is invoked outside Destinations.send, i.e. without fault isolation, failure report and fan-out to the other destinations" % s_.text[:50])
    # callers of send
    callers = {s.func.fq for s in ctx.cg.callers_of(send)}
    expected = {"_output:Logger.write", "_output:Destinations.add"}
    chk.req(callers <= expected and "_output:Logger.write" in callers, "C08.who", "send:callers", chk.where(send),
            good="send is called only by %s" % sorted(callers), fail="unexpected callers of Destinations.send: %s" % sorted(callers - expected))
    # destinations invoked only in send: calls of elements of _destinations elsewhere
    lw = ctx.func("_output", "Logger.write")
    cfgw = ctx.cfg(lw)
    sends = ctx.calls_to(lw, send)
    chk.need(sends, "Logger.write no longer calls Destinations.send")
    rng = cfgw.count_range(cfgw.entry, [cfgw.exit], lambda n: sum(1 for (nn, c, m) in sends if nn is n))
    chk.req(rng is not None and rng[1] == 1, "C08.who", "Logger.write:send-at-most-once", chk.where(lw),
            good="send called at most once per write (range %s)" % (rng,), fail="send is called %s times on some path of Logger.write" % (rng,))


def rule_later(chk):
    send = _send(chk)
    muts = [o for o in chk.obs if o.rule == "C08.later"]
    if not muts:
        chk.ok("C08.later", "send:never-unregisters", chk.where(send), "no write to _destinations on any path of send")


def run(chk):
    rule_fanout(chk)
    rule_report(chk)
    rule_report_logger(chk)
    rule_guard(chk)
    rule_who(chk)
    rule_later(chk)
    from . import c12
    from . import c19
    c19.rule_writer(chk)  # a destination wrapped in the threaded writer: one failing call must not stop it from receiving every later message
    c12.rule_remove(chk)  # 'every currently registered destination': unregistering one entry removes exactly that entry
    common.rule_forwarding(chk, "C08", keys=[("_output", "Destinations.send"), ("_output", "Destinations.add"), ("_output", "Destinations.remove"), ("_output", "Logger.write"), ("_action", "log_message"), ("_action", "Action.log")])
