"""Thorough tier: the properties' mechanisms as used by the integration modules
(eliot/twisted.py, eliot/dask.py, eliot/stdlib.py).  These modules cannot be imported
in this sandbox (no Twisted / dask); they parse, which is all these rules need."""

import ast

from ..index import unparse, iter_own_nodes, AnalysisError
from ..cfg import calls_in_node
from ..framework import stores_to_name, assigned_values
from .. import exprs as X
from . import common


def twisted_deferred_context(chk, prefix):
    """DeferredContext: callbacks run inside action.run(); the action is finished with
    the Failure's value (or None) exactly once; results pass through unchanged."""
    ctx = chk.ctx
    try:
        dc = ctx.cls("twisted", "DeferredContext")
    except AnalysisError:
        return
    run = ctx.func("_action", "Action.run")
    fin = ctx.func("_action", "Action.finish")
    ca = ctx.func("_action", "current_action")
    init = dc.find_method("__init__")
    ok = any(isinstance(n, ast.Assign) and common.is_self_attr(n.targets[0], "_action") and isinstance(n.value, ast.Call) and ca in ctx.targets(init, n.value)
             for n in iter_own_nodes(init.node))
    chk.req(ok, "%s.integration" % prefix, "twisted.DeferredContext.__init__:action-from-current_action", chk.where(init),
            good="self._action = current_action()", fail="DeferredContext does not take its action from current_action()")
    acb = dc.find_method("addCallbacks")
    nested = [g for g in acb.nested.values() if not g.is_lambda]
    problems = []
    for g in nested:
        rets = [n for n in iter_own_nodes(g.node) if isinstance(n, ast.Return)]
        okg = len(rets) == 1 and isinstance(rets[0].value, ast.Call) and run in ctx.targets(g, rets[0].value) and common.is_self_attr(rets[0].value.func.value, "_action") \
            and any(isinstance(a, ast.Starred) for a in rets[0].value.args)
        if not okg:
            problems.append("%s does not return self._action.run(<callback>, *args, **kwargs)" % g.name)
    # what is handed to the Deferred is always one of those wrappers
    hand = [n for n in iter_own_nodes(acb.node) if isinstance(n, ast.Call) and isinstance(n.func, ast.Attribute) and n.func.attr == "addCallbacks" and common.is_self_attr(n.func.value, "result")]
    if len(hand) != 1:
        problems.append("the pair is not registered with exactly one self.result.addCallbacks(...) call")
    else:
        wrappers = {g.name for g in nested}
        for a in hand[0].args[:2]:
            if not (isinstance(a, ast.Name) and a.id in wrappers):
                problems.append("self.result.addCallbacks is given %s, not a wrapper that runs the callback in the action" % unparse(a)[:40])
            elif [x for x in stores_to_name(acb, a.id) if not isinstance(x, (ast.FunctionDef, ast.AsyncFunctionDef))]:
                vals = [unparse(v)[:30] if v is not None else "?" for v in assigned_values(acb, a.id)]
                problems.append("%s is also bound to %s on some path: the callback is then registered unwrapped and runs in whatever context fires (or resumes) the Deferred" % (a.id, vals))
        if len(hand[0].args) < 2:
            problems.append("callback and errback are not passed positionally to self.result.addCallbacks (not modelled)")
    chk.req(len(nested) == 2 and not problems, "%s.integration" % prefix, "twisted.DeferredContext.addCallbacks:callbacks-run-in-the-action", chk.where(acb),
            good="callback and errback are wrapped in self._action.run(...) and their result returned", fail="; ".join(problems) or "expected two wrappers")
    aaf = dc.find_method("addActionFinish")
    done = [g for g in aaf.nested.values() if not g.is_lambda]
    problems = []
    if len(done) != 1:
        problems.append("finishing callback not found")
    else:
        g = done[0]
        cfg = ctx.cfg(g)
        rp = g.params[0]
        fcalls = ctx.calls_to(g, fin)
        rng = cfg.count_range(cfg.entry, [cfg.exit], lambda x: sum(1 for n, c, m in fcalls if n is x))
        if rng != (1, 1):
            problems.append("finish() calls per firing range %s" % (rng,))
        for r in common.returns_of(cfg):
            if not (isinstance(r.ast.value, ast.Name) and r.ast.value.id == rp and not stores_to_name(g, rp)):
                problems.append("the deferred's result is not passed through unchanged")
        evals = {}

        def polarity(n):
            pol = None
            for t, lab in cfg.guards_of(n):
                if t.kind == "test":
                    e, lab2 = X.strip_not(t.exprs[0], lab)
                    if "isinstance(%s, Failure)" % rp in unparse(e):
                        pol = lab2
            return pol
        for fn_, c, _m in fcalls:
            a0 = c.args[0] if c.args else (c.keywords[0].value if c.keywords else None)
            if isinstance(a0, ast.Name) and a0.id != rp:
                for n in cfg.live:
                    if isinstance(n.ast, ast.Assign) and isinstance(n.ast.targets[0], ast.Name) and n.ast.targets[0].id == a0.id:
                        v = n.ast.value
                        if isinstance(v, ast.IfExp):
                            e, lab2 = X.strip_not(v.test, "true")
                            if "isinstance(%s, Failure)" % rp in unparse(e):
                                evals[lab2] = unparse(v.body)
                                evals["false" if lab2 == "true" else "true"] = unparse(v.orelse)
                                continue
                        evals[polarity(n)] = unparse(v)
            elif a0 is None:
                evals[polarity(fn_)] = "None"
            else:
                evals[polarity(fn_)] = unparse(a0)
        if evals != {"true": "%s.value" % rp, "false": "None"}:
            problems.append("the action is not finished with the Failure's value / None (%s)" % evals)
    chk.req(not problems, "%s.integration" % prefix, "twisted.DeferredContext.addActionFinish:finishes-once-truthfully", chk.where(aaf),
            good="finish(result.value if Failure else None) exactly once; result returned unchanged", fail="; ".join(problems))


def dask_continuation(chk, prefix):
    ctx = chk.ctx
    try:
        rc = ctx.func("dask", "_RunWithEliotContext.__call__")
        al = ctx.func("dask", "_add_logging")
    except AnalysisError:
        return
    ct = ctx.func("_action", "Action.continue_task")
    sti = ctx.func("_action", "Action.serialize_task_id")
    cfg = ctx.cfg(rc)
    enters = [w for w in cfg.live if w.kind == "with_enter" and isinstance(w.info["item"].context_expr, ast.Call) and ct in ctx.targets(rc, w.info["item"].context_expr)]
    okc = len(enters) == 1 and any(k.arg == "task_id" and common.is_self_attr(k.value, "task_id") for k in enters[0].info["item"].context_expr.keywords)
    rets = common.returns_of(cfg)
    okr = rets and all(isinstance(r.ast.value, ast.Call) and common.is_self_attr(r.ast.value.func, "func") and any(isinstance(a, ast.Starred) for a in r.ast.value.args) for r in rets)
    chk.req(okc and okr, "%s.integration" % prefix, "dask._RunWithEliotContext.__call__:continues-the-serialized-task", chk.where(rc),
            good="with Action.continue_task(task_id=self.task_id): return self.func(*args, **kwargs)", fail="the dask wrapper does not run the function inside the continued task / alters its result")
    # every wrapper gets an id serialized for it alone, at its construction (ids are single-use)
    ctors = [n for n in ast.walk(al.node) if isinstance(n, ast.Call) and unparse(n.func).endswith("_RunWithEliotContext")]
    chk.need(ctors, "dask._add_logging no longer constructs _RunWithEliotContext")
    parent = {}
    for x in ast.walk(al.node):
        for ch in ast.iter_child_nodes(x):
            parent[id(ch)] = x

    def enclosing_def(x):
        while id(x) in parent:
            x = parent[id(x)]
            if isinstance(x, (ast.FunctionDef, ast.AsyncFunctionDef, ast.Lambda)):
                return x
        return al.node

    def own(fn):
        # nodes of fn, not of the functions nested in it
        todo = list(fn.body) if not isinstance(fn, ast.Lambda) else [fn.body]
        while todo:
            x = todo.pop()
            yield x
            if not isinstance(x, (ast.FunctionDef, ast.AsyncFunctionDef, ast.Lambda)):
                todo.extend(ast.iter_child_nodes(x))

    def local_value(fn, name):
        binds = [x for x in own(fn) if isinstance(x, ast.Assign) and any(isinstance(t, ast.Name) and t.id == name for t in x.targets)]
        others = [x for x in own(fn) if isinstance(x, ast.Name) and x.id == name and isinstance(x.ctx, ast.Store)]
        if len(binds) == 1 and len(others) == 1 and len(binds[0].targets) == 1:
            return binds[0].value
        return None

    def is_fresh_id(e):
        return any(isinstance(x, ast.Call) and isinstance(x.func, ast.Attribute) and x.func.attr == "serialize_task_id" for x in ast.walk(e))

    problems = []
    for c in ctors:
        fn = enclosing_def(c)
        kw = {k.arg: k.value for k in c.keywords}
        tid = kw.get("task_id")
        if tid is None and None in kw:
            # `_RunWithEliotContext(func=func, **fields_for(key))`: look at the mapping the local helper returns
            e = kw[None]
            hs = [h for h in ast.walk(al.node) if isinstance(h, ast.FunctionDef) and isinstance(e, ast.Call) and isinstance(e.func, ast.Name) and h.name == e.func.id]
            rets_ = [r for h in hs for r in own(h) if isinstance(r, ast.Return)]
            rv = rets_[0].value if len(hs) == 1 and len(rets_) == 1 else None
            if isinstance(rv, ast.Subscript) and isinstance(rv.value, ast.Name):
                # `if key not in memo: memo[key] = dict(task_id=...)`; `return memo[key]`
                cont = rv.value.id
                stores = [y for y in own(hs[0]) if isinstance(y, ast.Assign) and len(y.targets) == 1 and isinstance(y.targets[0], ast.Subscript) and unparse(y.targets[0].value) == cont]
                tests = [y for y in own(hs[0]) if isinstance(y, ast.Compare) and len(y.ops) == 1 and isinstance(y.ops[0], (ast.In, ast.NotIn)) and unparse(y.comparators[0]) == cont]
                if len(stores) == 1 and tests and is_fresh_id(stores[0].value):
                    problems.append("the wrapper's task_id comes from %s, where it is remembered in %s and reused (line %d): the tasks that share the entry continue the task at the same position (duplicate task_level)"
                                    % (hs[0].name, cont, tests[0].lineno))
                    continue
            lay = common.dict_layers(rv) if rv is not None else None
            tids = [l[2] for l in (lay or []) if l[0] == "key" and isinstance(l[1], ast.Constant) and l[1].value == "task_id"]
            if len(tids) != 1:
                raise AnalysisError("dask._add_logging: the wrapper's fields come from %s (not modelled)" % unparse(e)[:60])
            tid, fn = tids[0], hs[0]
        if isinstance(tid, ast.Name):
            v = local_value(fn, tid.id)
            if v is not None:
                tid = v  # `tid = str(ctx.serialize_task_id(), ...)` in the same function, evaluated with the construction
        fresh = tid is not None and is_fresh_id(tid)
        if not fresh:
            problems.append("a wrapper is built with task_id=%s, which is not a serialize_task_id() evaluated for this wrapper: several wrappers continue the task at the same position (duplicate task_level)"
                            % (unparse(tid)[:50] if tid is not None else "<from a shared mapping>"))
            continue
        # the construction runs once per wrapped task: it is not remembered per key
        if not isinstance(fn, ast.Lambda):
            for d in fn.decorator_list:
                if "cache" in unparse(d).lower() or "memo" in unparse(d).lower():
                    problems.append("the wrapper (and its serialize_task_id()) is built in %s, which is decorated with %s: every task that maps to the same arguments continues the task at the same position"
                                    % (fn.name, unparse(d)))
        x = c
        while id(x) in parent and parent[id(x)] is not fn:
            x = parent[id(x)]
            if isinstance(x, ast.Assign) and any(isinstance(t, ast.Subscript) for t in x.targets):
                store = [t for t in x.targets if isinstance(t, ast.Subscript)][0]
                cont = unparse(store.value)
                tests = [y for y in own(fn) if isinstance(y, ast.Compare) and len(y.ops) == 1 and isinstance(y.ops[0], (ast.In, ast.NotIn)) and unparse(y.comparators[0]) == cont]
                gets = [y for y in own(fn) if isinstance(y, ast.Call) and isinstance(y.func, ast.Attribute) and y.func.attr in ("get", "setdefault") and unparse(y.func.value) == cont]
                if tests or gets:
                    problems.append("the wrapper built at line %d is remembered in %s and reused (line %d): the tasks that share the entry continue the task at the same position (duplicate task_level)"
                                    % (c.lineno, cont, (tests + gets)[0].lineno))
            if isinstance(x, ast.Call) and x is not c and isinstance(x.func, ast.Attribute) and x.func.attr == "setdefault":
                problems.append("the wrapper built at line %d is remembered with %s(...) and reused" % (c.lineno, unparse(x.func)))
    chk.req(not problems, "%s.integration" % prefix, "dask._add_logging:one-fresh-id-per-wrapped-task", chk.where(al), good="task_id=str(ctx.serialize_task_id(), ...) at each wrapper construction, not remembered between tasks",
            fail="; ".join(problems))
    # the callable put in the graph is the wrapper just built, not a copy of a shared one
    if not problems:
        for fn in [al.node] + [x for x in ast.walk(al.node) if isinstance(x, (ast.FunctionDef, ast.AsyncFunctionDef)) and x is not al.node]:
            for r in own(fn):
                if isinstance(r, ast.Return) and isinstance(r.value, ast.BinOp) and isinstance(r.value.op, ast.Add) and isinstance(r.value.left, ast.Tuple) and len(r.value.left.elts) == 1:
                    e = r.value.left.elts[0]
                    if isinstance(e, ast.Name):
                        e = local_value(fn, e.id) or e
                    if any(e is c for c in ctors):
                        continue
                    if isinstance(e, ast.Call) and isinstance(e.func, ast.Name) and any(isinstance(h, ast.FunctionDef) and h.name == e.func.id and any(enclosing_def(c) is h for c in ctors)
                                                                                        for h in ast.walk(al.node)):
                        continue  # a local helper that builds the wrapper (checked above)
                    raise AnalysisError("dask._add_logging: the task's callable is %s, not a wrapper built at that point (not modelled)" % unparse(e)[:60])


def stdlib_handler(chk, prefix):
    ctx = chk.ctx
    try:
        em = ctx.func("stdlib", "EliotHandler.emit")
    except AnalysisError:
        return
    lm = ctx.func("_action", "log_message")
    wt = ctx.func("_traceback", "write_traceback")
    cfg = ctx.cfg(em)
    l = ctx.calls_to(em, lm)
    w = ctx.calls_to(em, wt)
    rng = cfg.count_range(cfg.entry, [cfg.exit], lambda x: sum(1 for n, c, m in l if n is x))
    okw = bool(w) and all(any(t.kind == "test" and "exc_info" in unparse(t.exprs[0]) and lab == "true" for t, lab in cfg.guards_of(n)) for n, c, m in w)
    chk.req(rng == (1, 1) and okw, "%s.integration" % prefix, "stdlib.EliotHandler.emit:one-message-per-record", chk.where(em),
            good="one log_message per record; traceback iff exc_info", fail="EliotHandler.emit does not log exactly one message per record (range %s) / traceback not tied to exc_info" % (rng,))


_DONE_KEY = "_integration_done"

RULES = {
    "C03": [twisted_deferred_context],
    "C04": [twisted_deferred_context],
    "C05": [twisted_deferred_context, dask_continuation],
    "C06": [dask_continuation],
    "C02": [dask_continuation],
    "C07": [stdlib_handler],
    "C01": [stdlib_handler, dask_continuation],
}


def run(chk):
    done = {o.construct for o in chk.obs if o.rule.endswith(".integration")}
    for r in RULES.get(chk.pid, []):
        before = len(chk.obs)
        r(chk, chk.pid)
        # drop duplicates of obligations a property module already added itself
        fresh = []
        for o in chk.obs[before:]:
            if o.construct in done:
                continue
            done.add(o.construct)
            fresh.append(o)
        chk.obs[before:] = fresh


# ---------------------------------------------------------------------------
# public wiring: eliot/__init__.py aliases, class-level method aliases, deprecated Message API

INIT_ALIASES = {
    # public name -> unparsed right-hand side it must be bound to
    "add_destinations": "Logger._destinations.add",
    "removeDestination": "Logger._destinations.remove",
    "remove_destination": "removeDestination|Logger._destinations.remove",
    "addGlobalFields": "Logger._destinations.addGlobalFields",
    "add_global_fields": "addGlobalFields|Logger._destinations.addGlobalFields",
    "addDestination": "add_destination",
    "start_task": "startTask",
    "startAction": "start_action",
    "writeTraceback": "write_traceback",
    "write_failure": "writeFailure",
}


def init_wiring(chk, prefix):
    """The module-level public API of eliot/__init__.py is bound to the one process-wide
    Destinations object that Logger.write sends to, and the PEP 8 / legacy names are plain
    aliases of the same functions."""
    ctx = chk.ctx
    init = ctx.p.mod("__init__")
    problems = []
    n = 0
    for name, want in sorted(INIT_ALIASES.items()):
        vals = [v for v in init.assigns.get(name, []) if isinstance(v, ast.AST)]
        n += 1
        if len(vals) != 1 or unparse(vals[0]) not in want.split("|"):
            problems.append("%s = %s (expected %s)" % (name, [unparse(v) for v in vals], want))
    ad = init.funcs.get("add_destination")
    okad = ad is not None and any(isinstance(x, ast.Call) and unparse(x.func) == "Logger._destinations.add" and len(x.args) == 1 and isinstance(x.args[0], ast.Name) and x.args[0].id == ad.params[0]
                                  for x in ast.walk(ad.node))
    if not okad:
        problems.append("add_destination(destination) does not register it with Logger._destinations.add(destination)")
    lw = ctx.func("_output", "Logger.write")
    oksend = any(isinstance(x, ast.Call) and unparse(x.func) == "self._destinations.send" for x in ast.walk(lw.node))
    lcls = ctx.cls("_output", "Logger")
    okcls = "_destinations" in lcls.attrs and unparse(lcls.attrs["_destinations"]) == "Destinations()"
    if not (oksend and okcls):
        problems.append("Logger.write does not send to the class-level Logger._destinations = Destinations()")
    tf = ctx.func("_output", "to_file")
    if not any(isinstance(x, ast.Call) and unparse(x.func) == "Logger._destinations.add" for x in ast.walk(tf.node)):
        problems.append("to_file does not register with Logger._destinations")
    chk.req(not problems, "%s.wiring" % prefix, "eliot.__init__:public-names-bound-to-the-one-registry", "%s:1" % init.relpath,
            good="%d public names are plain aliases; registration goes to Logger._destinations, which Logger.write sends to" % n, fail="; ".join(problems), sites=n)


def class_aliases(chk, prefix, modules=("_action", "_output", "_validation", "testing", "_message")):
    """Class-level legacy / PEP 8 method aliases stay plain aliases of the same function object."""
    ctx = chk.ctx
    n = 0
    bad = []
    EXPECT = {("_action", "Action"): {"serializeTaskId": "serialize_task_id", "continueTask": "continue_task", "add_success_fields": "addSuccessFields"},
              ("_action", "TaskLevel"): {"from_string": "fromString", "to_string": "toString"},
              ("_output", "MemoryLogger"): {"flush_tracebacks": "flushTracebacks"},
              ("_validation", "Field"): {"for_value": "forValue", "for_types": "forTypes"},
              ("_validation", "ActionType"): {"asTask": "as_task"},
              ("testing", "LoggedAction"): {"from_messages": "fromMessages", "ofType": "of_type"},
              ("testing", "LoggedMessage"): {"ofType": "of_type"}}
    for (mod, cname), table in sorted(EXPECT.items()):
        if mod not in modules:
            continue
        cls = ctx.cls(mod, cname)
        for alias, target in sorted(table.items()):
            n += 1
            v = cls.attrs.get(alias)
            if alias in {m.name for m in cls.methods.values() if m.node.name == alias}:
                bad.append("%s.%s is now a separate function, not an alias of %s" % (cname, alias, target))
            elif not (isinstance(v, ast.Name) and v.id == target):
                bad.append("%s.%s = %s (expected the plain alias %s)" % (cname, alias, v is not None and unparse(v), target))
    chk.req(not bad, "%s.wiring" % prefix, "class-level-aliases:same-function-object", "eliot/", good="%d legacy/PEP 8 method names are plain aliases" % n, fail="; ".join(bad), sites=n)


def deprecated_message_api(chk, prefix):
    """Message.new / Message.log / MessageType.__call__ build the same Message the new API logs:
    given fields, the type's own serializer, and (for typed messages) the message_type field."""
    ctx = chk.ctx
    problems = []
    new = ctx.func("_message", "Message.new")
    r = [n for n in iter_own_nodes(new.node) if isinstance(n, ast.Return)]
    if not (len(r) == 1 and isinstance(r[0].value, ast.Call) and [unparse(a) for a in r[0].value.args] == [new.node.args.kwarg.arg, new.params[1]]):
        problems.append("Message.new does not return Message(fields, _serializer)")
    log = ctx.func("_message", "Message.log")
    t = " ".join(unparse(s) for s in log.node.body)
    if "%s(%s).write()" % (log.params[0], log.node.args.kwarg.arg) not in t:
        problems.append("Message.log does not write Message(fields)")
    mc = ctx.func("_validation", "MessageType.__call__")
    MTF = ctx.p.fold_global(ctx.p.mod("_message"), "MESSAGE_TYPE_FIELD")
    kwname = mc.node.args.kwarg.arg if mc.node.args.kwarg else None
    sets_type = any(isinstance(n, ast.Assign) and isinstance(n.targets[0], ast.Subscript) and isinstance(n.targets[0].value, ast.Name) and n.targets[0].value.id == kwname
                    and ctx.try_fold(mc, n.targets[0].slice) == (True, MTF) and common.is_self_attr(n.value, "message_type") for n in iter_own_nodes(mc.node))
    rets_ = [X.inline(mc, n.value) for n in iter_own_nodes(mc.node) if isinstance(n, ast.Return) and n.value is not None]
    builds = len(rets_) == 1 and isinstance(rets_[0], ast.Call) and len(rets_[0].args) == 2 and isinstance(rets_[0].args[0], ast.Name) and rets_[0].args[0].id == kwname \
        and common.is_self_attr(rets_[0].args[1], "_serializer")
    if not sets_type or not builds:
        problems.append("MessageType.__call__ does not build Message(fields + message_type, self._serializer)")
    ml = ctx.func("_validation", "MessageType.log")
    t = " ".join(unparse(s) for s in ml.node.body)
    if "log_message(self.message_type, **fields)" not in t:
        problems.append("MessageType.log does not log under the type's own message_type")
    chk.req(not problems, "%s.wiring" % prefix, "deprecated-message-API:same-message-as-the-new-API", chk.where(new),
            good="Message.new/log and MessageType.__call__/log pass fields, type and serializer through", fail="; ".join(problems))


RULES["C12"] = RULES.get("C12", []) + [init_wiring]
RULES["C08"] = RULES.get("C08", []) + [init_wiring]
RULES["C01"] = RULES.get("C01", []) + [init_wiring, class_aliases, deprecated_message_api]
RULES["C13"] = RULES.get("C13", []) + [deprecated_message_api, class_aliases]
RULES["C14"] = RULES.get("C14", []) + [deprecated_message_api, class_aliases]
RULES["C02"] = RULES.get("C02", []) + [class_aliases]
RULES["C06"] = RULES.get("C06", []) + [class_aliases]
RULES["C03"] = RULES.get("C03", []) + [class_aliases]
RULES["C16"] = RULES.get("C16", []) + [class_aliases]
RULES["C17"] = RULES.get("C17", []) + [class_aliases]
RULES["C10"] = RULES.get("C10", []) + [init_wiring]
RULES["C11"] = RULES.get("C11", []) + [init_wiring]
RULES["C07"] = RULES.get("C07", []) + [init_wiring, deprecated_message_api]
