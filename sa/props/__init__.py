"""One module per property: cNN.run(check) adds obligations; EXPLANATION / RULE /
ASSUMPTIONS describe what is decided (see DESIGN.md section 3)."""
