"""C10 -- the JSON log file holds one valid, faithful line per message."""

import ast

from ..index import unparse, iter_own_nodes, AnalysisError
from ..cfg import calls_in_node, INF
from ..framework import stores_to_name, assigned_values
from .. import exprs as X
from . import common

EXPLANATION = (
    "Path and provenance rules on FileDestination and eliot/json.py: on every CFG path of "
    "FileDestination.__call__ there is exactly one call of self.file.write, whose single argument is (by "
    "value provenance through locals, + or join) the result of self._dumps(message, default=self._json_default) "
    "followed by self._linebreak, then exactly one self.file.flush(), and no other call on self.file; in "
    "__new__ the (serializer, linebreak) pair is type-consistent on each arm of the mode probe and both "
    "linebreaks fold to a single newline; in json.py the text and bytes serializers of each import arm are the "
    "same base encoder composed with UTF-8 decode/encode with `default` passed through; the json_default given "
    "to to_file/FileDestination is the one used at every dump.  JSON validity, escaping and the rich-type "
    "encodings are orjson's / json_default's value-level behaviour and are NOT decided."
    '  The text/bytes probe may be skipped only through an isinstance test of an io base class that determines what write() takes (TextIOBase: str; RawIOBase / BufferedIOBase: bytes).'
)
RULE = ("obligation = rule instance bound to a call site / branch arm / definition in FileDestination, to_file "
        "and json.py; non-trivial = CFG paths or definitions examined")
ASSUMPTIONS = [
    "JSON fidelity (escaping, 64-bit and float corner cases, rich types) is orjson's and json_default's behaviour: not decided",
    "one write() call on an io object is atomic with respect to other write() calls (stdlib io locking)",
]


def expand(func, expr, depth=0):
    """Substitute single-assignment locals by their values."""
    if depth > 6:
        return expr
    if isinstance(expr, ast.Name) and expr.id not in func.params:
        vals = assigned_values(func, expr.id)
        if len(vals) == 1 and vals[0] is not None and len(stores_to_name(func, expr.id)) == 1:
            return expand(func, vals[0], depth + 1)
        return expr
    if isinstance(expr, ast.BinOp):
        return ast.BinOp(left=expand(func, expr.left, depth + 1), op=expr.op, right=expand(func, expr.right, depth + 1))
    return expr


def _fd(chk, m):
    return chk.ctx.func("_output", "FileDestination.%s" % m)


def file_calls(chk, f):
    """[(node, call, mult, method)] calls on self.file in f's CFG."""
    cfg = chk.ctx.cfg(f)
    out = []
    # aliases of the file object and of its bound methods (method values)
    obj_alias, meth_alias = set(), {}
    changed = True
    while changed:
        changed = False
        for n in iter_own_nodes(f.node):
            if isinstance(n, ast.Assign) and len(n.targets) == 1 and isinstance(n.targets[0], ast.Name):
                nm, v = n.targets[0].id, n.value
                if (common.is_self_attr(v, "file") or (isinstance(v, ast.Name) and v.id in obj_alias)) and nm not in obj_alias:
                    obj_alias.add(nm)
                    changed = True
                if isinstance(v, ast.Attribute) and (common.is_self_attr(v.value, "file") or (isinstance(v.value, ast.Name) and v.value.id in obj_alias)) \
                        and nm not in meth_alias:
                    meth_alias[nm] = v.attr
                    changed = True
                if isinstance(v, ast.Name) and v.id in meth_alias and nm not in meth_alias:
                    meth_alias[nm] = meth_alias[v.id]
                    changed = True
                if isinstance(v, ast.Call) and isinstance(v.func, ast.Name) and v.func.id == "getattr" and len(v.args) >= 2 \
                        and (common.is_self_attr(v.args[0], "file") or (isinstance(v.args[0], ast.Name) and v.args[0].id in obj_alias)) \
                        and isinstance(v.args[1], ast.Constant) and nm not in meth_alias:
                    meth_alias[nm] = v.args[1].value
                    changed = True
    for n in cfg.live:
        for c, m in calls_in_node(n):
            if isinstance(c.func, ast.Attribute) and (common.is_self_attr(c.func.value, "file")
                                                      or (isinstance(c.func.value, ast.Name) and c.func.value.id in obj_alias)):
                out.append((n, c, m, c.func.attr))
            elif isinstance(c.func, ast.Name) and c.func.id in meth_alias:
                out.append((n, c, m, meth_alias[c.func.id]))
    return cfg, out


def line_parts(chk, f, arg):
    """Decompose the written value into its concatenated parts."""
    e = expand(f, arg)
    parts = []

    def flat(x):
        if isinstance(x, ast.BinOp) and isinstance(x.op, ast.Add):
            flat(x.left)
            flat(x.right)
        elif isinstance(x, ast.Call) and isinstance(x.func, ast.Attribute) and x.func.attr == "join" and len(x.args) == 1 \
                and isinstance(x.args[0], (ast.List, ast.Tuple)) and isinstance(x.func.value, ast.Constant) and x.func.value.value in ("", b""):
            for el in x.args[0].elts:
                flat(expand(f, el))
        else:
            parts.append(x)
    flat(e)
    return parts


def rule_line(chk, prefix="C10", flush=True):
    ctx = chk.ctx
    f = _fd(chk, "__call__")
    cfg, fcalls = file_calls(chk, f)
    writes = [(n, c, m) for n, c, m, a in fcalls if a == "write"]
    flushes = [(n, c, m) for n, c, m, a in fcalls if a == "flush"]
    others = [(n, c, m, a) for n, c, m, a in fcalls if a not in ("write", "flush")]
    if not writes:
        # bound methods of the file cached on the record at construction?
        new_ = _fd(chk, "__new__")
        fparam = new_.pos_params[1]
        cached = {}
        for n in iter_own_nodes(new_.node):
            if isinstance(n, ast.Call):
                for k in n.keywords:
                    if k.arg and isinstance(k.value, ast.Attribute) and isinstance(k.value.value, ast.Name) and k.value.value.id == fparam:
                        cached[k.arg] = k.value.attr
        used = [c for n in cfg.live for c, m in calls_in_node(n) if isinstance(c.func, ast.Attribute) and common.is_self_attr(c.func) and c.func.attr in cached]
        if used:
            chk.bad("%s.line" % prefix, "FileDestination.__call__:file-methods-looked-up-per-call", chk.where(f),
                    "the file's %s are bound once at construction (%s) and called through the record: for a file-like object that delegates to an underlying file which is later replaced (rotation), writes/flushes go to the old object and an acknowledged line never leaves the process"
                    % (sorted(set(cached.values())), sorted(cached)))
            return
    where = chk.where(f)
    mparam = f.pos_params[1]

    def cnt(lst):
        return lambda n: sum(1 for x in lst if x[0] is n)
    rng = cfg.count_range(cfg.entry, [cfg.exit], cnt(writes))
    chk.req(rng == (1, 1) and all(m == "once" for _, _, m in writes), "%s.line" % prefix, "FileDestination.__call__:one-write-per-message", where,
            good="exactly one self.file.write on every path to the normal exit",
            fail="self.file.write calls per message range %s: a reader (or a crash) can observe a partial line, or a message is not written" % (rng,),
            sites=len(cfg.live))
    if flush:
        _rule_flush(chk, prefix, f, cfg, writes, flushes, cnt, where)
    _rule_rest(chk, prefix, f, cfg, fcalls, writes, others, mparam, where)


def _rule_flush(chk, prefix, f, cfg, writes, flushes, cnt, where):
    # the flush may be skipped only where the stream is known to have pushed the line down already: an exact io.TextIOWrapper in
    # line-buffering mode (its write() flushes the text layer AND the underlying buffer when the text contains a newline).
    # write_through only empties the text layer into the BufferedWriter, which keeps the bytes in process memory.
    skip_edges = set()
    for t in cfg.live:
        if t.kind != "test":
            continue
        for lab in ("true", "false"):
            facts = [(unparse(X.for_matching(f, e_)), truth) for e_, truth in X.atomic_facts(X.for_matching(f, t.exprs[0]), lab)]
            exact = any(truth and txt.replace("self.file", "file") in ("type(file) is TextIOWrapper", "type(file) is io.TextIOWrapper", "file.__class__ is TextIOWrapper") for txt, truth in facts)
            lb = any(truth and txt.replace("self.file", "file") == "file.line_buffering" for txt, truth in facts)
            if exact and lb:
                skip_edges.add((t, lab))
    rngf = cfg.count_range(cfg.entry, [cfg.exit], cnt(flushes), avoid_edges=skip_edges) if flushes else (0, 0)
    okord = bool(flushes) and cfg.precedes([n for n, c, m in writes], [n for n, c, m in flushes])[0] \
        and cfg.must_pass([s for n, c, m in writes for s, l in n.succ if l != "exc"], [cfg.exit], [n for n, c, m in flushes], avoid_edges=skip_edges)[0]
    chk.req(rngf == (1, 1) and okord, "%s.line" % prefix, "FileDestination.__call__:flush-after-write", where,
            good="exactly one flush, after the write, before the call returns",
            fail="self.file.flush() calls per message range %s%s: a returned logging call does not imply the line left the process"
                 % (rngf, "" if okord else "; the flush does not follow the write on every path"))


def _rule_rest(chk, prefix, f, cfg, fcalls, writes, others, mparam, where):
    ctx = chk.ctx
    chk.req(not others, "%s.line" % prefix, "FileDestination.__call__:no-other-file-operation", where,
            good="only write and flush touch the file", fail="other operations on the file: %s" % [a for _, _, _, a in others])
    # content of the line
    for n, c, m in writes:
        okargs = len(c.args) == 1 and not c.keywords
        parts = line_parts(chk, f, c.args[0]) if okargs else []
        dumps_ok = lb_ok = False
        detail = ""
        if len(parts) == 2:
            d, lb = parts
            if isinstance(d, ast.Call) and common.is_self_attr(d.func, "_dumps"):
                kw = {k.arg: k.value for k in d.keywords}
                dumps_ok = len(d.args) == 1 and isinstance(d.args[0], ast.Name) and d.args[0].id == mparam \
                    and not stores_to_name(f, mparam) and "default" in kw and common.is_self_attr(kw["default"], "_json_default")
            lb_ok = common.is_self_attr(lb, "_linebreak")
        detail = "written value = %s" % " + ".join(unparse(p)[:50] for p in parts)
        chk.req(okargs and dumps_ok and lb_ok, "%s.line" % prefix, "FileDestination.__call__:line-is-dumps-plus-linebreak", chk.where(f, c.lineno),
                good=detail, fail="the value written is not self._dumps(<message>, default=self._json_default) followed by self._linebreak: " + detail)
    # no state kept between calls (no buffering of lines)
    stores = [n for n in iter_own_nodes(f.node) if isinstance(n, (ast.Assign, ast.AugAssign)) and any(
        isinstance(t, (ast.Attribute, ast.Subscript)) for t in (n.targets if isinstance(n, ast.Assign) else [n.target]))]
    extra_calls = []
    known = {id(c) for _, c, _, _ in fcalls}
    for n in cfg.live:
        for c, m in calls_in_node(n):
            if id(c) in known or common.is_self_attr(c.func, "_dumps"):
                continue
            site = [s_ for s_ in ctx.cg.sites[f] if s_.call is c]
            if site and ctx.cg.classify(site[0]) in ("builtin", "container", "stdlib"):
                continue  # total, stateless helpers such as len()
            extra_calls.append(c)
    chk.req(not stores and not extra_calls, "%s.line" % prefix, "FileDestination.__call__:stateless", where,
            good="no attribute/subscript store and no call other than dumps/write/flush: nothing is buffered between calls",
            fail="__call__ does more than dump+write+flush (%s): lines may be buffered or reordered"
                 % ([unparse(x)[:40] for x in stores] + [unparse(c)[:40] for c in extra_calls]))


def json_arms(chk):
    """Analyse eliot/json.py's two import arms -> [{'text': (base, transform), 'bytes': ...}]"""
    ctx = chk.ctx
    jm = ctx.p.mod("json")
    tries = [st for st in jm.tree.body if isinstance(st, ast.Try)]
    target = None
    for t in tries:
        names = {n.name for n in ast.walk(t) if isinstance(n, ast.FunctionDef)} | {
            (a.asname or a.name) for n in ast.walk(t) if isinstance(n, ast.ImportFrom) for a in n.names}
        if "_dumps_bytes" in names or "_dumps_unicode" in names:
            target = t
    chk.need(target is not None, "json.py: serializer selection (try/except ImportError) not found")
    arms = [("orjson arm", target.body)]
    for h in target.handlers:
        arms.append(("fallback arm", h.body))

    def classify(defn, env):
        """-> (base, transform, passes_default)"""
        if isinstance(defn, tuple) and defn[0] == "import":
            return (defn[1], "id", True)
        if isinstance(defn, ast.FunctionDef):
            rets = [n for n in ast.walk(defn) if isinstance(n, ast.Return)]
            if len(rets) != 1 or len(defn.body) > 2:
                return None
            v = rets[0].value
            tr = "id"
            if isinstance(v, ast.Call) and isinstance(v.func, ast.Attribute) and v.func.attr in ("encode", "decode") \
                    and len(v.args) == 1 and isinstance(v.args[0], ast.Constant) and str(v.args[0].value).lower().replace("-", "") == "utf8":
                tr = v.func.attr
                v = v.func.value
            if not isinstance(v, ast.Call):
                return None
            params = [a.arg for a in defn.args.posonlyargs + defn.args.args]
            kw = {k.arg: k.value for k in v.keywords}
            passes = len(v.args) == 1 and isinstance(v.args[0], ast.Name) and v.args[0].id == params[0] \
                and "default" in kw and isinstance(kw["default"], ast.Name) and kw["default"].id == "default" and "default" in params \
                and set(kw) == {"default"}
            base = unparse(v.func)
            if base in env:
                b = env[base]
                if b is None:
                    return None
                # compose
                comp = {("id", "id"): "id", ("id", "encode"): "encode", ("id", "decode"): "decode"}
                t2 = comp.get((b[1], tr))
                if t2 is None:
                    return None
                return (b[0], t2, passes and b[2])
            r = ctx.p.resolve_expr_static(jm, None, v.func)
            if r and r[0] == "ext":
                base = r[1]
            return (base, tr, passes)
        if isinstance(defn, ast.AST):
            r = ctx.p.resolve_expr_static(jm, None, defn)
            if r and r[0] == "ext":
                return (r[1], "id", True)
        return None

    out = []
    for label, body in arms:
        env = {}
        for st in body:
            if isinstance(st, ast.ImportFrom):
                for a in st.names:
                    env[a.asname or a.name] = ("%s.%s" % (st.module, a.name), "id", True)
            elif isinstance(st, ast.FunctionDef):
                env[st.name] = classify(st, env)
            elif isinstance(st, ast.Assign) and len(st.targets) == 1 and isinstance(st.targets[0], ast.Name):
                env[st.targets[0].id] = classify(st.value, env)
        out.append((label, env))
    return out


BASE_RESULT = {"orjson.dumps": "bytes", "json.dumps": "str"}


def rule_same(chk):
    arms = json_arms(chk)
    jm = chk.ctx.p.mod("json")
    chk.instances("C10.same:import arms", len(arms), 2)
    for label, env in arms:
        t = env.get("_dumps_unicode")
        b = env.get("_dumps_bytes")
        problems = []
        if not t or not b:
            problems.append("text/bytes serializer of this arm not analysable (%s / %s)" % (t, b))
        else:
            if t[0] != b[0]:
                problems.append("text serializer is built on %s, bytes serializer on %s" % (t[0], b[0]))
            kind = BASE_RESULT.get(b[0])
            if kind is None:
                problems.append("unknown base encoder %s" % b[0])
            else:
                want_b = "id" if kind == "bytes" else "encode"
                want_t = "decode" if kind == "bytes" else "id"
                if b[1] != want_b or t[1] != want_t:
                    problems.append("text = %s∘%s, bytes = %s∘%s (expected %s / %s for a %s-returning base)" % (t[1], t[0], b[1], b[0], want_t, want_b, kind))
            if not (t[2] and b[2]):
                problems.append("`default` is not passed through unchanged")
        chk.req(not problems, "C10.same", "json.py:%s:text-and-bytes-agree" % label.replace(" ", "-"), "%s:1" % jm.relpath,
                good="text = utf-8 decoding / bytes = utf-8 encoding of the same base encoder %s, default passed through" % (b and b[0]),
                fail="; ".join(problems))


def rule_mode(chk):
    ctx = chk.ctx
    f = _fd(chk, "__new__")
    cfg = ctx.cfg(f)
    fparam = f.pos_params[1]
    # the probe: <file>.write(b"") inside try with an `except TypeError` handler assigning the flag
    probe = None
    for n in iter_own_nodes(f.node):
        if isinstance(n, ast.Try):
            for x in ast.walk(ast.Module(body=n.body, type_ignores=[])):
                if isinstance(x, ast.Call) and isinstance(x.func, ast.Attribute) and x.func.attr == "write" and isinstance(x.func.value, ast.Name) \
                        and x.func.value.id == fparam and len(x.args) == 1 and isinstance(x.args[0], ast.Constant) and x.args[0].value == b"":
                    probe = (n, x)
    if probe is None:
        how = [unparse(v)[:60] for v in assigned_values(f, "unicodeFile") if v is not None]
        chk.bad("C10.mode", "FileDestination.__new__:probe-selects-text-mode-on-TypeError", chk.where(f),
                "text/binary mode is no longer detected by probing file.write(b'') (now: %s): a text file-like object of another class is treated as binary (or vice versa) and every write fails" % (how or "no probe"))
        return
    tr, pcall = probe
    # the probe is made on THIS file at every construction: a verdict remembered per class / per anything else is wrong for
    # the next file of that kind (a text wrapper and a binary file can share a class)
    pnode, _pm = common.node_of_call(cfg, pcall)
    ctor_nodes = [n for n in cfg.live for c, m in calls_in_node(n) if unparse(c.func).endswith("PClass.__new__")]
    if pnode is not None and ctor_nodes:
        # a path may skip the probe only where the stream's class already says which kind of data its write() takes
        SOUND = {"TextIOBase": True, "StringIO": True, "TextIOWrapper": True,
                 "RawIOBase": False, "BufferedIOBase": False, "BytesIO": False, "BufferedWriter": False, "BufferedRandom": False, "FileIO": False}
        shortcut_edges = set()
        for t in cfg.live:
            if t.kind != "test":
                continue
            e, lab = X.strip_not(t.exprs[0], "true")
            if not (isinstance(e, ast.Call) and isinstance(e.func, ast.Name) and e.func.id == "isinstance" and len(e.args) == 2 and isinstance(e.args[0], ast.Name) and e.args[0].id == fparam):
                continue
            classes = [unparse(c_).split(".")[-1] for c_ in (e.args[1].elts if isinstance(e.args[1], ast.Tuple) else [e.args[1]])]
            after = [s_ for s_, l_ in t.succ if l_ == lab]
            decides = [s_ for s_ in after if isinstance(s_.ast, ast.Assign) and s_.kind != "test" and isinstance(s_.ast.value, ast.Constant) and isinstance(s_.ast.value.value, bool)]
            if not decides:
                continue   # the test does not decide the mode by itself (e.g. the writable() check)
            kinds = {SOUND.get(c_) for c_ in classes}
            if len(kinds) == 1 and None not in kinds:
                shortcut_edges.add((t, lab))
                chk.req(decides[0].ast.value.value is kinds.pop(), "C10.mode", "FileDestination.__new__:class-shortcut(%s)" % "/".join(classes), chk.where(f, t.lineno),
                        good="isinstance(file, %s) decides the mode the way that class's write() works" % "/".join(classes),
                        fail="isinstance(file, %s) selects %s mode, but write() of such a stream takes %s" % ("/".join(classes), "text" if decides[0].ast.value.value else "binary",
                                                                                                              "bytes" if decides[0].ast.value.value else "str"))
            else:
                chk.bad("C10.mode", "FileDestination.__new__:class-shortcut(%s)" % "/".join(classes), chk.where(f, t.lineno),
                        "`%s` decides the text/binary mode without probing, but that class does not determine what write() takes: a text stream whose class derives from it directly "
                        "(tempfile.SpooledTemporaryFile(mode='w') derives from io.IOBase on Python 3.11+, as may any user-defined stream) is treated as binary, every write raises TypeError "
                        "and no line is ever written" % unparse(t.exprs[0])[:60])
                shortcut_edges.add((t, lab))
        okp, witp = cfg.must_pass([cfg.entry], ctor_nodes, [pnode], skip_labels=("exc",), avoid_edges=shortcut_edges)
        chk.req(okp, "C10.mode", "FileDestination.__new__:probe-runs-for-every-file", chk.where(f, pcall.lineno),
                good="file.write(b'') is executed on every path that constructs the destination",
                fail="the text/binary probe is skipped on some path (%s): the mode is then taken from somewhere else than this file" % cfg.fmt_path(witp))
    flag = None
    handler_ok = False
    type_handlers = [h for h in tr.handlers if h.type is not None and unparse(h.type) == "TypeError"]
    handler_value = True
    for h in type_handlers:
        for st in h.body:
            if isinstance(st, ast.Assign) and isinstance(st.targets[0], ast.Name) and isinstance(st.value, ast.Constant) and isinstance(st.value.value, bool):
                flag = st.targets[0].id
                handler_value = st.value.value
                handler_ok = True
    # everywhere else the flag gets the opposite constant (before the probe, or in the try's else arm)
    init_false = flag is not None and any(isinstance(v, ast.Constant) and v.value is (not handler_value) for v in assigned_values(f, flag)) \
        and all(isinstance(v, ast.Constant) and isinstance(v.value, bool) for v in assigned_values(f, flag) if v is not None)
    hnodes = [n for n in cfg.live if n.kind == "handler" and any(n.ast is h for h in type_handlers)]
    direct_form = flag is None and len(type_handlers) == 1 and len(tr.handlers) == 1 and bool(hnodes)
    chk.req((handler_ok and init_false) or direct_form, "C10.mode", "FileDestination.__new__:probe-selects-text-mode-on-TypeError", chk.where(f, tr.lineno),
            good=("flag %s: False, set True only when write(b'') raises TypeError" % flag) if flag else "text mode chosen in the `except TypeError` arm of the probe, binary mode when the probe write succeeds",
            fail="the text/binary probe does not select text mode exactly when write(b'') raises TypeError")
    if flag is None and not direct_form:
        return
    # the constructor call and what it passes
    ctor = None
    for n in iter_own_nodes(f.node):
        if isinstance(n, ast.Call) and unparse(n.func).endswith("PClass.__new__"):
            ctor = n
    chk.need(ctor is not None, "FileDestination.__new__: PClass.__new__ call not found")
    kw = {k.arg: k.value for k in ctor.keywords}
    chk.need("_dumps" in kw and "_linebreak" in kw, "FileDestination.__new__: _dumps/_linebreak not passed to the record")

    def arm_values(name_expr):
        """{True: value on text arm, False: value on bytes arm} for a Name assigned under the flag."""
        if not isinstance(name_expr, ast.Name):
            return None
        res = {}
        for n in cfg.live:
            if isinstance(n.ast, ast.Assign) and any(isinstance(t, ast.Name) and t.id == name_expr.id for t in n.ast.targets):
                pol = None
                if flag is None:
                    # direct form: the text arm is what only the TypeError handler reaches, the binary arm what it never reaches
                    if cfg.must_pass([cfg.entry], [n], hnodes)[0]:
                        pol = True
                    elif n not in cfg.reach(hnodes):
                        pol = False
                for t, lab in (cfg.guards_of(n) if flag is not None else []):
                    if t.kind == "test":
                        e = t.exprs[0]
                        if isinstance(e, ast.Name) and e.id == flag:
                            pol = ((lab == "true") == handler_value)
                        elif isinstance(e, ast.UnaryOp) and isinstance(e.op, ast.Not) and isinstance(e.operand, ast.Name) and e.operand.id == flag:
                            pol = ((lab != "true") == handler_value)
                if pol is None or pol in res:
                    return None
                res[pol] = n.ast.value
        return res if set(res) == {True, False} else None
    dv = arm_values(kw["_dumps"])
    lv = arm_values(kw["_linebreak"])
    problems = []
    if dv is None or lv is None:
        problems.append("serializer/linebreak are not each assigned once per arm of the mode flag")
    else:
        for arm, want_ser, want_lb in ((True, "_dumps_unicode", "\n"), (False, "_dumps_bytes", b"\n")):
            ser = unparse(dv[arm])
            r = ctx.p.resolve_expr_static(f.module, f, dv[arm])
            rname = None
            if r and r[0] == "func":
                rname = r[1].name
            elif r and r[0] == "ext":
                rname = want_ser if ser == want_ser else None
            okl, lbv = ctx.try_fold(f, lv[arm])
            if (rname or ser) != want_ser:
                problems.append("%s arm serializes with %s" % ("text" if arm else "binary", ser))
            if not okl or lbv != want_lb or type(lbv) is not type(want_lb):
                problems.append("%s arm's linebreak is %r" % ("text" if arm else "binary", lbv if okl else unparse(lv[arm])))
    chk.req(not problems, "C10.mode", "FileDestination.__new__:serializer-and-linebreak-type-consistent", chk.where(f),
            good="text file: (_dumps_unicode, '\\n'); binary file: (_dumps_bytes, b'\\n')", fail="; ".join(problems), sites=len(cfg.live))


def rule_default(chk):
    ctx = chk.ctx
    f = _fd(chk, "__new__")
    helper = ctx.func("_output", "_json_default_from_encoder_and_json_default")
    ctor = None
    for n in iter_own_nodes(f.node):
        if isinstance(n, ast.Call) and unparse(n.func).endswith("PClass.__new__"):
            ctor = n
    kw = {k.arg: k.value for k in ctor.keywords} if ctor else {}
    v = kw.get("_json_default")
    ok = False
    jparam = "json_default" if "json_default" in f.params else None
    if isinstance(v, ast.Name):
        vals = assigned_values(f, v.id)
        if len(vals) == 1 and isinstance(vals[0], ast.Call) and helper in ctx.targets(f, vals[0]):
            # the shim's result, under the parameter's own name or a new local; the shim receives the caller's json_default
            src = v.id if v.id in f.params else jparam
            ok = src is not None and any(isinstance(a, ast.Name) and a.id == src for a in vals[0].args) and (v.id in f.params or not stores_to_name(f, src))
        elif v.id in f.params and not vals:
            ok = True
    chk.req(ok, "C10.default", "FileDestination.__new__:json_default-passed-through", chk.where(f),
            good="_json_default = the caller's json_default (after the deprecated-encoder shim)", fail="the record's _json_default is not the caller's json_default")
    # helper returns its json_default unchanged when no encoder is given
    hcfg = ctx.cfg(helper)
    hp = helper.pos_params
    is_enc = lambda x: isinstance(x, ast.Name) and x.id == hp[0]
    notnone_edges = {(t, lab) for t in hcfg.live if t.kind == "test" for lab in ("true", "false") if X.none_branch(t.exprs[0], lab, is_enc) == "notnone"}
    when_none = hcfg.reach([hcfg.entry], avoid_edges=notnone_edges, skip_labels=("exc",))   # everything that can run when no encoder is given
    rets_none = [r for r in common.returns_of(hcfg) if r in when_none]
    stores = [n for n in hcfg.live if isinstance(n.ast, ast.Assign) and any(isinstance(t, ast.Name) and t.id == hp[1] for t in n.ast.targets)]
    okh = bool(notnone_edges) and bool(rets_none) and all(isinstance(r.ast.value, ast.Name) and r.ast.value.id == hp[1] for r in rets_none) \
        and not any(s_ in when_none for s_ in stores)
    chk.req(okh, "C10.default", "_json_default_from_encoder_and_json_default:identity-without-encoder", chk.where(helper),
            good="returns json_default unchanged unless an encoder is given", fail="json_default is replaced even when no encoder is given")
    tf = ctx.func("_output", "to_file")
    okt = False
    for n in iter_own_nodes(tf.node):
        if isinstance(n, ast.Call) and unparse(n.func) == "FileDestination":
            k2 = {k.arg: k.value for k in n.keywords}
            okt = all(isinstance(k2.get(a), ast.Name) and k2[a].id == b for a, b in (("json_default", "json_default"), ("encoder", "encoder")))
            okt = okt and (isinstance(k2.get("file"), ast.Name) and k2["file"].id == tf.params[0])
    chk.req(okt, "C10.default", "to_file:passes-file-and-json_default-through", chk.where(tf),
            good="to_file(file, encoder, json_default) -> FileDestination(file=..., encoder=..., json_default=...)",
            fail="to_file does not pass its file/json_default through unchanged")


STD_RICH = {"pathlib.Path": "Path", "datetime.date": "date", "datetime.time": "time", "set": "set", "complex": "complex", "frozenset": "frozenset"}


def rule_rich(chk):
    """Arms of json_default for the documented stdlib rich types are total: they may
    not run user code on the value's elements (ordering, hashing, formatting)."""
    ctx = chk.ctx
    jd = ctx.func("json", "json_default")
    cfg = ctx.cfg(jd)
    oparam = jd.params[0]
    arms = 0
    optional_mods = set()
    for n in iter_own_nodes(jd.node):
        if isinstance(n, ast.Assign) and isinstance(n.targets[0], ast.Name) and isinstance(n.value, ast.Call) and unparse(n.value.func) == "sys.modules.get":
            optional_mods.add(n.targets[0].id)
    CONCRETE_EXT = set(STD_RICH) | {"datetime.datetime", "uuid.UUID", "enum.Enum", "decimal.Decimal"}
    REITERABLE = {"Set", "MutableSet", "AbstractSet", "FrozenSet", "ValuesView", "KeysView", "ItemsView", "deque", "Sequence", "MutableSequence", "Collection", "Mapping", "MutableMapping", "OrderedDict"}
    ONE_SHOT = {"Iterable", "Iterator", "Generator", "Reversible", "object", "Container", "Sized", "Hashable", "Callable"}
    # table-driven form: `for cls, convert in <module-level tuple of (type, converter) pairs>: if isinstance(o, cls): return convert(o)`
    table_vars = {}
    for x in iter_own_nodes(jd.node):
        if isinstance(x, ast.For) and isinstance(x.target, ast.Tuple) and len(x.target.elts) == 2 and all(isinstance(e_, ast.Name) for e_ in x.target.elts) and isinstance(x.iter, ast.Name):
            vals_ = [v for v in jd.module.assigns.get(x.iter.id, []) if isinstance(v, (ast.Tuple, ast.List))]
            if len(vals_) == 1 and all(isinstance(p_, ast.Tuple) and len(p_.elts) == 2 for p_ in vals_[0].elts):
                table_vars[x.target.elts[0].id] = (x.target.elts[1].id, vals_[0], x)
    for cv, (fv, table, loop) in table_vars.items():
        for pair in table.elts:
            ce, conv = pair.elts
            r0 = ctx.p.resolve_expr_static(jd.module, None, ce) if isinstance(ce, (ast.Name, ast.Attribute)) else None
            known_t = bool(r0) and ((r0[0] == "ext" and r0[1] in CONCRETE_EXT) or (r0[0] == "builtin" and r0[1] in ("set", "frozenset", "complex", "bytes", "bytearray")))
            if not known_t:
                raise AnalysisError("json_default's table lists `%s`, a class the rule does not know" % unparse(ce))
            arms += 1
            # the converter runs on instances of SUBCLASSES too: an unbound method of the listed class bypasses their overrides
            if isinstance(conv, ast.Attribute) and unparse(conv.value) == unparse(ce) and r0[0] == "ext" and r0[1] in ("datetime.date", "datetime.time"):
                chk.bad("C10.rich", "json_default:%s-arm-is-faithful" % unparse(ce), "%s:%d" % (jd.module.relpath, pair.lineno),
                        "the table converts %s values with the unbound method `%s`: isinstance also matches subclasses, and datetime is a subclass of date -- for a datetime (any datetime "
                        "subclass orjson does not encode natively: pandas.Timestamp, pendulum, user classes; every datetime with the stdlib encoder) date.isoformat() renders the DATE ONLY, "
                        "silently dropping time, microseconds and offset (o.isoformat() dispatches on the object)" % (unparse(ce), unparse(conv)))
            elif isinstance(conv, ast.Attribute) and unparse(conv.value) == unparse(ce):
                raise AnalysisError("json_default's table converts %s with the unbound method %s (dispatch on subclasses not modelled)" % (unparse(ce), unparse(conv)))
    for t in cfg.live:
        if t.kind != "test":
            continue
        for e in ast.walk(t.exprs[0]):
            if not (isinstance(e, ast.Call) and isinstance(e.func, ast.Name) and e.func.id == "isinstance" and len(e.args) == 2
                    and isinstance(e.args[0], ast.Name) and e.args[0].id == oparam):
                continue
            cls_exprs = e.args[1].elts if isinstance(e.args[1], ast.Tuple) else [e.args[1]]
            for ce in cls_exprs:
                base = ce
                while isinstance(base, ast.Attribute):
                    base = base.value
                if isinstance(base, ast.Name) and base.id in optional_mods:
                    continue  # a class of an optional third-party package (numpy, pandas, ...)
                r0 = ctx.p.resolve_expr_static(jd.module, jd, ce) if isinstance(ce, (ast.Name, ast.Attribute)) else None
                concrete = bool(r0) and ((r0[0] == "ext" and r0[1] in CONCRETE_EXT) or (r0[0] == "builtin" and r0[1] in ("set", "frozenset", "complex", "bytes", "bytearray")))
                refname = str(r0[1]).split(".")[-1] if r0 and r0[0] == "ext" else None
                if not concrete and refname in REITERABLE:
                    # a container that can be iterated any number of times: turning it into a list takes nothing away from the application
                    chk.ok("C10.rich", "json_default:also-converts-re-iterable-container(%s)" % unparse(ce), chk.where(jd, t.lineno), "%s can be iterated again after being logged" % unparse(ce))
                    if refname in ("Set", "AbstractSet", "MutableSet"):
                        arms += 1   # covers the documented `set` arm
                    continue
                if not concrete and isinstance(ce, ast.Name) and ce.id in table_vars:
                    continue   # a class taken from a module-level table: decided entry by entry below
                if not concrete and refname not in ONE_SHOT:
                    raise AnalysisError("json_default matches `%s`, a class the rule does not know (neither a documented rich type, a re-iterable container nor a one-shot protocol)" % unparse(ce))
                chk.req(concrete, "C10.rich", "json_default:converts-only-documented-concrete-types(%s)" % unparse(ce), chk.where(jd, t.lineno),
                        good="%s is a documented concrete type" % unparse(ce),
                        fail="json_default now matches `%s`, an open-ended protocol/class outside the documented rich types: arbitrary application objects (e.g. one-shot iterators) are consumed or altered by being logged" % unparse(ce))
    for t in cfg.live:
        if t.kind != "test":
            continue
        e = t.exprs[0]
        if not (isinstance(e, ast.Call) and isinstance(e.func, ast.Name) and e.func.id == "isinstance" and len(e.args) == 2
                and isinstance(e.args[0], ast.Name) and e.args[0].id == oparam):
            continue
        tnames = []
        for ce_ in (e.args[1].elts if isinstance(e.args[1], ast.Tuple) else [e.args[1]]):
            r = ctx.p.resolve_expr_static(jd.module, jd, ce_) if isinstance(ce_, (ast.Name, ast.Attribute)) else None
            if r and r[0] == "ext" and r[1] in STD_RICH:
                tnames.append(STD_RICH[r[1]])
            elif r and r[0] == "builtin" and r[1] in STD_RICH:
                tnames.append(r[1])
        if not tnames:
            continue
        arms += len(tnames)
        tname = "+".join(tnames)
        region = cfg.reach([s for s, l in t.succ if l == "true"], avoid={x for x, l in t.succ if l == "false"})
        rets = [n for n in region if n.kind == "return" and cfg.edge_dominates(t, "true", n)]
        bad = []
        for n in rets:
            for c, m in calls_in_node(n):
                if isinstance(c.func, ast.Name) and c.func.id == "str" and tname == "Path":  # str(Path) only
                    continue
                for s_ in ctx.cg.sites[jd]:
                    if s_.call is c and ctx.cg.classify(s_) in ("foreign", "unknown"):
                        bad.append(unparse(c))
        chk.req(bool(rets) and not bad, "C10.rich", "json_default:%s-arm-is-total" % tname, chk.where(jd, t.lineno),
                good="the %s arm returns without running user code on the value" % tname,
                fail="the %s arm evaluates %s: for some values of this documented type the encoder raises and the message's line is never written" % (tname, bad or "no return"))
    if arms < 5 and any(o.status == "VIOLATED" for o in chk.obs):
        return
    chk.instances("C10.rich:documented stdlib rich-type arms", arms, 5)


def run(chk):
    rule_rich(chk)
    rule_line(chk)
    rule_mode(chk)
    rule_same(chk)
    rule_default(chk)
    common.rule_forwarding(chk, "C10", keys=[("_output", "to_file"), ("_output", "FileDestination.__call__")])
