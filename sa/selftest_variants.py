"""Variants for the checker self-test.  Each variant is a small edit of the committed
tree (text fragments; a fragment that no longer exists makes the variant 'skipped',
never a failure).  kind 'mutant' must be reported by every property in `props`
(naming rule `expect`); kind 'benign' must not raise an alarm in `props` ('*' = all)."""

V = []


def M(id, props, fn, old, new, expect=""):
    V.append({"id": id, "kind": "mutant", "props": props, "edits": [(fn, old, new)], "expect": expect})


def B(id, props, edits, black=False):
    V.append({"id": id, "kind": "benign", "props": props, "edits": edits, "black": black})


# ---------------------------------------------------------------------------
# must-fire: the surviving mutants quoted in the properties, then one per rule family

M("exit-finish-before-reset", ["C02"], "_action.py",
  "        _ACTION_CONTEXT.reset(self._parent_token)\n        self._parent_token = None\n        self.finish(exception)",
  "        self.finish(exception)\n        _ACTION_CONTEXT.reset(self._parent_token)\n        self._parent_token = None", "C02.exit-order")
M("success-for-non-Exception", ["C03"], "_action.py", "        if exception is None:\n            fields = self._successFields",
  "        if not isinstance(exception, Exception):\n            fields = self._successFields", "C03.truthful")
M("success-by-truthiness", ["C03"], "_action.py", "        if exception is None:\n            fields = self._successFields",
  "        if not exception:\n            fields = self._successFields", "C03.truthful")
M("skip-finish-for-BaseException", ["C03"], "_action.py", "        self.finish(exception)",
  "        if exception is None or isinstance(exception, Exception):\n            self.finish(exception)", "C03.truthful")
M("exit-swallows", ["C03", "C07", "C18"], "_action.py", "        self.finish(exception)", "        self.finish(exception)\n        return True", "C03.propagate")
M("finished-flag-after-write", ["C03"], "_action.py",
  "        self._finished = True\n        serializer = None", "        serializer = None",
  "C03.once")
M("context-restore-None", ["C04", "C05"], "_action.py",
  "        try:\n            yield self\n        finally:\n            _ACTION_CONTEXT.reset(parent)",
  "        try:\n            yield self\n        finally:\n            _ACTION_CONTEXT.set(None)", "C04")
M("run-without-finally", ["C04"], "_action.py",
  "        parent = _ACTION_CONTEXT.set(self)\n        try:\n            return f(*args, **kwargs)\n        finally:\n            _ACTION_CONTEXT.reset(parent)",
  "        parent = _ACTION_CONTEXT.set(self)\n        result = f(*args, **kwargs)\n        _ACTION_CONTEXT.reset(parent)\n        return result", "C04.pair")
M("threadlocal-context", ["C05"], "_action.py", "    return _ACTION_CONTEXT.get(None)", "    return getattr(_LOCAL, 'action', None)", "C05")
M("contextvar-default", ["C05"], "_action.py", '_ACTION_CONTEXT = ContextVar("eliot.action")', '_ACTION_CONTEXT = ContextVar("eliot.action", default=None)', "C05.var")
M("global-cache-of-action", ["C05"], "_action.py",
  "        self._parent_token = _ACTION_CONTEXT.set(self)\n        return self",
  "        self._parent_token = _ACTION_CONTEXT.set(self)\n        Action._latest = self\n        return self", "C05.noglobal")
M("preserve-check-then-set", ["C06", "C02"], "_action.py",
  "    called = threading.Lock()\n\n    def restore_eliot_context(*args, **kwargs):\n        # Make sure the function has not already been called:\n        if not called.acquire(False):\n            raise TooManyCalls(f)",
  "    called = []\n\n    def restore_eliot_context(*args, **kwargs):\n        # Make sure the function has not already been called:\n        if called:\n            raise TooManyCalls(f)\n        called.append(True)",
  "C06.once")
M("continue-task-wrong-separator", ["C06"], "_action.py", '        uuid, task_level = task_id.split("@")', '        uuid, task_level = task_id.split(":")', "C06.codec")
M("serialize-id-without-allocation", ["C06", "C02", "C01"], "_action.py",
  "            self._identification[TASK_UUID_FIELD], self._nextTaskLevel().toString()",
  "            self._identification[TASK_UUID_FIELD], self._task_level.toString()", "")
M("send-narrow-handler", ["C07", "C08"], "_output.py", "            except Exception as e:\n                # If the destination is broken",
  "            except ValueError as e:\n                # If the destination is broken", "")
M("send-no-try", ["C07", "C08"], "_output.py",
  "            try:\n                dest(message)\n            except Exception as e:\n                # If the destination is broken not because of a specific\n                # message, but rather continously, we will get a\n                # \"eliot:destination_failure\" log message logged, and so we\n                # want to ensure it doesn't do infinite recursion.\n                if not is_destination_error_message:\n                    errors.append(e)",
  "            dest(message)", "")
M("safeunicode-narrow", ["C07", "C03"], "_util.py", "    try:\n        return str(o)\n    except:", "    try:\n        return str(o)\n    except ValueError:", "")
M("extractor-unprotected", ["C07", "C03"], "_errors.py",
  "                try:\n                    return extractor(exception)\n                except:\n                    from ._traceback import _write_extractor_traceback\n\n                    _write_extractor_traceback(logger)\n                    return {}",
  "                return extractor(exception)", "")
M("revert-D4-extractor-recursion", ["C07", "C03"], "_errors.py",
  "                    from ._traceback import _write_extractor_traceback\n\n                    _write_extractor_traceback(logger)",
  "                    from ._traceback import write_traceback\n\n                    write_traceback(logger)", "")
M("send-break-in-handler", ["C08", "C01", "C11"], "_output.py",
  "                if not is_destination_error_message:\n                    errors.append(e)",
  "                if not is_destination_error_message:\n                    errors.append(e)\n                break", "C08.fanout")
M("send-guard-constant-renamed-one-side", ["C08", "C07"], "_output.py",
  '            message.get("message_type", None) == DESTINATION_FAILURE', '            message.get("message_type", None) == "eliot:destination-failure"', "")
M("send-report-only-first-error", ["C08"], "_output.py", "        for exception in errors:", "        for exception in errors[:1]:", "")
M("send-removes-failing-destination", ["C08"], "_output.py",
  "                if not is_destination_error_message:\n                    errors.append(e)",
  "                if not is_destination_error_message:\n                    errors.append(e)\n                self._destinations.remove(dest)", "")
M("parser-no-child-check", ["C09", "C11", "C01"], "parse.py",
  "                if (\n                    isinstance(child, WrittenAction)\n                    and child.task_level not in self._completed\n                ):\n                    completed = False\n                    break",
  "                pass", "never-early")
M("parser-count-off-by-one", ["C09"], "parse.py", "- 2)", "- 1)", "C09.count")
M("parser-completed-not-discarded", ["C09"], "parse.py",
  '            parser = self.transform(["_tasks", uuid], discard)\n            return [task], parser',
  '            parser = self.transform(["_tasks", uuid], task)\n            return [task], parser', "C09.once")
M("parse-stream-no-tail", ["C09", "C11"], "parse.py", "        for task in parser.incomplete_tasks():\n            yield task", "        return", "tail")
M("file-split-write", ["C10", "C11", "C16", "C01"], "_output.py",
  "        self.file.write(\n            self._dumps(message, default=self._json_default) + self._linebreak\n        )",
  "        self.file.write(self._dumps(message, default=self._json_default))\n        self.file.write(self._linebreak)", ".line")
M("file-no-flush", ["C10", "C11"], "_output.py", "        self.file.flush()\n\n\ndef to_file", "\n\ndef to_file", ".line")
M("file-flush-before-write", ["C10", "C11"], "_output.py",
  "        self.file.write(\n            self._dumps(message, default=self._json_default) + self._linebreak\n        )\n        self.file.flush()",
  "        self.file.flush()\n        self.file.write(\n            self._dumps(message, default=self._json_default) + self._linebreak\n        )", ".line")
M("file-text-mode-bytes-linebreak", ["C10"], "_output.py", '            _dumps = _dumps_unicode\n            _linebreak = "\\n"', '            _dumps = _dumps_unicode\n            _linebreak = b"\\n"', "C10.mode")
M("json-text-not-decoded", ["C10"], "json.py", '        return _dumps_bytes(o, default=default).decode("utf-8")', '        return _dumps_bytes(o).decode("utf-8")', "C10.same")
M("add-extend-after-redelivery", ["C12"], "_output.py",
  "        self._destinations.extend(destinations)\n        if buffered_messages:\n            # Re-deliver buffered messages:\n            for message in buffered_messages:\n                self.send(message)",
  "        if buffered_messages:\n            # Re-deliver buffered messages:\n            for message in buffered_messages:\n                self.send(message)\n        self._destinations.extend(destinations)", "C12.handover")
M("buffer-bound-999", ["C12"], "_output.py", "        while len(self.messages) > 1000:", "        while len(self.messages) >= 1000:", "C12.buffer")
M("buffer-evict-newest", ["C12"], "_output.py", "            self.messages.pop(0)", "            self.messages.pop()", "C12.buffer")
M("write-skip-copy-without-serializer", ["C13"], "_output.py",
  "        dictionary = dictionary.copy()\n        try:\n            if serializer is not None:\n                serializer.serialize(dictionary)",
  "        try:\n            if serializer is not None:\n                dictionary = dictionary.copy()\n                serializer.serialize(dictionary)", "C13.copy")
M("write-serialize-twice", ["C13"], "_output.py",
  "            if serializer is not None:\n                serializer.serialize(dictionary)\n        except:",
  "            if serializer is not None:\n                serializer.serialize(dictionary)\n                serializer.serialize(dictionary)\n        except:", "C13.once")
M("write-failure-still-sends", ["C13"], "_output.py",
  "                __eliot_logger__=self,\n            )\n            return\n", "                __eliot_logger__=self,\n            )\n", "C13.fail")
M("start-uses-success-serializer", ["C13"], "_action.py", "            serializer = self._serializers.start", "            serializer = self._serializers.success", "C13.attach")
M("reserved-fields-widened", ["C14"], "_validation.py", "RESERVED_FIELDS = (TASK_LEVEL_FIELD, TASK_UUID_FIELD, TIMESTAMP_FIELD)",
  "RESERVED_FIELDS = (TASK_LEVEL_FIELD, TASK_UUID_FIELD, TIMESTAMP_FIELD, MESSAGE_TYPE_FIELD)", "C14.reserved")
M("allowed-set-widened-inline", ["C14"], "_validation.py", "        fieldSet = set(self.fields) | set(RESERVED_FIELDS)",
  '        fieldSet = set(self.fields) | set(RESERVED_FIELDS) | {"exception", "reason"}', "C14.reserved")
M("success-allows-extras", ["C14"], "_validation.py", "            success=_MessageSerializer(successFields),", "            success=_MessageSerializer(successFields, allow_additional_fields=True),", "C14.extras")
M("check-for-errors-validate-first", ["C14"], "testing.py",
  "    if logger.tracebackMessages:\n        raise UnflushedTracebacks(logger.tracebackMessages)\n    # If those are fine, validate the logging:\n    logger.validate()",
  "    logger.validate()\n    if logger.tracebackMessages:\n        raise UnflushedTracebacks(logger.tracebackMessages)", "C14.order")
M("capture-cleanup-after-test", ["C14"], "testing.py",
  "            self.addCleanup(cleanup)\n            return function(self, *args, **kwargs)",
  "            result = function(self, *args, **kwargs)\n            self.addCleanup(cleanup)\n            return result", "C14.restore")
M("revert-D1-generator-return", ["C15"], "_generators.py",
  "            except StopIteration as stop:\n                # When the generator raises this, it is signaling\n                # completion.  Leave the loop, passing along the\n                # generator's return value.\n                return stop.value",
  "            except StopIteration:\n                break", "C15.transparent")
M("generator-context-at-decoration", ["C15"], "_generators.py",
  "    @wraps(original)\n    def wrapper(*a, **kw):", "    context = copy_context()\n\n    @wraps(original)\n    def wrapper(*a, **kw):", "C15.ctx")
M("generator-send-outside-context", ["C15"], "_generators.py", "                value_out = context.run(go)", "                value_out = go()", "C15.inside")
M("memorylogger-write-unlocked", ["C16"], "_output.py", "    @exclusively\n    def write(self, dictionary, serializer=None):", "    def write(self, dictionary, serializer=None):", "C16.lock")
M("memorylogger-reset-unlocked", ["C16"], "_output.py", "    @exclusively\n    def reset(self):", "    def reset(self):", "C16.lock")
M("exclusively-does-not-lock", ["C16"], "_output.py", "        with self._lock:\n            return f(self, *a, **kw)", "        return f(self, *a, **kw)", "C16")
M("class-level-lock", ["C16"], "_output.py", "        self._lock = Lock()\n        self._json_default = json_default", "        self._json_default = json_default", "C16.wrapper")
M("of-type-shallow-only", ["C17"], "testing.py",
  "                message.get(ACTION_TYPE_FIELD) == actionType\n                and message[ACTION_STATUS_FIELD] == STARTED_STATUS",
  "                message.get(ACTION_TYPE_FIELD) == actionType\n                and message[ACTION_STATUS_FIELD] == STARTED_STATUS\n                and len(message[TASK_LEVEL_FIELD]) <= 2", "C17.select")
M("descendants-post-order", ["C17"], "testing.py",
  "            yield child\n            if isinstance(child, LoggedAction):\n                for descendant in child.descendants():\n                    yield descendant",
  "            if isinstance(child, LoggedAction):\n                for descendant in child.descendants():\n                    yield descendant\n            yield child", "C17.preorder")
M("log-call-drops-result", ["C18"], "_action.py",
  "            if include_result:\n                ctx.add_success_fields(result=result)\n            return result",
  "            if include_result:\n                ctx.add_success_fields(result=result)\n                return result", "C18.transparent")
M("revert-D2-log-call-splat", ["C18"], "_action.py",
  "        parent = current_action()\n        if parent is None:\n            ctx = Action(None, str(uuid4()), TaskLevel(level=[]), action_type)\n        else:\n            ctx = parent.child(None, action_type)\n        ctx._start(callargs)\n        with ctx:",
  "        with start_action(action_type=action_type, **callargs) as ctx:", "C18.collide")
M("reader-exits-on-running-flag", ["C19"], "logwriter.py", "        while True:\n            msg = self._queue.get()", "        while self.running:\n            msg = self._queue.get()", "C19.exit")
M("lifo-queue", ["C19"], "logwriter.py", "from queue import SimpleQueue", "from queue import LifoQueue as SimpleQueue", "C19.queue")
M("stop-sentinel-before-unregister", ["C19"], "logwriter.py", "        removeDestination(self)\n        self._queue.put(_STOP)", "        self._queue.put(_STOP)\n        removeDestination(self)", "C19.stop")
M("reader-handler-returns", ["C19"], "logwriter.py",
  "                # Lower-level destination blew up, nothing we can do, so\n                # just drop on the floor.\n                pass",
  "                return", "C19")
M("revert-D3-prettyprint-scalar", ["C20"], "prettyprint.py",
  "        if not isinstance(message, dict) or REQUIRED_FIELDS - set(message.keys()):", "        if REQUIRED_FIELDS - set(message.keys()):", "C20.cli")
M("skip-fields-extra", ["C20"], "prettyprint.py", "    ACTION_STATUS_FIELD,\n}", '    ACTION_STATUS_FIELD,\n    "reason",\n}', "C20.complete")
M("filter-skip-by-falsiness", ["C20"], "filter.py", "            if result is self._SKIP:\n                continue", "            if not result:\n                continue", "C20.filter")
M("second-allocation-in-log", ["C02", "C01"], "_action.py",
  "        fields[MESSAGE_TYPE_FIELD] = message_type\n", "        fields[MESSAGE_TYPE_FIELD] = message_type\n        self._nextTaskLevel()\n", ".alloc")
V.append({"id": "uuid-process-constant", "kind": "mutant", "props": ["C02", "C04"], "expect": "C02.uuid", "edits": [
    ("_action.py", "_TASK_ID_NOT_SUPPLIED = object()", "_TASK_ID_NOT_SUPPLIED = object()\n_PROCESS_UUID = str(uuid4())"),
    ("_action.py", "        logger, str(uuid4()), TaskLevel(level=[]), action_type, _serializers", "        logger, _PROCESS_UUID, TaskLevel(level=[]), action_type, _serializers")]})

# ---------------------------------------------------------------------------
# must-stay-silent: behaviour-preserving refactorings

B("black-reformat", ["*"], [], black=True)
B("finish-swapped-arms", ["*"], [("_action.py",
  "        if exception is None:\n            fields = self._successFields\n            fields[ACTION_STATUS_FIELD] = SUCCEEDED_STATUS\n            if self._serializers is not None:\n                serializer = self._serializers.success\n        else:\n            fields = _error_extraction.get_fields_for_exception(self._logger, exception)\n            fields[EXCEPTION_FIELD] = \"%s.%s\" % (\n                exception.__class__.__module__,\n                exception.__class__.__name__,\n            )\n            fields[REASON_FIELD] = safeunicode(exception)\n            fields[ACTION_STATUS_FIELD] = FAILED_STATUS\n            if self._serializers is not None:\n                serializer = self._serializers.failure\n",
  "        if exception is not None:\n            fields = _error_extraction.get_fields_for_exception(self._logger, exception)\n            fields[EXCEPTION_FIELD] = \"%s.%s\" % (\n                exception.__class__.__module__,\n                exception.__class__.__name__,\n            )\n            fields[REASON_FIELD] = safeunicode(exception)\n            fields[ACTION_STATUS_FIELD] = FAILED_STATUS\n            if self._serializers is not None:\n                serializer = self._serializers.failure\n        else:\n            fields = self._successFields\n            fields[ACTION_STATUS_FIELD] = SUCCEEDED_STATUS\n            if self._serializers is not None:\n                serializer = self._serializers.success\n")])
B("send-renamed-locals", ["*"], [("_output.py", "        errors = []", "        failures = []"),
                                  ("_output.py", "                    errors.append(e)", "                    failures.append(e)"),
                                  ("_output.py", "        for exception in errors:", "        for exception in failures:"),
                                  ("_output.py", "        for dest in self._destinations:\n            try:\n                dest(message)", "        for destination in self._destinations:\n            try:\n                destination(message)")])
B("send-guard-via-constant-name", ["*"], [("_output.py", '            message.get("message_type", None) == DESTINATION_FAILURE', "            message.get(MESSAGE_TYPE_FIELD, None) == DESTINATION_FAILURE")])
B("run-context-renamed-token", ["*"], [("_action.py",
  "        parent = _ACTION_CONTEXT.set(self)\n        try:\n            return f(*args, **kwargs)\n        finally:\n            _ACTION_CONTEXT.reset(parent)",
  "        token = _ACTION_CONTEXT.set(self)\n        try:\n            return f(*args, **kwargs)\n        finally:\n            _ACTION_CONTEXT.reset(token)")])
B("memorylogger-write-with-lock-body", ["*"], [("_output.py",
  "    @exclusively\n    def reset(self):\n        \"\"\"\n        Clear all logged messages.\n\n        Any logged tracebacks will also be cleared, and will therefore not\n        cause a test failure.\n\n        This is useful to ensure a logger is in a known state before testing\n        logging of a specific code path.\n        \"\"\"\n        self.messages = []\n        self.serializers = []\n        self.tracebackMessages = []\n        self._failed_validations = []",
  "    def reset(self):\n        \"\"\"\n        Clear all logged messages.\n        \"\"\"\n        with self._lock:\n            self.messages = []\n            self.serializers = []\n            self.tracebackMessages = []\n            self._failed_validations = []")])
B("mro-attribute-instead-of-getmro", ["*"], [("_errors.py", "        for klass in getmro(exception.__class__):", "        for klass in exception.__class__.__mro__:")])
B("file-line-via-join", ["*"], [("_output.py",
  "        self.file.write(\n            self._dumps(message, default=self._json_default) + self._linebreak\n        )",
  "        line = self._dumps(message, default=self._json_default) + self._linebreak\n        self.file.write(line)")])
B("logged-message-of-type-comprehension", ["*"], [("testing.py",
  "        for message in messages:\n            if message.get(MESSAGE_TYPE_FIELD) == messageType:\n                result.append(klass(message))\n        return result",
  "        return [klass(message) for message in messages if message.get(MESSAGE_TYPE_FIELD) == messageType]")])
B("next-task-level-is-none", ["*"], [("_action.py", "        if not self._last_child:\n            self._last_child = self._task_level.child()",
                                       "        if self._last_child is None:\n            self._last_child = self._task_level.child()")])
B("insert-action-nested-ifs", ["*"], [("parse.py",
  "        if (\n            node.end_message\n            and node.start_message\n            and (len(node.children) == node.end_message.task_level.level[-1] - 2)\n        ):\n            # Possibly this action is complete, make sure all sub-actions\n            # are complete:\n            completed = True\n            for child in node.children:\n                if (\n                    isinstance(child, WrittenAction)\n                    and child.task_level not in self._completed\n                ):\n                    completed = False\n                    break\n            if completed:\n                task = task.transform([\"_completed\"], lambda s: s.add(node.task_level))",
  "        if node.end_message and node.start_message:\n            if len(node.children) == node.end_message.task_level.level[-1] - 2:\n                # Possibly this action is complete, make sure all sub-actions\n                # are complete:\n                completed = True\n                for child in node.children:\n                    if isinstance(child, WrittenAction):\n                        if child.task_level not in self._completed:\n                            completed = False\n                            break\n                if completed:\n                    task = task.transform([\"_completed\"], lambda s: s.add(node.task_level))")])
B("exit-extra-comment-and-local", ["*"], [("_action.py",
  "        _ACTION_CONTEXT.reset(self._parent_token)\n        self._parent_token = None\n        self.finish(exception)",
  "        # restore the enclosing action first\n        _ACTION_CONTEXT.reset(self._parent_token)\n        self._parent_token = None\n        self.finish(exception)\n        return None")])
B("destinations-with-lock-repair", ["C12", "C08", "C07", "C11", "C13", "C01"], [
  ("_output.py", "        self._destinations = [BufferingDestination()]\n        self._any_added = False",
   "        self._lock = RLock()\n        self._destinations = [BufferingDestination()]\n        self._any_added = False"),
  ("_output.py", "from threading import Lock\n", "from threading import Lock, RLock\n")])
B("log-call-result-single-return", ["*"], [("_action.py",
  "            result = wrapped_function(*args, **kwargs)\n            if include_result:\n                ctx.add_success_fields(result=result)\n            return result",
  "            result = wrapped_function(*args, **kwargs)\n            if include_result:\n                ctx.add_success_fields(result=result)\n        return result")])
B("reader-sentinel-is-not", ["*"], [("logwriter.py",
  "            if msg is _STOP:\n                return\n            try:\n                self._destination(msg)\n            except Exception:\n                # Lower-level destination blew up, nothing we can do, so\n                # just drop on the floor.\n                pass",
  "            if msg is not _STOP:\n                try:\n                    self._destination(msg)\n                except Exception:\n                    pass\n            else:\n                return")])
B("prettyprint-dict-check-first", ["*"], [("prettyprint.py",
  "        if not isinstance(message, dict) or REQUIRED_FIELDS - set(message.keys()):\n            stdout.write(\"Not an Eliot message: {}\\n\\n\".format(line.rstrip(b\"\\n\")))\n            continue",
  "        if not isinstance(message, dict):\n            stdout.write(\"Not an Eliot message: {}\\n\\n\".format(line.rstrip(b\"\\n\")))\n            continue\n        if REQUIRED_FIELDS - set(message.keys()):\n            stdout.write(\"Not an Eliot message: {}\\n\\n\".format(line.rstrip(b\"\\n\")))\n            continue")])
B("validation-fieldset-union-method", ["*"], [("_validation.py", "        fieldSet = set(self.fields) | set(RESERVED_FIELDS)", "        fieldSet = set(self.fields).union(RESERVED_FIELDS)")])
B("docstrings-and-comments", ["*"], [("_output.py", "        message.update(self._globalFields)\n        errors = []", "        # merge global fields first\n        message.update(self._globalFields)\n\n        errors = []"),
                                     ("_action.py", "        if self._finished:\n            return\n        self._finished = True", "        if self._finished:\n            # already finished: nothing to do\n            return\n        self._finished = True")])

B("preserve-context-flag-under-lock", ["*"], [("_action.py",
  "    called = threading.Lock()\n\n    def restore_eliot_context(*args, **kwargs):\n        # Make sure the function has not already been called:\n        if not called.acquire(False):\n            raise TooManyCalls(f)\n",
  "    lock = threading.Lock()\n    called = False\n\n    def restore_eliot_context(*args, **kwargs):\n        nonlocal called\n        with lock:\n            if called:\n                raise TooManyCalls(f)\n            called = True\n")])
B("exit-try-finally-reset-first", ["*"], [("_action.py",
  "        _ACTION_CONTEXT.reset(self._parent_token)\n        self._parent_token = None\n        self.finish(exception)",
  "        try:\n            _ACTION_CONTEXT.reset(self._parent_token)\n        finally:\n            self._parent_token = None\n        self.finish(exception)")])
B("send-merge-into-new-dict-correct-order", ["C08", "C13", "C01", "C11", "C07"], [("_output.py",
  "        message.update(self._globalFields)\n        errors = []", "        message.update(dict(self._globalFields))\n        errors = []")])
B("failure-fields-helper", ["*"], [("_action.py",
  "            fields = _error_extraction.get_fields_for_exception(self._logger, exception)\n            fields[EXCEPTION_FIELD] = \"%s.%s\" % (\n                exception.__class__.__module__,\n                exception.__class__.__name__,\n            )\n            fields[REASON_FIELD] = safeunicode(exception)\n            fields[ACTION_STATUS_FIELD] = FAILED_STATUS\n",
  "            fields = _error_extraction.get_fields_for_exception(self._logger, exception)\n            fields[EXCEPTION_FIELD] = _exception_name(exception.__class__)\n            fields[REASON_FIELD] = safeunicode(exception)\n            fields[ACTION_STATUS_FIELD] = FAILED_STATUS\n"),
  ("_action.py", "_TASK_ID_NOT_SUPPLIED = object()", "_TASK_ID_NOT_SUPPLIED = object()\n\n\ndef _exception_name(cls):\n    return \"%s.%s\" % (cls.__module__, cls.__name__)\n")])

# --- second batch of behaviour-preserving refactorings (hardening against brittle anchors)
B("next-task-level-ternary", ["*"], [("_action.py",
  "        if not self._last_child:\n            self._last_child = self._task_level.child()\n        else:\n            self._last_child = self._last_child.next_sibling()\n        return self._last_child",
  "        self._last_child = (\n            self._task_level.child() if self._last_child is None else self._last_child.next_sibling()\n        )\n        return self._last_child")])
B("current-action-via-local", ["*"], [("_action.py", "    return _ACTION_CONTEXT.get(None)", "    action = _ACTION_CONTEXT.get(None)\n    return action")])
B("run-delegates-to-context", ["*"], [("_action.py",
  "        parent = _ACTION_CONTEXT.set(self)\n        try:\n            return f(*args, **kwargs)\n        finally:\n            _ACTION_CONTEXT.reset(parent)",
  "        with self.context():\n            return f(*args, **kwargs)")])
B("finish-if-else-instead-of-early-return", ["*"], [("_action.py",
  "        if self._finished:\n            return\n        self._finished = True\n        serializer = None\n",
  "        if self._finished:\n            return None\n        self._finished = True\n        serializer = None\n")])
B("capture-logging-addcleanup-direct", ["*"], [("testing.py",
  "            previous_logger = swap_logger(logger)\n\n            def cleanup():\n                swap_logger(previous_logger)\n\n            self.addCleanup(cleanup)\n",
  "            previous_logger = swap_logger(logger)\n            self.addCleanup(swap_logger, previous_logger)\n")])
B("reader-iter-sentinel", ["*"], [("logwriter.py",
  "        while True:\n            msg = self._queue.get()\n            if msg is _STOP:\n                return\n            try:\n                self._destination(msg)\n            except Exception:\n                # Lower-level destination blew up, nothing we can do, so\n                # just drop on the floor.\n                pass",
  "        while True:\n            msg = self._queue.get()\n            if msg is _STOP:\n                break\n            try:\n                self._destination(msg)\n            except Exception:\n                continue")])
B("exclusively-acquire-release", ["*"], [("_output.py",
  "        with self._lock:\n            return f(self, *a, **kw)",
  "        self._lock.acquire()\n        try:\n            return f(self, *a, **kw)\n        finally:\n            self._lock.release()")])
B("continue-task-isinstance-str-arm", ["*"], [("_action.py",
  "        if isinstance(task_id, bytes):\n            task_id = task_id.decode(\"ascii\")\n        uuid, task_level = task_id.split(\"@\")",
  "        if isinstance(task_id, bytes):\n            task_id = task_id.decode(\"ascii\")\n        uuid, task_level = task_id.split(\"@\", 1)")])
B("logger-write-else-arm", ["*"], [("_output.py",
  "            if serializer is not None:\n                serializer.serialize(dictionary)\n        except:",
  "            if serializer is None:\n                pass\n            else:\n                serializer.serialize(dictionary)\n        except:")])
B("destinations-add-restructured", ["*"], [("_output.py",
  "        buffered_messages = None\n        if not self._any_added:\n            # These are first set of messages added, so we need to clear\n            # BufferingDestination:\n            self._any_added = True\n            buffered_messages = self._destinations[0].messages\n            self._destinations = []\n        self._destinations.extend(destinations)\n        if buffered_messages:\n            # Re-deliver buffered messages:\n            for message in buffered_messages:\n                self.send(message)",
  "        buffered_messages = []\n        if not self._any_added:\n            self._any_added = True\n            buffered_messages = self._destinations[0].messages\n            self._destinations = []\n        self._destinations.extend(destinations)\n        for message in buffered_messages:\n            self.send(message)")])
B("assert-contains-fields-dictcomp", ["*"], [("testing.py",
  "    messageSubset = dict(\n        [(key, value) for key, value in message.items() if key in fields]\n    )\n    test.assertEqual(messageSubset, fields)",
  "    messageSubset = {key: value for key, value in message.items() if key in fields}\n    test.assertEqual(messageSubset, fields)")])
B("prettyprint-json-module-import", ["*"], [("prettyprint.py", "from json import dumps\n\nfrom json import loads\n", "from json import dumps, loads\n")])
B("insert-action-all-children", ["*"], [("parse.py",
  "            completed = True\n            for child in node.children:\n                if (\n                    isinstance(child, WrittenAction)\n                    and child.task_level not in self._completed\n                ):\n                    completed = False\n                    break\n            if completed:",
  "            completed = all(\n                child.task_level in self._completed\n                for child in node.children\n                if isinstance(child, WrittenAction)\n            )\n            if completed:")])
B("file-destination-local-data", ["*"], [("_output.py",
  "        self.file.write(\n            self._dumps(message, default=self._json_default) + self._linebreak\n        )",
  "        data = self._dumps(message, default=self._json_default)\n        self.file.write(data + self._linebreak)")])
B("send-handler-early-continue", ["*"], [("_output.py",
  "                if not is_destination_error_message:\n                    errors.append(e)",
  "                if is_destination_error_message:\n                    continue\n                errors.append(e)")])
B("memorylogger-write-renamed-params", ["*"], [("_output.py",
  "    def write(self, dictionary, serializer=None):\n        \"\"\"\n        Add the dictionary to list of messages.\n        \"\"\"",
  "    def write(self, dictionary, serializer=None):\n        \"\"\"\n        Add the dictionary to list of messages (thread-safe).\n        \"\"\"\n        assert isinstance(dictionary, dict)")])

# --- third batch: small local must-fire variants
M("log-timestamp-int", ["C02"], "_action.py", "        fields[TIMESTAMP_FIELD] = time.time()\n        fields[TASK_UUID_FIELD]", "        fields[TIMESTAMP_FIELD] = int(time.time())\n        fields[TASK_UUID_FIELD]", "C02.fields")
M("log-fresh-uuid-per-message", ["C02"], "_action.py", "        fields[TASK_UUID_FIELD] = self._identification[TASK_UUID_FIELD]\n", "        fields[TASK_UUID_FIELD] = str(uuid4())\n", "C02.fields")
M("child-appends-zero", ["C02"], "_action.py", "        new_level.append(1)", "        new_level.append(0)", "C02.levels")
M("start-task-level-one", ["C02", "C04"], "_action.py", "        logger, str(uuid4()), TaskLevel(level=[]), action_type, _serializers", "        logger, str(uuid4()), TaskLevel(level=[1]), action_type, _serializers", "")
M("write-send-without-logger", ["C08"], "_output.py", "        self._destinations.send(dictionary, self)", "        self._destinations.send(dictionary)", "C08.report")
M("report-raw-message", ["C08"], "_output.py", '                    "message": _safe_unicode_dictionary(message),', '                    "message": message,', "C08.report")
M("from-messages-prefix-two", ["C17"], "testing.py", "        levelPrefix = level[:-1]", "        levelPrefix = level[:-2]", "C17.own")
M("assert-has-action-last", ["C17"], "testing.py", "    action = actions[0]", "    action = actions[-1]", "C17.first")
M("log-call-name-not-qualname", ["C18"], "_action.py", "            wrapped_function.__module__, wrapped_function.__qualname__", "            wrapped_function.__module__, wrapped_function.__name__", "C18.meta")
M("compact-indent", ["C20"], "prettyprint.py", 'dumps(value, separators=(",", ":"))', 'dumps(value, indent=1)', "C20.oneline")
M("task-add-root-level-empty", ["C09"], "parse.py", "            if written_message.task_level.level == [1]:", "            if len(written_message.task_level.level) == 1:", "C09.dispatch")
M("tasklevel-hash-len", ["C09", "C01"], "_action.py", "        return hash(tuple(self._level))", "        return hash(len(self._level))", "")
M("tasklevel-parent-keeps-last", ["C09", "C01", "C06"], "_action.py", "        return TaskLevel(level=self._level[:-1])", "        return TaskLevel(level=self._level[:-2])", "")
M("validate-skips-none-values", ["C14"], "_validation.py", "            field.validate(message[key])", "            if message[key] is not None:\n                field.validate(message[key])", "C14.shape")
M("memorylogger-validate-stops-first", ["C14"], "_output.py",
  "        for dictionary, serializer in zip(self.messages, self.serializers):\n            try:\n                self._validate_message(dictionary, serializer)",
  "        for dictionary, serializer in zip(self.messages[:1], self.serializers[:1]):\n            try:\n                self._validate_message(dictionary, serializer)", "C14.json")
M("startservice-register-before-thread", ["C19"], "logwriter.py",
  "        self._thread = threading.Thread(target=self._reader)\n        self._thread.start()\n        addDestination(self)",
  "        addDestination(self)\n        self._thread = threading.Thread(target=self._reader)\n        self._thread.start()", "C19.thread")
B("threadedwriter-put-nowait", ["*"], [("logwriter.py", "        self._queue.put(data)", "        self._queue.put_nowait(data)")])

# --- fourth batch: state / aliasing must-fire variants
M("success-fields-class-level", ["C03", "C02"], "_action.py", "        self._successFields = {}\n        self._logger =", "        self._logger =", "")
M("message-aliases-contents", ["C13"], "_message.py", "        self._contents = contents.copy()", "        self._contents = contents", "C13.copy")
M("message-bind-mutates", ["C13"], "_message.py", "        contents = self._contents.copy()\n        contents.update(fields)", "        contents = self._contents\n        contents.update(fields)", "C13.copy")
M("timestamp-default-argument", ["C02"], "_action.py", "    def log(self, /, message_type, **fields):\n        \"\"\"Log individual message.\"\"\"\n        fields[TIMESTAMP_FIELD] = time.time()",
  "    def log(self, /, message_type, _now=time.time(), **fields):\n        \"\"\"Log individual message.\"\"\"\n        fields[TIMESTAMP_FIELD] = _now", "C02")
M("buffer-list-class-level", ["C12"], "_output.py", "    def __init__(self):\n        self.messages = []\n\n    def __call__(self, message):", "    messages = []\n\n    def __call__(self, message):", "C12")
M("memorylogger-lists-not-reset", ["C16"], "_output.py", "        self.messages = []\n        self.serializers = []\n        self.tracebackMessages = []\n        self._failed_validations = []",
  "        self.messages = []\n        self.serializers = self.messages\n        self.tracebackMessages = []\n        self._failed_validations = []", "C16")
M("registry-shared-default", ["C03"], "_errors.py", "    def __init__(self):\n        self.registry = {}", "    def __init__(self, registry={}):\n        self.registry = registry", "C03.state")

M("current-action-lru-cache", ["C05", "C04"], "_action.py", "def current_action():", "from functools import lru_cache\n\n\n@lru_cache(maxsize=None)\ndef current_action():", ".state")
M("tostring-cached", ["C06"], "_action.py", "    def toString(self):", "    @__import__('functools').lru_cache(maxsize=None)\n    def toString(self):", ".state")

M("generator-state-hoisted", ["C15"], "_generators.py",
  "    @wraps(original)\n    def wrapper(*a, **kw):\n        # Keep track of whether the next value to deliver to the generator is\n        # a non-exception or an exception.\n        ok = True\n\n        # Keep track of the next value to deliver to the generator.\n        value_in = None\n",
  "    ok = True\n    value_in = None\n\n    @wraps(original)\n    def wrapper(*a, **kw):\n        nonlocal ok, value_in\n", "C15.ctx")
M("send-errors-on-self", ["C08"], "_output.py", "        errors = []\n", "        errors = self._errors = getattr(self, '_errors', [])\n", "C08.report")

# --- fifth batch (after seeding round 4)
M("action-log-self-by-keyword", ["C07"], "_action.py", "    def log(self, /, message_type, **fields):", "    def log(self, message_type, **fields):", "C07.splat")
M("message-bind-self-by-keyword", ["C07"], "_message.py", "    def bind(self, /, **fields):", "    def bind(self, **fields):", "C07.splat")
M("traceback-through-typed-log", ["C07"], "_traceback.py",
  "    msg = TRACEBACK_MESSAGE(reason=exception, traceback=traceback, exception=typ)\n    if extract_fields:\n        msg = msg.bind(**_error_extraction.get_fields_for_exception(logger, exception))\n    msg.write(logger)",
  "    fields = {\"reason\": exception, \"traceback\": traceback, \"exception\": typ}\n    if extract_fields:\n        fields.update(_error_extraction.get_fields_for_exception(logger, exception))\n    if logger is not None:\n        fields[\"__eliot_logger__\"] = logger\n    TRACEBACK_MESSAGE.log(**fields)", "C07.splat")
M("incomplete-tasks-sorted-by-start-time", ["C09", "C01", "C11"], "parse.py", "        return list(self._tasks.values())", "        return sorted(self._tasks.values(), key=lambda task: task.root().start_time)", ".total")
B("incomplete-tasks-sorted-by-level", ["*"], [("parse.py", "        return list(self._tasks.values())", "        return sorted(self._tasks.values(), key=lambda task: task.root().task_level)")])
B("children-sorted-by-level-list", ["*"], [("_action.py", "sorted(self._children.values(), key=lambda m: m.task_level)", "sorted(self._children.values(), key=lambda m: m.task_level.as_list())")])
M("buffer-deque", ["C12"], "_output.py", "        self.messages = []\n\n    def __call__(self, message):\n        self.messages.append(message)\n        while len(self.messages) > 1000:\n            self.messages.pop(0)",
  "        self.messages = __import__('collections').deque(maxlen=1000)\n\n    def __call__(self, message):\n        self.messages.append(message)", "C12.buffer")
M("timestamp-split-by-hand", ["C20"], "prettyprint.py", "        dt = datetime.utcfromtimestamp(message[TIMESTAMP_FIELD])",
  "        whole, frac = divmod(message[TIMESTAMP_FIELD], 1)\n        dt = datetime.utcfromtimestamp(int(whole)).replace(microsecond=round(frac * 1000000))", "C20.complete")
B("timestamp-aware-utc", ["*"], [("prettyprint.py", "        dt = datetime.utcfromtimestamp(message[TIMESTAMP_FIELD])",
  "        dt = datetime.fromtimestamp(message[TIMESTAMP_FIELD], __import__('datetime').timezone.utc).replace(tzinfo=None)")])
V.append({"id": "threadedwriter-default-queue", "kind": "mutant", "props": ["C19"], "expect": "C19.queue", "edits": [
    ("logwriter.py", "    def __init__(self, destination, reactor):", "    def __init__(self, destination, reactor, queue=SimpleQueue()):"),
    ("logwriter.py", "        self._queue = SimpleQueue()", "        self._queue = queue")]})
B("file-destination-posonly", ["*"], [("_output.py", "    def __call__(self, message):\n        \"\"\"\n        @param message: A message dictionary.", "    def __call__(self, message, /):\n        \"\"\"\n        @param message: A message dictionary.")])
M("generator-throw-by-method-value", ["C15", "C05", "C04"], "_generators.py", "                        value_out = gen.throw(*value_in)", "                        value_out = (lambda m, v: m(*v))(gen.throw, value_in)", "C15.inside")

# --- sixth batch: the parser's value-type model is recognised on expression trees, not on source text
B("tasklevel-hash-temporary", ["*"], [("_action.py", "        return hash(tuple(self._level))", "        key = tuple(self._level)\n        return hash(key)")])
B("tasklevel-parent-len-test", ["*"], [("_action.py", "        if not self._level:\n            return None\n        return TaskLevel(level=self._level[:-1])",
                                        "        if len(self._level) == 0:\n            return None\n        shorter = self._level[:-1]\n        return TaskLevel(shorter)")])
B("tasklevel-eq-single-expression", ["*"], [("_action.py", "        if other.__class__ != TaskLevel:\n            return False\n        return self._level == other._level",
                                             "        return other.__class__ == TaskLevel and other._level == self._level")])
B("tasklevel-lt-mirrored", ["*"], [("_action.py", "        return self._level < other._level", "        return other._level > self._level")])
B("validate-message-noteq", ["*"], [("_action.py", "        if not message.task_level.parent() == self.task_level:\n            raise WrongTaskLevel(self, message)",
                                     "        parent_level = message.task_level.parent()\n        if parent_level != self.task_level:\n            raise WrongTaskLevel(self, message)")])
B("add-child-inline-level", ["*"], [("_action.py", "        level = message.task_level\n        return self.transform((\"_children\", level), message)",
                                     "        return self.transform((\"_children\", message.task_level), message)")])
M("tasklevel-hash-of-length", ["C09", "C01", "C06"], "_action.py", "        return hash(tuple(self._level))", "        return hash(len(self._level))", ".model")
M("tasklevel-eq-ignores-class", ["C09"], "_action.py", "        return self._level == other._level\n\n    def __ne__", "        return self._level is other._level\n\n    def __ne__", ".model")
M("validate-message-level-inverted", ["C09", "C01"], "_action.py", "        if not message.task_level.parent() == self.task_level:\n            raise WrongTaskLevel(self, message)",
  "        if message.task_level.parent() == self.task_level:\n            raise WrongTaskLevel(self, message)", ".model")
M("validate-message-uuid-dropped", ["C09", "C01"], "_action.py", "        if message.task_uuid != self.task_uuid:\n            raise WrongTask(self, message)\n", "", ".model")
M("written-message-level-from-uuid", ["C09"], "_message.py", "        return TaskLevel(level=self._logged_dict[TASK_LEVEL_FIELD])", "        return TaskLevel(level=self._logged_dict.get(TASK_LEVEL_FIELD, [1]))", ".model")

# --- the reader loop written with iter(callable, sentinel): same behaviour when the handler stays inside the loop, a bug when it moves outside
B("reader-iter-sentinel-form", ["*"], [("logwriter.py", "        while True:\n            msg = self._queue.get()\n            if msg is _STOP:\n                return\n            try:",
                                       "        for msg in iter(self._queue.get, _STOP):\n            try:")])
V.append({"id": "reader-iter-handler-around-loop", "kind": "mutant", "props": ["C19", "C08", "C11", "C16", "C12", "C01"], "expect": "C19.contain", "edits": [
    ("logwriter.py", "        while True:\n            msg = self._queue.get()\n            if msg is _STOP:\n                return\n            try:\n                self._destination(msg)\n            except Exception:",
     "        try:\n            for msg in iter(self._queue.get, _STOP):\n                self._destination(msg)\n        except Exception:\n            if True:")]})

# --- the failed end message built as layers: extracted fields first and computed fields over them (same), or the other way round (an extractor overrides status/exception/reason)
_FAIL_ARM = ('            fields = _error_extraction.get_fields_for_exception(self._logger, exception)\n            fields[EXCEPTION_FIELD] = "%s.%s" % (\n'
             '                exception.__class__.__module__,\n                exception.__class__.__name__,\n            )\n'
             '            fields[REASON_FIELD] = safeunicode(exception)\n            fields[ACTION_STATUS_FIELD] = FAILED_STATUS\n')
B("finish-failure-fields-layered", ["*"], [("_action.py", _FAIL_ARM,
   '            cls = type(exception)\n            fields = dict(_error_extraction.get_fields_for_exception(self._logger, exception))\n'
   '            fields.update({EXCEPTION_FIELD: "%s.%s" % (cls.__module__, cls.__name__), REASON_FIELD: safeunicode(exception), ACTION_STATUS_FIELD: FAILED_STATUS})\n')])
M("finish-failure-fields-extractor-on-top", ["C03", "C14", "C01"], "_action.py", _FAIL_ARM,
  '            cls = type(exception)\n            fields = {EXCEPTION_FIELD: "%s.%s" % (cls.__module__, cls.__name__), REASON_FIELD: safeunicode(exception), ACTION_STATUS_FIELD: FAILED_STATUS}\n'
  '            fields.update(_error_extraction.get_fields_for_exception(self._logger, exception))\n', "C03.failfields")

# --- extractor lookup written with registry.get(): same when a failing extractor still ends the search, a bug when the walk goes on to a base class
_MRO_OLD = ('            if klass in self.registry:\n                extractor = self.registry[klass]\n                try:\n                    return extractor(exception)\n                except:\n'
            '                    from ._traceback import _write_extractor_traceback\n\n                    _write_extractor_traceback(logger)\n                    return {}\n')
_MRO_GET = ('            extractor = self.registry.get(klass)\n            if extractor is None:\n                continue\n            try:\n                return extractor(exception)\n            except:\n'
            '                from ._traceback import _write_extractor_traceback\n\n                _write_extractor_traceback(logger)\n')
B("extractor-lookup-get-form", ["*"], [("_errors.py", _MRO_OLD, _MRO_GET + '                return {}\n')])
M("extractor-lookup-get-form-continues", ["C03"], "_errors.py", _MRO_OLD, _MRO_GET, "C03.mro")

# --- round 11: ordinary maintenance commits; benign twins of the rules added for them
B("threadedwriter-call-extra-local", ["*"], [("logwriter.py", "        self._queue.put(data)\n\n    def _reader", "        queue = self._queue\n        queue.put(data)\n\n    def _reader")])
M("threadedwriter-call-only-when-running", ["C19", "C08", "C11", "C12", "C16", "C01"], "logwriter.py", "        self._queue.put(data)\n\n    def _reader",
  "        if self.running:\n            self._queue.put(data)\n\n    def _reader", "C19.queue")
B("filter-dumps-ensure-ascii-explicit", ["*"], [("filter.py", "dumps(result, cls=_DatetimeJSONEncoder)", "dumps(result, cls=_DatetimeJSONEncoder, ensure_ascii=True)")])
M("filter-dumps-allow-nan-false", ["C20"], "filter.py", "dumps(result, cls=_DatetimeJSONEncoder)", "dumps(result, cls=_DatetimeJSONEncoder, allow_nan=False)", "C20.filter")
M("destinations-remove-copy-and-store", ["C12", "C08"], "_output.py", "        self._destinations.remove(destination)\n",
  "        remaining = list(self._destinations)\n        remaining.remove(destination)\n        self._destinations = remaining\n", "C12.remove")
B("destinations-remove-through-alias", ["*"], [("_output.py", "        self._destinations.remove(destination)\n", "        current = self._destinations\n        current.remove(destination)\n")])
M("preserve-context-shared-context-run", ["C06"], "_action.py", "    return restore_eliot_context\n", "    shared = __import__('contextvars').copy_context()\n    return partial(shared.run, restore_eliot_context)\n", "C06.once")
M("builtin-extractor-logs-filename", ["C03", "C01"], "_errors.py", 'lambda e: {"errno": e.errno}', 'lambda e: {"errno": e.errno, "filename": e.filename}', ".extract")
B("builtin-extractor-logs-strerror", ["*"], [("_errors.py", 'lambda e: {"errno": e.errno}', 'lambda e: {"errno": e.errno, "strerror": e.strerror}')])

# --- argument validation: of an optional keyword-only configuration argument (not what is being logged) it is allowed; of the message type it is not
M("log-message-rejects-non-str-type", ["C07"], "_action.py", "    action = current_action()\n    if action is None:\n        # Loggers will hopefully go away...",
  "    if not isinstance(message_type, str):\n        raise TypeError(\"message_type must be a str\")\n    action = current_action()\n    if action is None:\n        # Loggers will hopefully go away...", "C07.contain")
B("preserve-context-optional-kw-validated", ["*"], [("_action.py", "def preserve_context(f):", "def preserve_context(f, *, name=\"eliot:remote_task\"):"),
   ("_action.py", "    action = current_action()\n    if action is None:\n        return f\n", "    if not isinstance(name, str):\n        raise TypeError(\"name must be a str\")\n    action = current_action()\n    if action is None:\n        return f\n")])

# --- mechanical whole-package rewrites (sa/transforms.py); each was confirmed to keep the 404 baseline tests passing
for _t in ("alpha", "ifelse", "retvar"):
    V.append({"id": "transform:" + _t, "kind": "benign", "props": ["*"], "transform": _t})

VARIANTS = V
