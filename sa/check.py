"""CLI: ./bin/check <ID|all> <quick|thorough> [--root DIR]   (see DESIGN.md section 5)."""

import importlib
import json
import os
import sys
import time
import traceback

from .index import AnalysisError
from .framework import Ctx, Check, finish, VERIF

ALL_IDS = ["C%02d" % i for i in range(1, 21)]


def run_property(pid, tier, root, seed, selftest=True, out_dir=None, evidence_dir=None, quiet=False):
    t0 = time.time()
    try:
        mod = importlib.import_module("sa.props.%s" % pid.lower())
    except ImportError as e:
        print("ANALYSIS-ERROR property=%s no checker module: %s" % (pid, e))
        return 2
    try:
        ctx = Ctx(root)
        chk = Check(ctx, pid, tier)
        records = None
        if tier == "thorough":
            from .cfg import CFG
            records = CFG.RECORD = []
        try:
            mod.run(chk)
            from .props import common as _common
            _common.rule_no_memo(chk)
            _common.rule_stateless(chk)
            from .props import integration
            integration.run(chk)   # the property's mechanisms as used by eliot/twisted.py, dask.py, stdlib.py
        except AnalysisError as e:
            # a positively identified violation stands even if a later rule lost its anchor
            if not any(o.status == "VIOLATED" for o in chk.obs):
                raise
            chk.notes.append("analysis incomplete after the reported violation(s): %s" % e)
            print("NOTE property=%s analysis incomplete: %s" % (pid, e))
        for a in getattr(mod, "ASSUMPTIONS", []):
            chk.assume(a)
        extra = {}
        if tier == "thorough":
            extra["exhaustive"] = True
            from . import thorough
            from .cfg import CFG
            CFG.RECORD = None
            extra.update(thorough.cross_check_queries(records or []))
            extra.update(thorough.run(chk, mod, seed, selftest=selftest))
        return finish(chk, t0, seed, mod.EXPLANATION, mod.RULE, extra, out_dir, evidence_dir)
    except AnalysisError as e:
        print("ANALYSIS-ERROR property=%s %s" % (pid, e))
        return 2
    except Exception as e:  # internal error: never reported as a violation
        print("ANALYSIS-ERROR property=%s internal error: %r" % (pid, e))
        traceback.print_exc()
        return 2


def main(argv=None):
    argv = list(sys.argv[1:] if argv is None else argv)
    root = "/repo"
    selftest = True
    out_dir = evidence_dir = None
    if "--root" in argv:
        i = argv.index("--root")
        root = argv[i + 1]
        del argv[i:i + 2]
    if "--out" in argv:
        i = argv.index("--out")
        out_dir = evidence_dir = argv[i + 1]
        del argv[i:i + 2]
    if "--no-selftest" in argv:
        argv.remove("--no-selftest")
        selftest = False
    seed = int(os.environ.get("VERIF_SEED", "0") or 0)
    if argv and argv[0] == "--self-sanity":
        from . import sanity
        return sanity.main()
    if argv and argv[0] == "--selftest":
        from . import selftest as st
        return st.main(argv[1:], seed)
    if argv and argv[0] == "--explain":
        data = json.load(open(argv[1]))
        print(json.dumps(data, indent=1))
        return run_property(data["property"], data.get("tier", "quick"), root, seed, selftest=False)
    if len(argv) < 1:
        print(__doc__)
        return 2
    pid = argv[0]
    tier = argv[1] if len(argv) > 1 else os.environ.get("VERIF_TIER", "quick")
    if pid == "all":
        rc = 0
        for p in ALL_IDS:
            rc = max(rc, run_property(p, tier, root, seed, selftest, out_dir, evidence_dir))
        return rc
    return run_property(pid, tier, root, seed, selftest, out_dir, evidence_dir)


if __name__ == "__main__":
    sys.exit(main())
