"""Checker self-test: the checkers are run on scratch copies of the *committed* tree
(git HEAD of /repo, so edits in the working tree do not disturb it) with one
change applied each:

* must-fire variants: hand-written mutants (sa/selftest_variants.py) and the
  confirmed seeded patches under /verif/seeded/<id>/patch.diff -- the property's
  check must exit 1 and (for hand-written ones) name the expected rule;
* must-stay-silent variants: behaviour-preserving refactorings (hand-written ones and the
  confirmed refactoring patches under /verif/benign/<id>/patch.diff, written by independent
  sub-agents) -- every check must exit 0.

Scratch copies live under /dev/shm (or $TMPDIR), never under /repo or /verif,
and are removed as soon as the verdict is recorded."""

import contextlib
import glob
import io
import json
import os
import shutil
import subprocess
import sys
import tempfile
import time
from multiprocessing import Pool

VERIF = os.path.dirname(os.path.dirname(os.path.abspath(__file__)))
REPO = "/repo"


def scratch_base():
    for d in ("/dev/shm", os.environ.get("TMPDIR", ""), "/tmp"):
        if d and os.path.isdir(d) and os.access(d, os.W_OK):
            return d
    return tempfile.gettempdir()


def export_head(dst):
    """Copy the committed eliot/*.py of /repo's HEAD into dst/eliot."""
    os.makedirs(os.path.join(dst, "eliot"), exist_ok=True)
    try:
        out = subprocess.run(["git", "-C", REPO, "archive", "HEAD", "eliot"], capture_output=True, check=True).stdout
        subprocess.run(["tar", "-x", "-C", dst, "--exclude=eliot/tests"], input=out, check=True)
    except Exception:
        # no git metadata available: fall back to the working tree
        for fn in os.listdir(os.path.join(REPO, "eliot")):
            if fn.endswith(".py"):
                shutil.copy(os.path.join(REPO, "eliot", fn), os.path.join(dst, "eliot", fn))


def load_variants():
    from . import selftest_variants as sv
    variants = list(sv.VARIANTS)
    for meta_path in sorted(glob.glob(os.path.join(VERIF, "seeded", "*", "meta.json"))):
        try:
            meta = json.load(open(meta_path))
        except Exception:
            continue
        d = os.path.dirname(meta_path)
        # the property's own check must report the seed; that other properties' checks report it too (meta "detected_by",
        # refreshed by tools_refresh_meta.sh) is recorded for information only and never a self-test failure
        variants.append({"id": "seed:" + os.path.basename(d), "kind": "mutant", "props": [meta["property"]],
                         "patch": os.path.join(d, "patch.diff"), "expect": ""})
    for meta_path in sorted(glob.glob(os.path.join(VERIF, "benign", "*", "meta.json"))):
        d = os.path.dirname(meta_path)
        try:
            bmeta = json.load(open(meta_path))
        except Exception:
            bmeta = {}
        # a refactoring outside the canonical form may leave a check unable to decide (exit 2, no VIOLATION line); the cases
        # known today are recorded in the patch's meta.json -- a VIOLATION (exit 1) on a benign patch is always a failure
        variants.append({"id": "benign:" + os.path.basename(d), "kind": "benign", "props": ["*"], "patch": os.path.join(d, "patch.diff"),
                         "may_not_evaluate": bmeta.get("analysis_errors_now", [])})
    return variants


def _apply(variant, root):
    if "transform" in variant:
        from . import transforms
        transforms.apply_to_package(root, variant["transform"])
        return True, ""
    if "patch" in variant:
        # only the package is exported: drop the sections of the patch that touch documentation or tests
        text = open(variant["patch"], encoding="utf-8").read()
        parts = text.split("diff --git ")
        kept = [parts[0]] + ["diff --git " + sec for sec in parts[1:] if sec.startswith("a/eliot/") and not sec.startswith("a/eliot/tests/")]
        r = subprocess.run(["patch", "-p1", "-s", "-d", root], input="".join(kept).encode("utf-8"), capture_output=True)
        return r.returncode == 0, (r.stdout + r.stderr).decode()[:200]
    for fn, old, new in variant["edits"]:
        path = os.path.join(root, "eliot", fn)
        src = open(path, encoding="utf-8").read()
        if old not in src:
            return False, "fragment not found in %s" % fn
        src = src.replace(old, new, 1)
        open(path, "w", encoding="utf-8").write(src)
    if variant.get("black"):
        subprocess.run(["/venv/bin/python", "-m", "black", "-q", os.path.join(root, "eliot")], capture_output=True)
    return True, ""


def run_variant(args):
    variant, props = args
    from .check import run_property
    base = tempfile.mkdtemp(prefix="sa-selftest-", dir=scratch_base())
    res = {"id": variant["id"], "kind": variant["kind"], "results": {}, "skipped": None}
    try:
        export_head(base)
        ok, why = _apply(variant, base)
        if not ok:
            res["skipped"] = why
            return res
        for fn in os.listdir(os.path.join(base, "eliot")):
            if fn.endswith(".py"):
                try:
                    compile(open(os.path.join(base, "eliot", fn), encoding="utf-8").read(), fn, "exec")
                except SyntaxError as e:
                    res["skipped"] = "variant does not compile: %s" % e
                    return res
        for pid in props:
            buf = io.StringIO()
            with contextlib.redirect_stdout(buf), contextlib.redirect_stderr(buf):
                rc = run_property(pid, "quick", base, 0, selftest=False, out_dir=os.path.join(base, "out"), evidence_dir=os.path.join(base, "ev"))
            res["results"][pid] = (rc, buf.getvalue())
    finally:
        shutil.rmtree(base, ignore_errors=True)
    return res


def judge(variant, res):
    """-> list of failure strings"""
    fails = []
    if res["skipped"]:
        return fails
    for pid, (rc, out) in res["results"].items():
        if variant["kind"] == "mutant":
            if rc != 1:
                fails.append("%s: mutant not reported by %s (rc=%d): %s" % (variant["id"], pid, rc, out.strip().splitlines()[-1:] if out.strip() else ""))
            elif variant.get("expect") and variant["expect"] not in out:
                fails.append("%s: %s fired but did not name rule %s" % (variant["id"], pid, variant["expect"]))
        else:
            if rc == 2 and pid in variant.get("may_not_evaluate", []):
                continue
            if rc != 0:
                lines = [l for l in out.splitlines() if l.startswith("  ") or l.startswith("ANALYSIS")]
                fails.append("%s: benign refactoring raised an alarm in %s (rc=%d): %s" % (variant["id"], pid, rc, lines[:2]))
    return fails


def run_for_property(pid, seed, jobs=16):
    variants = load_variants()
    sel = []
    for v in variants:
        if v["kind"] == "mutant" and pid in v["props"]:
            sel.append((v, [pid]))
        elif v["kind"] == "benign" and (pid in v["props"] or "*" in v["props"]):
            sel.append((v, [pid]))
    return _run(sel, jobs)


def _run(sel, jobs=16):
    t0 = time.time()
    failed, skipped = [], []
    n_m = n_b = 0
    if sel:
        with Pool(min(jobs, len(sel))) as pool:
            results = pool.map(run_variant, sel, chunksize=1)
        for (v, props), res in zip(sel, results):
            if res["skipped"]:
                skipped.append("%s: %s" % (v["id"], res["skipped"]))
                continue
            if v["kind"] == "mutant":
                n_m += 1
            else:
                n_b += 1
            failed += judge(v, res)
    return {"mutants": n_m, "benign": n_b, "skipped": skipped, "failed": failed, "wall_s": round(time.time() - t0, 1)}


def main(argv, seed):
    from .check import ALL_IDS
    variants = load_variants()
    only = None
    if "--only" in argv:
        i = argv.index("--only")
        only = argv[i + 1]
        del argv[i:i + 2]
    ids = [a for a in argv if a.startswith("C")] or ALL_IDS
    sel = []
    for v in variants:
        if only is not None and only not in v["id"]:
            continue
        if v["kind"] == "mutant":
            props = [p for p in v["props"] if p in ids]
        else:
            props = ids if "*" in v["props"] else [p for p in v["props"] if p in ids]
        if props:
            sel.append((v, props))
    res = _run(sel)
    print("selftest: %d must-fire variants, %d must-stay-silent variants, %d skipped, %d FAILED (%.1fs)" % (
        res["mutants"], res["benign"], len(res["skipped"]), len(res["failed"]), res["wall_s"]))
    for s in res["skipped"]:
        print("  skipped:", s)
    for f in res["failed"]:
        print("  FAILED:", f)
    return 1 if res["failed"] else 0
