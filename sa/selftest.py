"""Checker self-test (placeholder until the mutant matrix is filled in)."""


def run_for_property(pid, seed):
    return {"mutants": 0, "benign": 0, "failed": []}


def main(argv, seed):
    print("selftest: matrix not built yet")
    return 0
