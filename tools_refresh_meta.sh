#!/bin/sh
# Recomputes detected_by / analysis_error_in of every /verif/seeded/*/meta.json against the current checks.
cd /verif
(for d in seeded/*/; do n=$(basename $d); echo "$n /verif/seeded/$n/patch.diff"; done) | xargs -P 8 -L 1 /verif/tools_detect_matrix.sh > /tmp/detect_refresh.txt 2>&1
/venv/bin/python - <<'PY'
import json, re
bad = 0
for line in open('/tmp/detect_refresh.txt'):
    m = re.match(r"DETECT (\S+)(.*)\| ERR(.*)", line)
    if not m:
        print("??", line.strip()); continue
    name, det, err = m.group(1), m.group(2).split(), m.group(3).split()
    p = '/verif/seeded/%s/meta.json' % name
    meta = json.load(open(p))
    if meta['property'] not in det:
        print("OWN PROPERTY MISSES", name, det, err); bad += 1
    if err:
        print("ERR", name, err)
    meta['detected_by'] = det; meta['analysis_error_in'] = err
    json.dump(meta, open(p, 'w'), indent=1)
print("refreshed; own-property misses:", bad)
PY
