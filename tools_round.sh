#!/bin/sh
# usage: tools_round.sh <outdir e.g. /tmp/wtout2> <tag e.g. r2>   -- confirm, detect and store every <outdir>/Cnn/{a,b}
OUT=$1; TAG=$2; shift; shift
ONLY="$@"   # optional: property ids to process (default: all)
sel() { if [ -z "$ONLY" ]; then ls -d $OUT/C*/; else for p in $ONLY; do echo $OUT/$p/; done; fi; }
[ -z "$ONLY" ] && { : > /tmp/confirm_results_$TAG.txt; : > /tmp/detect_matrix_$TAG.txt; }
cd /tmp
(for d in $(sel); do p=$(basename $d); for x in a b; do [ -f $d/$x/patch.diff ] && [ -f $d/$x/demo.py ] && echo "$p-$TAG$x $d/$x/patch.diff $d/$x/demo.py"; done; done) | xargs -P 8 -L 1 /verif/tools_confirm_seed.sh >> /tmp/confirm_results_$TAG.txt 2>&1
(for d in $(sel); do p=$(basename $d); for x in a b; do [ -f $d/$x/patch.diff ] && echo "$p-$TAG$x $d/$x/patch.diff"; done; done) | xargs -P 6 -L 1 /verif/tools_detect_matrix.sh >> /tmp/detect_matrix_$TAG.txt 2>&1
/venv/bin/python - $OUT $TAG <<'PY'
import json, os, re, shutil, sys
OUT, TAG = sys.argv[1], sys.argv[2]
res, det = {}, {}
for line in open("/tmp/confirm_results_%s.txt" % TAG):
    m = re.match(r"RESULT (\S+) demo_pristine_rc=(\d+) demo_patched_rc=(\d+) stable_missing=(\d+)", line)
    if m: res[m.group(1)] = tuple(int(x) for x in m.groups()[1:])
for line in open("/tmp/detect_matrix_%s.txt" % TAG):
    m = re.match(r"DETECT (\S+)(.*)\| ERR(.*)", line)
    if m: det[m.group(1)] = (m.group(2).split(), m.group(3).split())
for name, (rc0, rc1, missing) in sorted(res.items()):
    prop = name[:3]; x = name[-1]
    ok = rc0 == 0 and rc1 != 0 and missing == 0
    d, e = det.get(name, ([], []))
    print("%-10s confirmed=%s detected_by=%s err=%s%s" % (name, ok, d, e, "" if prop in d else "   <-- OWN PROPERTY MISSES"))
    if not ok:
        continue
    src = "%s/%s/%s" % (OUT, prop, x); dst = "/verif/seeded/%s" % name
    os.makedirs(dst, exist_ok=True)
    for fn in ("patch.diff", "demo.py", "notes.md"):
        if os.path.exists(os.path.join(src, fn)): shutil.copy(os.path.join(src, fn), os.path.join(dst, fn))
    notes = open(os.path.join(src, "notes.md")).read() if os.path.exists(os.path.join(src, "notes.md")) else ""
    json.dump({"property": prop, "origin": "independent sub-agent given only the property text and a scratch worktree (round %s)" % TAG,
               "needs_to_manifest": " ".join(notes.split())[:600],
               "confirmed_by_me": {"command": "/verif/tools_confirm_seed.sh (scratch git worktree of /repo HEAD, removed afterwards)", "demo_exit_without_patch": rc0,
                                   "demo_exit_with_patch": rc1, "baseline_stable_tests_not_passing_with_patch": missing},
               "detected_by": d, "analysis_error_in": e}, open(os.path.join(dst, "meta.json"), "w"), indent=1)
PY
rm -rf /tmp/confirm
