#!/venv/bin/python
"""Writes sa/known_functions.json: the qualified names of the functions and methods of every module of /repo's
committed tree (git HEAD).  sa/inline.py expands calls of private helpers that are NOT in this list.  Re-run after a
`fix:` commit in /repo that adds or renames functions."""
import ast, json, subprocess, io, tarfile
out = {}
data = subprocess.run(["git", "-C", "/repo", "archive", "HEAD", "eliot"], capture_output=True, check=True).stdout
tf = tarfile.open(fileobj=io.BytesIO(data))
for m in tf.getmembers():
    if m.name.endswith(".py") and m.name.count("/") == 1:
        src = tf.extractfile(m).read().decode("utf-8")
        short = m.name.split("/")[1][:-3]
        short = "eliot" if short == "__init__" else short
        names = []
        tree = ast.parse(src)
        for node in tree.body:
            if isinstance(node, (ast.FunctionDef, ast.AsyncFunctionDef)):
                names.append(node.name)
            elif isinstance(node, ast.ClassDef):
                for x in node.body:
                    if isinstance(x, (ast.FunctionDef, ast.AsyncFunctionDef)):
                        names.append("%s.%s" % (node.name, x.name))
        out[short] = sorted(set(names))
json.dump(out, open("/verif/sa/known_functions.json", "w"), indent=0, sort_keys=True)
print("known_functions.json: %d modules, %d functions" % (len(out), sum(len(v) for v in out.values())))
